"""C05 — the Monte Carlo runner runs exactly the requested repetitions per variation
(DESIGN.md §5 C05).

Tie to source: `lean/PyPhysim/Model/C05.lean` is a hand model of
`runner.py` (`_simulate_for_current_params_common`, the serial `simulate()`
paths), `parameters.py` (`get_unpacked_params_list`, `get_pack_indexes`) and
`results.py` (`get_result_values_list`); it is tied to the code by an EXACT
correspondence: a scripted `SimulationRunner` subclass replays a seeded stream
of outcomes (value / SkipThisOne) and the compiled model replays the same line.
The property oracles below recompute everything from the raw call log with
their own arithmetic (they do not use the model).
"""
import itertools
import json
import os
import shutil
import tempfile
from fractions import Fraction

from harness import core

MODULE = 'PyPhysim.Properties.C05'
DRIVER = 'drv_c05'

CLAIM = {
    'technique': 'Lean 4 induction over outcome streams and variation lists (loop invariant against a fold '
                 'specification, mixed-radix indexing, numpy slice = filter on digits) + exact event-log '
                 'correspondence with a scripted SimulationRunner',
    'text': 'Kernel-checked for every results type and merge operation (no law assumed), every rep_max, every '
            '_keep_going predicate of (merged results, skip counter, repetition index, variation), every loaded '
            'start state, every outcome stream and every runner state: one variation consumes exactly the minimal '
            'prefix of the stream after which `keep and rep < rep_max` fails, its stored result is the left fold of '
            'exactly the successful outcomes (merged into the loaded result when resumed), runned_reps is their '
            'number, a skip is never counted, a skip in the first repetition is retried, rep <= rep_max and the stop '
            'is by limit or by rule; simulate() splits the stream into one such run per variation 0..n-1 in that '
            'order, entry i of results / runned_reps / the partial files belongs to variation i, every variation is '
            'run, simulate(index) runs only that variation, a repeated simulate() without a results file equals a '
            'run on a new runner, a resumed variation that had reached the limit is not re-run; combination i is '
            'the one picked by the mixed-radix digits of i over the name-sorted parameters (last fastest), the '
            'number of variations is the product of the lengths; get_pack_indexes and get_result_values_list return '
            'exactly the combinations carrying the fixed values, in order (proved for duplicate-free value lists; '
            'negative witness proved for duplicates); the parameters object is a state machine (add / replace / remove '
            '/ set_unpack_parameter, rejected calls included) and after ANY two histories that leave the same content '
            '(same dictionary, same unpacked set) every look-up agrees, i.e. a look-up equals the one on a freshly built '
            'object: no stale derived state (lookup_no_stale_state). The model is tied to runner.py / parameters.py / results.py '
            'by exact comparison of call logs, runned_reps, stored statistics, partial files and lookups on seeded '
            'and exhaustively enumerated small scenarios, and on seeded histories that interleave simulate(), look-ups '
            'and mutations of the parameter set on one runner / one SimulationParameters object (each look-up also '
            'compared with a freshly constructed object of the same content); independent oracles re-check the property on the real '
            'code from the raw event log.',
    'note': 'Trusted beyond the common base: the hand model <-> code correspondence (a behaviour not reached by '
            'the generators is not tied), numpy reshape/indexing modelled as row-major index arithmetic, pickle '
            'round trip of partial results, Python str ordering = Lean String ordering. Partial: lookup theorems '
            'carry the hypothesis that no unpacked parameter lists a value twice (known finding C05:*:duplicate-'
            'values, negative witness pack_indexes_dup_first); termination is outside the model (a stream that '
            'runs out = a program that skips for ever, made explicit as exhausted/starved). Not modelled: progress '
            'bars, ipyparallel path, periodic (500 reps / 300 s) partial saving and crash/resume (C07), '
            'CHOICETYPE results (np.int defect, C06/C17), result merging internals (C06; the merge is a parameter).',
}

NAME_POOL = ['a', 'b', 'c', 'aa', 'ab', 'B', 'Z', 'a1', '_x', 'snr', 'SNR', 'M', 'z9']
FIXED_EXTRA = 'fx0'          # a parameter that is never unpacked
FIXED_EXTRA_VALUE = 7


class ScriptExhausted(BaseException):
    """the scripted outcome stream ran out (a real program would still be running)"""


# ------------------------------------------------------------------ keep rules
def eval_rule(rule, s, k, r):
    """the scripted `_keep_going`: s = merged 'sum' value, k = num_skipped_reps, r = current_rep"""
    t = rule.split(':')
    if t[0] == 'always':
        return True
    if t[0] == 'sumlt':
        return s < int(t[1])
    if t[0] == 'replt':
        return r < int(t[1])
    if t[0] == 'skiplt':
        return k < int(t[1])
    if t[0] == 'tbl':
        m, n, bits = int(t[1]), int(t[2]), t[3]
        i = (s % m) * n + r % n
        return i < len(bits) and bits[i] == '1'
    raise ValueError(rule)


def rule_for(case, pos):
    rules = case['keep']
    return rules[pos % len(rules)]


# ------------------------------------------------------------------ case <-> line
def case_line(case):
    names = case['names']
    vals = '|'.join(','.join(str(v) for v in case['vals'][n]) for n in names)
    outs = ','.join('s' if o == 's' else str(o) for o in case['outs'])
    ops = ','.join(case['ops'])
    look = '/'.join(','.join('%s:%d' % (k, v) for k, v in fx) for fx in case['look'])
    return 'sim names=%s vals=%s repmax=%d file=%d keep=%s ops=%s outs=%s look=%s' % (
        ','.join(names), vals, case['repmax'], 1 if case['file'] else 0, ';'.join(case['keep']), ops, outs, look)


def grid_line(case):
    names = case['names']
    vals = '|'.join(','.join(str(v) for v in case['vals'][n]) for n in names)
    look = '/'.join(','.join('%s:%d' % (k, v) for k, v in fx) for fx in case['look'])
    return 'grid names=%s vals=%s fixed=%s' % (','.join(names), vals, look)


# ------------------------------------------------------------------ implementation adapter
def _int(x):
    """exact integer value of an int / integral float (anything else is shown verbatim)"""
    if isinstance(x, float):
        f = Fraction(x)
        return str(f.numerator) if f.denominator == 1 else repr(x)
    try:
        return str(int(x)) if int(x) == x else repr(x)
    except Exception:
        return repr(x)


def _stat(res, j):
    """sufficient statistics of the j-th stored variation of a SimulationResults object"""
    s, ra, mi, tk, sk = (res[n][j] for n in ('sum', 'ratio', 'misc', 'tok', 'num_skipped_reps'))
    return '/'.join([_int(s._value), _int(s._result_squared_sum), _int(s.num_updates), _int(ra._value),
                     _int(ra._total), _int(ra.num_updates), _int(mi._value), _int(tk._value)]), _int(sk._value)


def _reps(x):
    if x is None:
        return 'none'
    if isinstance(x, list):
        return 'L:' + ','.join(str(int(v)) for v in x)
    return 'S:%d' % int(x)


def make_params(case):
    from pyphysim.simulations.parameters import SimulationParameters
    p = SimulationParameters()
    p.add(FIXED_EXTRA, FIXED_EXTRA_VALUE)
    for n in case['names']:
        p.add(n, list(case['vals'][n]))
        p.set_unpack_parameter(n)
    return p


def make_runner(case):
    """a SimulationRunner whose `_run_simulation` replays case['outs'] and whose `_keep_going`
    applies case['keep']; both log what they see"""
    from pyphysim.simulations.results import Result, SimulationResults
    from pyphysim.simulations.runner import SimulationRunner, SkipThisOne
    outs = case['outs']

    class Scripted(SimulationRunner):
        def __init__(self):
            super().__init__(read_command_line_args=False)
            self.update_progress_function_style = None
            self.pos = 0
            self.calllog = []
            self.events = []      # interleaved ('run', ...) / ('keep', ...) events

        def _run_simulation(self, current_parameters):
            if self.pos >= len(outs):
                self.events.append(('exhausted', current_parameters.unpack_index))
                raise ScriptExhausted()
            c = self.pos
            o = outs[c]
            self.pos += 1
            # the values this variation carries for the parameters that are unpacked right now
            names = list(self.params._unpacked_parameters_set)
            self.calllog.append((current_parameters.unpack_index, c, o,
                                 {n: current_parameters[n] for n in names}))
            self.events.append(('run',) + self.calllog[-1])
            if o == 's':
                raise SkipThisOne('scripted skip')
            r = SimulationResults()
            r.add_new_result('sum', Result.SUMTYPE, o)
            r.add_new_result('ratio', Result.RATIOTYPE, abs(o) % 5, 8)
            r.add_new_result('misc', Result.MISCTYPE, o)
            r.add_new_result('tok', Result.SUMTYPE, 1 << c)
            return r

        def _keep_going(self, current_params, current_sim_results, current_rep):
            pos = max(current_params.unpack_index, 0)
            sm = current_sim_results['sum'][-1]._value
            v = eval_rule(rule_for(case, pos), sm,
                          current_sim_results['num_skipped_reps'][-1]._value, current_rep)
            self.events.append(('keep', current_params.unpack_index, sm,
                                current_sim_results['tok'][-1]._value, current_rep, v))
            return v

    runner = Scripted()
    runner.rep_max = case['repmax']
    p = runner.params
    p.add(FIXED_EXTRA, FIXED_EXTRA_VALUE)
    for n in case['names']:
        p.add(n, list(case['vals'][n]))
        p.set_unpack_parameter(n)
    return runner


def run_op(runner, op, tmp):
    """one simulate() / simulate(index) call; returns (canonical part, observation)"""
    from pyphysim.simulations.results import SimulationResults
    start = len(runner.calllog)
    estart = len(runner.events)
    status = 'ok'
    try:
        if op == 'all':
            runner.simulate()
        else:
            runner.simulate(int(op.split(':')[1]))
    except ScriptExhausted:
        status = 'Exhausted'
    except Exception as e:  # SkipThisOne, RuntimeError, ...
        status = type(e).__name__
    calls = runner.calllog[start:]
    res = runner.results
    nres = len(res['sum']) if 'sum' in res.get_result_names() else 0
    stats = [_stat(res, j) for j in range(nres)]
    store = {}
    for fn in sorted(os.listdir(tmp)):
        if '_unpack_' in fn:
            idx = int(fn.split('_unpack_')[1].split('.')[0])
            sr = SimulationResults.load_from_file(os.path.join(tmp, fn))
            st, sk = _stat(sr, 0)
            store[idx] = (int(sr.current_rep), sk, st)
    part = 'st=%s log=%s reps=%s rr=%s res=%s store=%s' % (
        status, ','.join(str(c[0]) for c in calls), _reps(runner.runned_reps), _reps(res.runned_reps),
        '|'.join('%s/%s' % s for s in stats),
        '|'.join('%d:%d:%s:%s' % ((i,) + store[i]) for i in sorted(store)))
    ob = {'status': status, 'calls': calls, 'events': runner.events[estart:], 'reps': runner.runned_reps,
          'stats': stats, 'store': dict(store)}
    return part, ob


def run_impl(case, scratch):
    """Run the scenario on the real code. Returns (canonical string, observations)."""
    tmp = tempfile.mkdtemp(prefix='c05_', dir=scratch)
    try:
        runner = make_runner(case)
        if case['file']:
            runner.set_results_filename(os.path.join(tmp, 'res'))
            runner.partial_results_folder = None
        parts = []
        obs = {'ops': []}
        for op in case['ops']:
            part, ob = run_op(runner, op, tmp)
            parts.append(part)
            obs['ops'].append(ob)
        looks = []
        obs['look'] = []
        for fx in case['look']:
            try:
                v = runner.results.get_result_values_list('tok', dict(fx))
                looks.append(','.join(_int(x) for x in v))
                obs['look'].append(('ok', [int(x) for x in v]))
            except BaseException as e:
                looks.append('error:' + type(e).__name__)
                obs['look'].append(('error', type(e).__name__))
        return ' ; '.join(parts) + ' ; look=' + '/'.join(looks), obs
    finally:
        shutil.rmtree(tmp, ignore_errors=True)


# ------------------------------------------------------------------ histories that mutate the parameters
def hist_line(case):
    names = case['names']
    vals = '|'.join(','.join(str(v) for v in case['vals'][n]) for n in names)
    outs = ','.join('s' if o == 's' else str(o) for o in case['outs'])
    return 'hist names=%s vals=%s repmax=%d keep=%s outs=%s ops=%s' % (
        ','.join(names), vals, case['repmax'], ';'.join(case['keep']), outs, ','.join(case['ops']))


def parse_hop(op):
    """('all',) | ('padd', name, [ints]) | ('pscalar', name, int) | ('prem', name) |
    ('punp', name, bool) | ('q', [(name, value)])"""
    if op == 'all':
        return ('all',)
    if op.startswith('q:'):
        body = op[2:]
        fx = []
        for t in [x for x in body.split('+') if x]:
            k, v = t.split(':')
            fx.append((k, int(v)))
        return ('q', fx)
    t = op.split(':')
    if t[0] == 'padd':
        return ('padd', t[1], [int(x) for x in t[2].split('.') if x])
    if t[0] == 'pscalar':
        return ('pscalar', t[1], int(t[2]))
    if t[0] == 'prem':
        return ('prem', t[1])
    if t[0] == 'punp':
        return ('punp', t[1], t[2] == '1')
    raise ValueError(op)


def apply_content(content, hop):
    """what the parameters object must store after the call (own bookkeeping, Python dict/set
    semantics of the documented API); content = (dict name -> list | int, set of unpacked names)"""
    d, u = content
    if hop[0] == 'padd':
        d[hop[1]] = list(hop[2])
    elif hop[0] == 'pscalar':
        d[hop[1]] = hop[2]
    elif hop[0] == 'prem':
        if hop[1] in d:
            del d[hop[1]]
            u.discard(hop[1])
    elif hop[0] == 'punp':
        if hop[1] in d and isinstance(d[hop[1]], list):
            if hop[2]:
                u.add(hop[1])
            else:
                u.discard(hop[1])


def query_params(p, res, fx, with_results):
    """every look-up the property speaks about, on the parameters object `p` (and the results
    object `res`): (num, combos, unpack indexes, pack, values)"""
    out = {}
    try:
        out['n'] = int(p.get_num_unpacked_variations())
        lst = p.get_unpacked_params_list()
        names = sorted(p._unpacked_parameters_set)
        out['combos'] = [[c[n] for n in names] for c in lst]
        out['idx'] = [c.unpack_index for c in lst]
    except Exception as e:
        out['error'] = type(e).__name__
        return out
    try:
        out['pack'] = ('ok', [int(x) for x in p.get_pack_indexes(dict(fx))])
    except BaseException as e:
        out['pack'] = ('error', type(e).__name__)
    if with_results:
        try:
            out['rv'] = ('ok', [int(x) for x in res.get_result_values_list('tok', dict(fx))])
        except BaseException as e:
            out['rv'] = ('error', type(e).__name__)
    return out


def _show_pack(r):
    return ','.join(str(x) for x in r[1]) if r[0] == 'ok' else 'error:' + r[1]


def run_hist_impl(case, scratch):
    """simulate() calls, look-ups and mutations of the parameter set interleaved on ONE runner /
    ONE SimulationParameters object.  Every look-up is also made on a freshly constructed
    SimulationParameters (+ SimulationResults holding the same Result objects) with the same content."""
    from pyphysim.simulations.parameters import SimulationParameters
    from pyphysim.simulations.results import SimulationResults
    tmp = tempfile.mkdtemp(prefix='c05h_', dir=scratch)
    try:
        runner = make_runner(case)
        content = ({n: list(case['vals'][n]) for n in case['names']}, set(case['names']))
        parts = []
        obs = {'ops': []}
        simulated = False
        for op in case['ops']:
            hop = parse_hop(op)
            if hop[0] == 'all':
                part, ob = run_op(runner, 'all', tmp)
                simulated = True
                ob['kind'] = 'all'
                ob['content'] = ({k: (list(v) if isinstance(v, list) else v) for k, v in content[0].items()},
                                 set(content[1]))
            elif hop[0] == 'q':
                q = query_params(runner.params, runner.results, hop[1], simulated)
                fresh = SimulationParameters()
                fresh.add(FIXED_EXTRA, FIXED_EXTRA_VALUE)
                for k in sorted(content[0]):
                    v = content[0][k]
                    fresh.add(k, list(v) if isinstance(v, list) else v)
                for k in sorted(content[1]):
                    fresh.set_unpack_parameter(k)
                fres = SimulationResults()
                fres._results = {k: list(v) for k, v in runner.results._results.items()}
                fres.set_parameters(fresh)
                qf = query_params(fresh, fres, hop[1], simulated)
                if 'error' in q:
                    part = 'q=' + q['error']
                else:
                    part = 'n=%d nc=%d combos=%s pack=%s rv=%s' % (
                        q['n'], len(q['combos']), '|'.join('.'.join(str(v) for v in c) for c in q['combos']),
                        _show_pack(q['pack']), _show_pack(q['rv']) if simulated else '-')
                ob = {'kind': 'q', 'q': q, 'fresh': qf, 'fixed': hop[1],
                      'content': ({k: (list(v) if isinstance(v, list) else v) for k, v in content[0].items()},
                                  set(content[1]))}
            else:
                status = 'ok'
                p = runner.params
                try:
                    if hop[0] == 'padd':
                        p.add(hop[1], list(hop[2]))
                    elif hop[0] == 'pscalar':
                        p.add(hop[1], hop[2])
                    elif hop[0] == 'prem':
                        p.remove(hop[1])
                    else:
                        p.set_unpack_parameter(hop[1], hop[2])
                except Exception as e:
                    status = type(e).__name__
                apply_content(content, hop)
                part = 'p=' + status
                ob = {'kind': 'p', 'status': status}
            parts.append(part)
            obs['ops'].append(ob)
        return ' ; '.join(parts), obs
    finally:
        shutil.rmtree(tmp, ignore_errors=True)


def _pseudo(case, content):
    """the grid the object holds right now, as a case for the grid oracles"""
    d, u = content
    names = sorted(u)
    return dict(case, names=names, vals={n: d[n] for n in names}, file=False, look=[])


def oracle_hist(case, obs):
    """Property on a history with parameter mutations: every simulate() obeys the repetition
    discipline ON THE CURRENT GRID, and every look-up (a) equals the look-up on a freshly built
    object with the same content (no stale derived state) and (b) returns the combinations that
    carry the fixed values of the current grid (first principles)."""
    out = []
    last_all = None      # (stats, content-at-that-time) of the last completed simulate()
    mutated = False
    for opi, (op, ob) in enumerate(zip(case['ops'], obs['ops'])):
        if ob['kind'] == 'p':
            mutated = True
            last_all = (last_all[0], None) if last_all else None
            continue
        if ob['kind'] == 'all':
            pc = _pseudo(case, ob['content'])
            if any(not isinstance(v, list) for v in pc['vals'].values()):
                continue
            v = oracle_sim(dict(pc, ops=['all']), {'ops': [ob], 'look': []})
            if v:
                return out + v
            last_all = (ob['stats'], ob['content']) if ob['status'] == 'ok' else None
            continue
        q, qf = ob['q'], ob['fresh']
        pc = _pseudo(case, ob['content'])
        stale_cls = 'stale-derived-state' if mutated else 'differs-from-fresh-object'
        pairs = [('SimulationParameters.get_num_unpacked_variations', 'n'),
                 ('SimulationParameters.get_unpacked_params_list', 'combos'),
                 ('SimulationParameters.get_unpacked_params_list', 'idx'),
                 ('SimulationParameters.get_pack_indexes', 'pack'),
                 ('SimulationResults.get_result_values_list', 'rv'),
                 ('SimulationParameters.get_num_unpacked_variations', 'error')]
        for call, k in pairs:
            if q.get(k) != qf.get(k):
                out.append((call, stale_cls, 'after %r: %s = %r on the used object, %r on a fresh object with '
                            'the same content' % (case['ops'][:opi + 1][-4:], k, q.get(k),
                                                  qf.get(k))))
        if out:
            return out
        if 'error' in q or any(not isinstance(v, list) for v in pc['vals'].values()):
            continue
        names, dims, n, combo = grid_facts(pc)
        if q['n'] != n or len(q['combos']) != n:
            out.append(('SimulationParameters.get_num_unpacked_variations', 'wrong-number-of-variations',
                        'n=%r len=%d expected %d' % (q['n'], len(q['combos']), n)))
            return out
        for i in range(n):
            if q['combos'][i] != [combo(i)[k] for k in names] or q['idx'][i] != (i if names else -1):
                out.append(('SimulationParameters.get_unpacked_params_list', 'wrong-parameters',
                            'variation %d is %r (unpack_index %r)' % (i, q['combos'][i], q['idx'][i])))
                return out
        fx = ob['fixed']
        pos, absent, dup = expected_matches(pc, fx)
        kind, val = q['pack']
        if not (absent and kind == 'error' and val == 'ValueError'):
            if kind != 'ok' or val != pos:
                out.append(('SimulationParameters.get_pack_indexes', lookup_class(pc, dup),
                            'fixed=%r returned %r, matching combinations %r' % (fx, val, pos)))
        if 'rv' in q and last_all and last_all[1] is not None and len(last_all[0]) == n and n > 0:
            toks = [int(st.split('/')[7]) for st, _ in last_all[0]]
            kind, val = q['rv']
            exp = [toks[i] for i in pos] if fx else toks
            if not (fx and absent and kind == 'error' and val == 'ValueError'):
                if kind != 'ok' or val != exp:
                    out.append(('SimulationResults.get_result_values_list', lookup_class(pc, dup),
                                'fixed=%r returned %r, matching combinations %r -> %r' % (fx, val, pos, exp)))
    return out


def content_after(names, vals, ops):
    content = ({n: list(vals[n]) for n in names}, set(names))
    for op in ops:
        hop = parse_hop(op)
        if hop[0] not in ('all', 'q'):
            apply_content(content, hop)
    return content


def gen_hist(rng):
    """simulate() / look-up / parameter-mutation histories on one runner (no results file)"""
    names, vals = gen_grid(rng, max_len=3, dup_p=0.05, empty_p=0.02)
    repmax = rng.randint(1, 3)
    keep = [gen_rule(rng, repmax) for _ in range(rng.choice([1, 1, 2]))]
    ops = []
    budget = 330

    def lst(v):
        return '.'.join(str(x) for x in v)

    def newlist(avoid_len=None):
        while True:
            ln = rng.randint(0, 3) if rng.chance(0.05) else rng.randint(1, 3)
            if ln != avoid_len:
                break
        base = list(range(-3, 12))
        rng.shuffle(base)
        return base[:ln]

    def fixed(d, u):
        cur = sorted(u)
        fx = gen_looks(rng, cur, {n: d[n] for n in cur}, 1)[0]
        return 'q:' + '+'.join('%s:%d' % (k, v) for k, v in fx)

    for _ in range(rng.randint(4, 12)):
        d, u = content_after(names, vals, ops)
        k = rng.below(100)
        if k < 28:
            nv = 1
            for nm in u:
                nv *= len(d[nm])
            cost = nv * (repmax + 1) + 2
            if cost <= budget:
                ops.append('all')
                budget -= cost
            else:
                ops.append(fixed(d, u))
        elif k < 62:
            ops.append(fixed(d, u))
        elif k < 78:
            if u:                                         # replace a value list by one of another length
                nm = rng.choice(sorted(u))
                ops.append('padd:%s:%s' % (nm, lst(newlist(avoid_len=len(d[nm])))))
        elif k < 85:
            nm = rng.choice(NAME_POOL)                    # a new list parameter, unpacked at once
            if nm not in d and len(u) < 3:
                ops += ['padd:%s:%s' % (nm, lst(newlist())), 'punp:%s:1' % nm]
        elif k < 91:
            if d:
                nm = rng.choice(sorted(d))
                if isinstance(d[nm], list):
                    if nm in u:
                        ops.append('punp:%s:0' % nm)
                    elif len(u) < 3:
                        ops.append('punp:%s:1' % nm)
                    else:
                        ops.append('punp:%s:0' % nm)       # KeyError: not in the set
                else:
                    ops.append('punp:%s:1' % nm)           # ValueError: not iterable
        elif k < 95:
            if d:
                ops.append('prem:%s' % rng.choice(sorted(d)))
        elif k < 98:
            nm = rng.choice(NAME_POOL)
            if nm not in u:                                # never turn an unpacked parameter into a scalar
                ops.append('pscalar:%s:%d' % (nm, rng.randint(-3, 9)))
        else:
            ops.append(rng.choice(['prem:nope', 'punp:nope:1', 'punp:nope:0']))
    if 'all' not in ops:
        ops.insert(rng.below(len(ops) + 1), 'all')
    d, u = content_after(names, vals, ops)
    ops.append(fixed(d, u))
    skip_p = rng.choice([0.0, 0.1, 0.2])
    outs = ['s' if rng.chance(skip_p) else rng.randint(-3, 6) for _ in range(380)]
    return dict(kind='hist', names=names, vals=vals, repmax=repmax, keep=keep, ops=ops, outs=outs, file=False,
                look=[])


def run_grid_impl(case):
    p = make_params(case)
    names = sorted(case['names'])
    lst = p.get_unpacked_params_list()
    combos = [[c[n] for n in names] for c in lst]
    idxs = [c.unpack_index for c in lst]
    packs = []
    obs = {'combos': combos, 'idx': idxs, 'n': p.get_num_unpacked_variations(), 'pack': []}
    for fx in case['look']:
        try:
            v = p.get_pack_indexes(dict(fx))
            packs.append(','.join(str(int(x)) for x in v))
            obs['pack'].append(('ok', [int(x) for x in v]))
        except BaseException as e:
            packs.append('error:' + type(e).__name__)
            obs['pack'].append(('error', type(e).__name__))
    s = 'order=%s n=%d nc=%d combos=%s pack=%s' % (
        ','.join(p.unpacked_parameters), obs['n'], len(lst),
        '|'.join('.'.join(str(v) for v in c) for c in combos), '/'.join(packs))
    return s, obs


# ------------------------------------------------------------------ first-principles oracles
def grid_facts(case):
    """documented order: names sorted, row-major, last name fastest (own divmod arithmetic)"""
    names = sorted(case['names'])
    dims = [len(case['vals'][n]) for n in names]
    n = 1
    for d in dims:
        n *= d

    def combo(i):
        out = {}
        for name, d in reversed(list(zip(names, dims))):
            i, k = divmod(i, d)
            out[name] = case['vals'][name][k]
        return out
    return names, dims, n, combo


def expected_matches(case, fx):
    """positions whose combination carries every fixed value of an unpacked parameter;
    also: is some fixed value absent from its list / duplicated in it"""
    names, dims, n, combo = grid_facts(case)
    rel = [(k, v) for k, v in fx if k in names]
    absent = any(v not in case['vals'][k] for k, v in rel)
    dup = any(len(set(case['vals'][k])) != len(case['vals'][k]) for k, v in rel)
    pos = [i for i in range(n) if all(combo(i)[k] == v for k, v in rel)]
    return pos, absent, dup


def lookup_class(case, dup):
    if not case['names']:
        return 'lookup:no-unpacked-parameters'
    return 'lookup:duplicate-values' if dup else 'lookup:wrong-combinations'


def oracle_sim(case, obs):
    """The property, checked from first principles on the raw event log of one scenario
    (calls received by `_run_simulation`, inputs and answers of `_keep_going`, stored
    results, runned_reps, partial files, lookups). Returns [(call, class, detail)].

    Discipline checked per variation: the first repetition needs no permission (there are
    no results to show to `_keep_going`); every later call needs a preceding `_keep_going`
    evaluation ON THE CURRENT MERGED RESULTS that returned True, and rep < rep_max; the
    variation may only end with rep == rep_max or after `_keep_going` returned False on the
    final results; a skip changes neither the merged results nor the count."""
    out = []
    names, dims, n, combo = grid_facts(case)
    repmax = case['repmax']
    carry = {}          # position -> (sum, tok, rep) saved in a partial file
    final_stats = None  # stats of the last completed all-variations simulate
    call = 'SimulationRunner.simulate'
    for op, ob in zip(case['ops'], obs['ops']):
        final_stats = None
        if op == 'all':
            positions = list(range(n))
        else:
            i = int(op.split(':')[1])
            positions = [i] if 0 <= i < n else []
            if not case['file']:
                # documented: a results file name is required for a single variation
                if ob['status'] != 'RuntimeError' or ob['calls']:
                    out.append((call, 'single-without-filename', 'status=%s' % ob['status']))
                continue
        calls = ob['calls']
        if ob['status'] == 'SkipThisOne':
            first = bool(calls) and calls[-1][2] == 's' and all(
                c[2] == 's' for c in calls if c[0] == calls[-1][0])
            fresh = not (case['file'] and max(calls[-1][0], 0) in carry) if calls else True
            cls = 'skip-in-first-repetition' if (first and fresh) else 'skip-propagated'
            out.append((call, cls, 'SkipThisOne left simulate() at call %d of the op' % len(calls)))
            return out
        if ob['status'] not in ('ok', 'Exhausted'):
            out.append((call, 'exception:' + ob['status'], 'simulate() raised'))
            return out
        # group the events by variation, in order of appearance
        groups = []
        for ev in ob['events']:
            ui = ev[1]
            if (ui < 0) != (not names):
                out.append((call, 'wrong-variation-order', 'unpack_index %d' % ui))
                return out
            if not groups or groups[-1][0] != max(ui, 0):
                groups.append((max(ui, 0), []))
            groups[-1][1].append(ev)
        gi = 0
        done = []
        aborted = False
        for pos in positions:
            st = carry.get(pos) if case['file'] else None
            s, tok, rep = st if st else (0, 0, 0)
            have = st is not None
            if gi < len(groups) and groups[gi][0] == pos:
                evs = groups[gi][1]
                gi += 1
            elif have and rep >= repmax:
                evs = []        # nothing to do for a finished, resumed variation
            elif ob['status'] == 'Exhausted' and gi >= len(groups):
                aborted = True
                break
            else:
                got = groups[gi][0] if gi < len(groups) else None
                out.append((call, 'wrong-variation-order',
                            'expected events of variation %d, found those of %r' % (pos, got)))
                return out
            permitted = not have
            last_keep = None
            for ev in evs:
                if ev[0] == 'exhausted':
                    if not permitted:
                        out.append((call, 'extra-repetitions',
                                    'variation %d: repetition requested at rep=%d (rep_max=%d) without the stop '
                                    'rule and the limit allowing it' % (pos, rep, repmax)))
                        return out
                    aborted = True
                    break
                if ev[0] == 'keep':
                    _, ui, s_in, tok_in, r_in, res = ev
                    if not have or s_in != s or tok_in != tok or r_in != rep:
                        out.append((call, 'keep-going-inputs',
                                    'variation %d: _keep_going saw sum=%r tok=%r rep=%r, merged results '
                                    'are sum=%r tok=%r rep=%r' % (pos, s_in, tok_in, r_in, s, tok, rep)))
                        return out
                    permitted = bool(res) and rep < repmax
                    last_keep = bool(res)
                else:
                    _, ui, c, o, pv = ev
                    if pv != combo(pos):
                        out.append(('SimulationParameters.get_unpacked_params_list', 'wrong-parameters',
                                    'variation %d got %r expected %r' % (pos, pv, combo(pos))))
                        return out
                    if not permitted:
                        out.append((call, 'extra-repetitions',
                                    'variation %d: repetition run at rep=%d (rep_max=%d) without the stop rule '
                                    'and the limit allowing it' % (pos, rep, repmax)))
                        return out
                    if o == 's':
                        permitted = not have
                    else:
                        s += o
                        tok += 1 << c
                        rep += 1
                        have = True
                        permitted = False
                    last_keep = None
            if aborted:
                break
            if not have or (rep < repmax and last_keep is not False):
                out.append((call, 'too-few-repetitions',
                            'variation %d ended at rep %d < rep_max %d although _keep_going had not '
                            'returned False on the final results' % (pos, rep, repmax)))
                return out
            done.append((pos, s, tok, rep))
        if aborted:
            # the variations completed before the script ran out have written their partial files
            if case['file']:
                for pos, s, tok, rep in done:
                    carry[pos] = (s, tok, rep)
            continue
        if gi != len(groups):
            out.append((call, 'wrong-variation-order', 'events of variation %d after the last expected one'
                        % groups[gi][0]))
            return out
        if ob['status'] == 'Exhausted':
            out.append((call, 'extra-repetitions', 'the script ran out after every variation was complete'))
            return out
        # recorded counts and stored results
        if op == 'all':
            if ob['reps'] != [d[3] for d in done]:
                out.append((call, 'runned-reps-mismatch', 'runned_reps=%r executed=%r'
                            % (ob['reps'], [d[3] for d in done])))
            if len(ob['stats']) != len(done):
                out.append((call, 'stored-result-not-merge', '%d stored results for %d variations'
                            % (len(ob['stats']), len(done))))
            else:
                for (pos, s, tok, rep), (st, sk) in zip(done, ob['stats']):
                    f = st.split('/')
                    if f[0] != str(s) or f[7] != str(tok):
                        out.append((call, 'stored-result-not-merge',
                                    'variation %d: stored sum=%s tok=%s, merged sum=%d tok=%d'
                                    % (pos, f[0], f[7], s, tok)))
                        break
                final_stats = ob['stats']
        else:
            if done:
                pos, s, tok, rep = done[0]
                if ob['reps'] != rep:
                    out.append((call, 'runned-reps-mismatch', 'runned_reps=%r executed=%r' % (ob['reps'], rep)))
                key = pos if names else -1
                sv = ob['store'].get(key)
                if sv is None or sv[0] != rep or sv[2].split('/')[0] != str(s) or sv[2].split('/')[7] != str(tok):
                    out.append((call, 'stored-result-not-merge', 'variation %d: partial file %r, merged '
                                'sum=%d tok=%d rep=%d' % (pos, sv, s, tok, rep)))
        if case['file']:
            for pos, s, tok, rep in done:
                carry[pos] = (s, tok, rep)
        if out:
            return out
    # lookups by fixed parameter values
    call = 'SimulationResults.get_result_values_list'
    if final_stats is not None and len(final_stats) == n and n > 0:
        toks = [int(st.split('/')[7]) for st, _ in final_stats]
        for fx, (kind, val) in zip(case['look'], obs['look']):
            pos, absent, dup = expected_matches(case, fx)
            if absent and kind == 'error' and val == 'ValueError':
                continue          # documented rejection of a value that is not in the grid
            exp = [toks[i] for i in pos]
            if kind != 'ok' or val != exp:
                out.append((call, lookup_class(case, dup), 'fixed=%r returned %r, matching combinations %r -> %r'
                            % (fx, val, pos, exp)))
    return out


def oracle_grid(case, obs):
    out = []
    names, dims, n, combo = grid_facts(case)
    call = 'SimulationParameters.get_unpacked_params_list'
    if obs['n'] != n or len(obs['combos']) != n:
        out.append((call, 'wrong-number-of-variations', 'n=%r len=%d expected %d' % (obs['n'], len(obs['combos']), n)))
    else:
        for i in range(n):
            if obs['combos'][i] != [combo(i)[k] for k in names]:
                out.append((call, 'wrong-parameters', 'variation %d is %r' % (i, obs['combos'][i])))
                break
            if obs['idx'][i] != (i if names else -1):
                out.append((call, 'wrong-unpack-index', 'variation %d has unpack_index %r' % (i, obs['idx'][i])))
                break
    call = 'SimulationParameters.get_pack_indexes'
    for fx, (kind, val) in zip(case['look'], obs['pack']):
        pos, absent, dup = expected_matches(case, fx)
        if absent and kind == 'error' and val == 'ValueError':
            continue
        if kind != 'ok' or val != pos:
            out.append((call, lookup_class(case, dup), 'fixed=%r returned %r, matching combinations %r'
                        % (fx, val, pos)))
    return out


def _o_sim(case):
    scratch = tempfile.mkdtemp(prefix='c05_replay_')
    try:
        _, obs = run_impl(case, scratch)
    finally:
        shutil.rmtree(scratch, ignore_errors=True)
    return oracle_sim(case, obs)


def _o_grid(case):
    _, obs = run_grid_impl(case)
    return oracle_grid(case, obs)


def _first(viols, call):
    for c, cls, d in viols:
        if c == call:
            return cls, d
    return None


def _o_hist(case):
    scratch = tempfile.mkdtemp(prefix='c05_replay_')
    try:
        _, obs = run_hist_impl(case, scratch)
    finally:
        shutil.rmtree(scratch, ignore_errors=True)
    return oracle_hist(case, obs)


def _violations(case):
    kind = case.get('kind')
    return _o_grid(case) if kind == 'grid' else _o_hist(case) if kind == 'hist' else _o_sim(case)


def _mk(call):
    def f(case):
        return _first(_violations(case), call)
    return f


ORACLES = {c: _mk(c) for c in ('SimulationRunner.simulate', 'SimulationResults.get_result_values_list',
                               'SimulationParameters.get_pack_indexes',
                               'SimulationParameters.get_unpacked_params_list',
                               'SimulationParameters.get_num_unpacked_variations')}


def replay(ctx, rep):
    case = rep['case']
    viols = _violations(case)
    return any(c == rep['call'] and cls == rep['class'] for c, cls, d in viols)


# ------------------------------------------------------------------ generators
def gen_grid(rng, max_params=3, max_len=4, dup_p=0.12, empty_p=0.04):
    k = rng.choice([0, 1, 1, 2, 2, 2, 3, 3]) if max_params >= 3 else rng.randint(0, max_params)
    pool = list(NAME_POOL)
    rng.shuffle(pool)
    names = pool[:k]
    vals = {}
    for nm in names:
        ln = 0 if rng.chance(empty_p) else rng.randint(1, max_len)
        base = list(range(-3, 12))
        rng.shuffle(base)
        v = base[:ln]
        if ln >= 2 and rng.chance(dup_p):
            v[rng.below(ln)] = v[rng.below(ln)]
        vals[nm] = v
    return names, vals


def gen_looks(rng, names, vals, count):
    looks = []
    for _ in range(count):
        fx = []
        cand = list(names)
        rng.shuffle(cand)
        for nm in cand[:rng.randint(0, len(cand))]:
            if vals[nm] and not rng.chance(0.08):
                fx.append((nm, rng.choice(vals[nm])))
            else:
                fx.append((nm, 99))          # a value that is not in the grid
        if rng.chance(0.25) or not fx:
            fx.append((FIXED_EXTRA, FIXED_EXTRA_VALUE))   # a fixed (never unpacked) parameter
        rng.shuffle(fx)
        looks.append(fx)
    return looks


def gen_rule(rng, repmax):
    k = rng.below(10)
    if k < 3:
        return 'always'
    if k < 5:
        return 'sumlt:%d' % rng.randint(-2, 12)
    if k < 6:
        return 'replt:%d' % rng.randint(0, repmax + 2)
    if k < 7:
        return 'skiplt:%d' % rng.randint(0, 3)
    m, n = rng.randint(1, 4), rng.randint(1, 4)
    bits = ''.join('1' if rng.chance(0.7) else '0' for _ in range(m * n))
    return 'tbl:%d:%d:%s' % (m, n, bits)


def gen_case(rng):
    names, vals = gen_grid(rng)
    nvar = 1
    for nm in names:
        nvar *= len(vals[nm])
    repmax = rng.randint(1, 8)
    keep = [gen_rule(rng, repmax) for _ in range(rng.choice([1, 1, 2, 3]))]
    file = rng.chance(0.5)
    ops = []
    for _ in range(rng.choice([1, 1, 2, 3])):
        if rng.chance(0.7):
            ops.append('all')
        else:
            ops.append('single:%d' % rng.randint(-1, max(nvar, 1)))
    skip_p = rng.choice([0.0, 0.1, 0.3, 0.5])
    need = min(400, (repmax + 3) * max(nvar, 1) * len(ops) * 2 + 6)
    if rng.chance(0.06):
        need = rng.randint(0, max(1, need // 3))        # a script that runs out
    outs = []
    for _ in range(need):
        outs.append('s' if rng.chance(skip_p) else rng.randint(-3, 6))
    look = gen_looks(rng, names, vals, rng.randint(0, 3))
    return dict(kind='sim', names=names, vals=vals, repmax=repmax, file=file, keep=keep, ops=ops, outs=outs,
                look=look)


def classify(case, obs):
    """non-triviality key: grid shape, how the variations stopped, skips present"""
    dims = tuple(sorted(len(case['vals'][n]) for n in case['names']))
    stops = set()
    for ob in obs['ops']:
        if isinstance(ob['reps'], list):
            for r in ob['reps']:
                stops.add('limit' if r >= case['repmax'] else 'rule')
        elif ob['status'] == 'ok':
            stops.add('limit' if ob['reps'] >= case['repmax'] else 'rule')
    skips = any(c[2] == 's' for ob in obs['ops'] for c in ob['calls'])
    return dims, tuple(sorted(stops)), skips, case['file'], tuple(o.split(':')[0] for o in case['ops'])


# ------------------------------------------------------------------ the check
def run_cases(ctx, cases, name='simulate'):
    drv = core.Driver(DRIVER)
    for lo in range(0, len(cases), 2000):
        chunk = cases[lo:lo + 2000]
        model = drv.ask([grid_line(c) if c['kind'] == 'grid' else hist_line(c) if c['kind'] == 'hist'
                         else case_line(c) for c in chunk])
        for c, m in zip(chunk, model):
            if c['kind'] == 'grid':
                impl, obs = run_grid_impl(c)
                key = ('grid', tuple(sorted(len(c['vals'][n]) for n in c['names'])), len(c['look']),
                       tuple(sorted(k for fx in c['look'] for k, _ in fx)))
                ctx.corr('get_unpacked_params_list+get_pack_indexes', c, impl, m,
                         nontrivial=len(c['names']) >= 1, key=key)
                viols = oracle_grid(c, obs)
                ctx.branch('grid:params=%d' % len(c['names']))
                if any(k == 'error' for k, _ in obs['pack']):
                    ctx.branch('grid:pack-error')
            elif c['kind'] == 'hist':
                impl, obs = run_hist_impl(c, ctx.scratch)
                kinds = [o.split(':')[0] for o in c['ops']]
                # look-ups that follow a mutation of the parameter set, and whether a simulate() came between
                shape = []
                mutated = False
                for k in kinds:
                    if k.startswith('p'):
                        mutated = True
                        shape.append('m')
                    elif k == 'all':
                        shape.append('s')
                    elif mutated:
                        shape.append('q')
                key = ('hist', tuple(sorted(len(c['vals'][n]) for n in c['names'])), ''.join(shape)[:12])
                ctx.corr('history-with-parameter-mutations', c, impl, m, nontrivial='q' in shape, key=key)
                viols = oracle_hist(c, obs)
                ctx.branch('hist')
                if 'mq' in ''.join(shape):
                    ctx.branch('hist:lookup-right-after-mutation')
                if 'msq' in ''.join(shape) or 'ms' in ''.join(shape) and 'q' in ''.join(shape).split('ms', 1)[1]:
                    ctx.branch('hist:mutate-simulate-lookup')
                for k in kinds:
                    if k.startswith('p'):
                        ctx.branch('hist:' + k)
                for ob in obs['ops']:
                    if ob['kind'] == 'p' and ob['status'] != 'ok':
                        ctx.branch('hist:rejected-' + ob['status'])
                ctx.sample({'line': hist_line(c)[:400], 'impl': impl[:400], 'model': m[:400]}, limit=8)
            else:
                impl, obs = run_impl(c, ctx.scratch)
                key = classify(c, obs)
                ctx.corr(name, c, impl, m, nontrivial=bool(key[1]), key=key)
                viols = oracle_sim(c, obs)
                for ob in obs['ops']:
                    ctx.branch('status:' + ob['status'])
                for st in key[1]:
                    ctx.branch('stop:' + st)
                if key[2]:
                    ctx.branch('skips')
                ctx.branch('params=%d' % len(c['names']))
                if c['file'] and len(c['ops']) > 1:
                    ctx.branch('resume-from-partial-file')
                if len(c['ops']) > 1 and not c['file']:
                    ctx.branch('repeated-simulate-no-file')
                if any(o.startswith('single') for o in c['ops']):
                    ctx.branch('single-variation')
                for kind, _ in obs['look']:
                    ctx.branch('lookup:' + kind)
                ctx.sample({'line': case_line(c)[:300], 'impl': impl[:300], 'model': m[:300]}, limit=5)
            seen = set()
            for call, cls, detail in viols:
                if (call, cls) not in seen:
                    seen.add((call, cls))
                    ctx.fail(call, cls, c, detail)
                    ctx.branch('oracle-fail:%s:%s' % (call, cls))
            if not viols:
                ctx.branch('oracle-ok')


def corpus_cases():
    """boundary scenarios that always run (independent of the seed)"""
    out = []
    base = dict(kind='sim', names=['b', 'a'], vals={'a': [1, 2], 'b': [5, 6, 7]}, repmax=3, file=False,
                keep=['always'], ops=['all'], outs=[1] * 40, look=[[('a', 2)], [('b', 6), ('a', 1)], [('b', 9)]])
    out.append(base)
    out.append(dict(base, outs=[1, 's', 's', 2, 3] + [1, 's'] * 30))
    out.append(dict(base, repmax=1, outs=[4] * 10))
    out.append(dict(base, keep=['sumlt:2', 'always'], outs=[1] * 40))
    out.append(dict(base, file=True, ops=['all', 'all']))
    out.append(dict(base, file=False, ops=['all', 'all']))
    out.append(dict(base, file=True, ops=['single:4', 'single:4', 'all'], outs=[2, 's', 1] * 20))
    out.append(dict(base, file=False, ops=['single:1']))
    out.append(dict(base, file=True, ops=['single:6', 'single:-1']))
    out.append(dict(base, names=[], vals={}, look=[], ops=['all', 'all']))
    out.append(dict(base, names=[], vals={}, look=[], file=True, ops=['single:0', 'all']))
    out.append(dict(base, names=['a'], vals={'a': []}, look=[]))
    out.append(dict(base, outs=[1, 2]))
    out.append(dict(base, keep=['skiplt:2'], file=True, ops=['all', 'all'], outs=[1, 's', 's', 1] * 20))
    d = os.path.join(core.VERIF, 'corpus', 'c05')
    if os.path.isdir(d):
        for fn in sorted(os.listdir(d)):
            if fn.endswith('.json'):
                with open(os.path.join(d, fn)) as f:
                    out.append(json.load(f)['case'])
    return out


def grid_cases(rng, count):
    out = []
    for _ in range(count):
        names, vals = gen_grid(rng)
        out.append(dict(kind='grid', names=names, vals=vals, look=gen_looks(rng, names, vals, rng.randint(1, 4))))
    return out


def exhaustive_cases(max_bits, repmaxes, shape_bits=None):
    """every outcome mask of length <= max_bits (padded with successes) on four grids and three stop
    rules; with `shape_bits`: additionally every grid shape with 0-3 parameters of lengths 1-3 and every
    mask of length <= shape_bits"""
    out = []

    def add(names, vals, repmax, keep, bits, file=False, ops=('all',)):
        for mask in range(1 << bits):
            outs = ['s' if (mask >> i) & 1 else 1 + (i % 3) for i in range(bits)]
            nvar = 1
            for nm in names:
                nvar *= len(vals[nm])
            outs += [2] * ((repmax + 1) * nvar * len(ops))
            out.append(dict(kind='sim', names=names, vals=vals, repmax=repmax, file=file, keep=keep,
                            ops=list(ops), outs=outs, look=[]))

    grids = [([], {}), (['a'], {'a': [1, 2]}), (['b', 'a'], {'a': [1, 2], 'b': [3, 4]}),
             (['a', 'c', 'b'], {'a': [1], 'b': [2, 3], 'c': [4, 5]})]
    for names, vals in grids:
        for repmax in repmaxes:
            for keep in (['always'], ['sumlt:3'], ['skiplt:1', 'always']):
                for bits in range(max_bits + 1):
                    add(names, vals, repmax, keep, bits)
    if shape_bits is not None:
        pool = ['b', 'a', 'C']
        for k in range(4):
            for lens in itertools.product((1, 2, 3), repeat=k):
                names = pool[:k]
                vals = {nm: list(range(10 * j, 10 * j + ln)) for j, (nm, ln) in enumerate(zip(names, lens))}
                for repmax in (1, 2, 3):
                    for keep in (['always'], ['sumlt:4']):
                        for bits in range(shape_bits + 1):
                            add(names, vals, repmax, keep, bits)
                # one resumed history per shape
                add(names, vals, 2, ['always'], 3, file=True, ops=('all', 'all'))
    return out


def check(ctx):
    ctx.rule = ('scenario = parameter grid (0-3 unpacked parameters, lengths 0-4, unsorted names, occasional '
                'duplicate values) x rep_max 1-8 x per-variation _keep_going rules (always / sum threshold / rep / '
                'skip counter / truth table of (sum mod m, rep mod n)) x global outcome stream (values and '
                'SkipThisOne, occasionally too short) x history of simulate() / simulate(index) calls on one runner '
                'with and without a results file x lookups by fixed values; plus histories on ONE runner / ONE parameters '
                'object interleaving simulate(), look-ups and mutations of the parameter set (value list replaced by one '
                'of another length, parameters added / removed, set_unpack_parameter on/off, rejected calls), every '
                'look-up also made on a freshly built object with the same content; non-trivial = distinct (sorted grid '
                'shape, set of stop reasons limit/rule, skips present, file, op kinds) with at least one completed '
                'variation')
    quick = ctx.tier == 'quick'
    core.prove(ctx, MODULE, drivers=[DRIVER], scratch=ctx.scratch)
    ctx.required_branches = ['stop:limit', 'stop:rule', 'skips', 'params=0', 'params=1', 'params=2', 'params=3',
                             'resume-from-partial-file', 'repeated-simulate-no-file', 'single-variation',
                             'lookup:ok', 'grid:pack-error', 'status:Exhausted', 'status:RuntimeError',
                             'hist:lookup-right-after-mutation', 'hist:mutate-simulate-lookup', 'hist:padd',
                             'hist:prem', 'hist:punp', 'hist:pscalar']
    cases = corpus_cases()
    rng = ctx.rng.fork('sim')
    cases += [gen_case(rng) for _ in range(1500 if quick else 15000)]
    cases += grid_cases(ctx.rng.fork('grid'), 4000 if quick else 60000)
    hrng = ctx.rng.fork('hist')
    cases += [gen_hist(hrng) for _ in range(600 if quick else 8000)]
    if quick:
        cases += exhaustive_cases(4, (1, 2))
    else:
        cases += exhaustive_cases(9, (1, 2, 3, 4), shape_bits=5)
        ctx.extra['exhaustive_small_scope'] = (
            'every outcome mask of length <= 9 x rep_max 1..4 x 3 stop rules x 4 grids; every grid shape with '
            '0-3 parameters of lengths 1-3 x rep_max 1..3 x 2 stop rules x every mask of length <= 5 '
            '(the seeded part of the run is not exhaustive)')
    try:
        run_cases(ctx, cases)
    except core.Infra as e:
        if not ctx.broken:
            raise
        ctx.notes.append('correspondence skipped: %s' % e)
        ctx.required_branches = []


def search(ctx):
    """deeper failing-input search on the implementation (oracles only; no model needed)"""
    rng = ctx.rng.fork('search')
    cases = corpus_cases() + [gen_case(rng) for _ in range(1500)] + grid_cases(rng, 3000) \
        + [gen_hist(rng) for _ in range(1500)] + exhaustive_cases(5, (1, 2))
    for c in cases:
        if c['kind'] == 'grid':
            _, obs = run_grid_impl(c)
            viols = oracle_grid(c, obs)
        elif c['kind'] == 'hist':
            _, obs = run_hist_impl(c, ctx.scratch)
            viols = oracle_hist(c, obs)
        else:
            _, obs = run_impl(c, ctx.scratch)
            viols = oracle_sim(c, obs)
        ctx.count(('search', len(ctx.distinct)), False)
        seen = set()
        for call, cls, detail in viols:
            if (call, cls) not in seen:
                seen.add((call, cls))
                ctx.fail(call, cls, c, detail)
