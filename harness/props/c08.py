"""C08 — multi-user channel matrix views stay coherent (DESIGN.md §5 C08).

Tie to source: hand model `lean/PyPhysim/Model/C08.lean` (cache state machine of
MultiUserChannelMatrix / MultiUserChannelMatrixExtInt) tied by EXACT
correspondence: seeded operation histories are run on the real classes and on
the compiled model (Gaussian rationals) and every output of every operation is
compared as exact rationals.  Exactness: Gaussian-integer channels / data /
filters, path losses that are squares of dyadic rationals, noise variances
with exact roots, and the random generator `randn_c_RS` replaced (from the
harness, no source hook) by a Gaussian-integer generator; the matrices it drew
and the noise read back from `last_noise` are handed to the model as the
operation's argument (the cache semantics are what is under test).

Independent oracle: a first-principles numpy "shadow" (raw matrix + the LAST
path-loss / filter arguments, plain slicing, per-link sums) checked against
every value the real object returns, on the exact stream and on a float stream
that uses the real random generator.

Developer knob (not used by any registered command): VERIF_C08_CFG=orig runs
the correspondence against the model of the design-round code (`Cfg.orig`,
the one the negative-witness theorems are about) with a generator restricted
to the histories that code has a defined behaviour for; on the unrepaired
source that correspondence is exact while the oracles report the defects.
"""
import contextlib
import json
import math
import os
from fractions import Fraction

import numpy as np

from harness import core

MODULE = 'PyPhysim.Properties.C08'
DRIVER = 'drv_c08'
CFG = os.environ.get('VERIF_C08_CFG', 'fixed')   # developer knob: 'orig' = model of the design-round code

CLAIM = {
    'technique': 'Lean 4 invariant proof over operation histories of a cache state machine + exact '
                 '(rational) correspondence of every operation output with the real classes',
    'text': 'For every finite history of randomize / init_from_channel_matrix / set_pathloss / noise_var / '
            'set_post_filter / reads / corrupt_data on the plain and the external-interference channel, the '
            'model of the (repaired) code keeps every lazily cached view equal to its recomputation from the raw '
            'matrix and the CURRENT path loss and filters (kernel-checked induction: no bound on history length, '
            'number of users, antenna layout; any scalar type, any sqrt/conj). Hence every read returns the '
            'current view; for well-shaped arguments get_Hkl / H[k,l] is exactly the (k,l) sub-block of big_H and '
            'equals the raw block times sqrt(current pathloss[k,l]), get_Hk is the k-th row block, the ExtInt-only '
            'views are the user columns; corrupt_data returns the split by Nr of W^H (big_H vstack(x) + noise) '
            'with last_noise = that noise. The model\'s dot / conjugate-transpose product / sum are proved equal to '
            'Mathlib\'s matrix operations, block_diag is proved block diagonal, and receiver k\'s rows of big_H vstack(x) '
            'are proved to be the sum over the transmitters l of the rows of get_Hkl(k,l) times x_l. The model is tied to the source '
            'by exact comparison of all outputs on seeded histories; negative witnesses of the three defects of '
            'the design-round code (now fixed) are proved on the model of that code.',
    'note': 'Trusted: Lean kernel, axioms {propext, Classical.choice, Quot.sound}; the hand model and its exact '
            'correspondence (generators stay inside the documented shapes: path loss K x K(+ K x extK), filters '
            'with Nr_k rows, data with Nt_k rows, >=1 interference source, antenna counts >= 1; numpy '
            'broadcasting / shape errors for ill-shaped arguments and the half-updated state they leave behind '
            'are not modelled); _from_small_matrix_to_big_matrix is modelled structurally (repeat each entry over '
            'its block), not as the loop over a ones matrix; sqrt / conj are uninterpreted in the theorems and '
            'exact in the driver; binary64 rounding outside. randn_c_RS is replaced by an integer generator in '
            'the exact stream (the float-stream oracles use the real one); the random matrices and the noise '
            'are parameters of the model. Views-agree theorems need the shape guard `Valid`; cache coherence and '
            'the transmission clause hold for every history; the per-link decomposition (received rows = sum over '
            'transmitters of block row times data) additionally needs the additive monoid laws and a rectangular '
            'channel matrix.',
}

PL_VALUES = [Fraction(1), Fraction(1, 4), Fraction(1, 16), Fraction(1, 64), Fraction(4), Fraction(9, 16),
             Fraction(1), Fraction(1, 4), Fraction(25, 4), Fraction(0)]
NV_VALUES = [None, Fraction(0), Fraction(1), Fraction(4), Fraction(1, 4), Fraction(9), Fraction(1, 16)]
READS_PLAIN = ['H', 'bigH', 'Hkl', 'Hk']
READS_EXT = ['H', 'bigH', 'Hkl', 'Hk', 'bigHne', 'Hkne', 'Hne']
VIEW_CALL = {'H': 'H', 'bigH': 'big_H', 'Hkl': 'get_Hkl', 'Hk': 'get_Hk', 'bigHne': 'big_H_no_ext_int',
             'Hkne': 'get_Hk_without_ext_int', 'Hne': 'H_no_ext_int', 'corrupt': 'corrupt_data'}
MUTATORS = ('init', 'rand', 'setpl', 'noise', 'setw')


def _impl():
    from pyphysim.channels import multiuser
    return multiuser


# ------------------------------------------------------------------ encoding
def fr(x):
    return Fraction(x)


def fr_tok(q):
    q = Fraction(q)
    return '%d/%d' % (q.numerator, q.denominator)


def c_tok(z):
    z = complex(z)
    return fr_tok(Fraction(z.real)) + ':' + fr_tok(Fraction(z.imag))


def mat_tok(m):
    m = np.asarray(m)
    if m.ndim != 2:
        return 'shape%s' % (m.shape,)
    if m.shape[0] == 0:
        return '_'
    return ';'.join('~' if m.shape[1] == 0 else ','.join(c_tok(z) for z in row) for row in m)


def mats_tok(ms):
    ms = list(ms)
    return '#' if not ms else '|'.join(mat_tok(m) for m in ms)


def mom_tok(h):
    h = np.asarray(h, dtype=object) if not isinstance(h, np.ndarray) else h
    if h.ndim != 2:
        return 'momshape%s' % (h.shape,)
    if h.shape[0] == 0:
        return '#'
    return '&'.join(mats_tok(h[i, j] for j in range(h.shape[1])) for i in range(h.shape[0]))


def nats_tok(ns):
    ns = list(ns)
    return '_' if not ns else ','.join(str(int(n)) for n in ns)


def jmat(m):
    """JSON form of an exact complex matrix: rows of [re, im] as fraction strings"""
    return [[[str(Fraction(complex(z).real)), str(Fraction(complex(z).imag))] for z in row] for row in np.asarray(m)]


def unj(m, ncols=None):
    rows = [[complex(float(Fraction(a)), float(Fraction(b))) for a, b in row] for row in m]
    if not rows:
        return np.zeros((0, ncols or 0), dtype=complex)
    return np.array(rows, dtype=complex)


def jreal(m):
    return [[str(Fraction(x)) for x in row] for row in m]


def unjreal(m):
    return np.array([[float(Fraction(x)) for x in row] for row in m], dtype=float)


def objarr(ms):
    a = np.empty(len(ms), dtype=object)
    for i, m in enumerate(ms):
        a[i] = m
    return a


# ------------------------------------------------------------------ generator
def gint(rng, r, c, lo=-3, hi=3):
    return [[[str(rng.randint(lo, hi)), str(rng.randint(lo, hi))] for _ in range(c)] for _ in range(r)]


def gfloat(rng, r, c):
    return [[[repr(rng.gauss()), repr(rng.gauss())] for _ in range(c)] for _ in range(r)]


class Gen:
    """Seeded generator of well-shaped histories (tracks the layout so that every
    argument has the documented shape)."""

    def __init__(self, rng, ext, exact=True, cfg=CFG, kmax=4, amax=3, malformed=True):
        self.rng, self.ext, self.exact, self.cfg = rng, ext, exact, cfg
        self.kmax, self.amax, self.malformed = kmax, amax, malformed
        self.K = 0
        self.nr, self.nt, self.ntE = [], [], []
        self.pl_set = False
        self.w_ok = True       # the stored filter (or None) fits the layout
        self.w_none = True
        self.ops = []

    def rmat(self, r, c):
        return gint(self.rng, r, c) if self.exact else gfloat(self.rng, r, c)

    def layout(self):
        rng = self.rng
        keepK = self.K > 0 and rng.chance(0.6)
        K = self.K if keepK else rng.randint(1, self.kmax)
        if rng.chance(0.25):
            a = rng.randint(1, self.amax)
            nr = [a] * K
            b = rng.randint(1, self.amax)
            nt = [b] * K
        else:
            nr = [rng.randint(1, self.amax) for _ in range(K)]
            nt = [rng.randint(1, self.amax) for _ in range(K)]
        ntE = [rng.randint(1, 2) for _ in range(rng.randint(1, 2))] if self.ext else []
        if self.cfg == 'orig' and self.pl_set and self.K > 0:
            # the design-round code has no defined behaviour when the shape changes under a path loss:
            # keep the number of users and the total sizes (the stale expansion is then observable)
            K = self.K
            ntE = list(self.ntE)
            nr = self._same_sum(self.nr)
            nt = self._same_sum(self.nt)
        return K, nr, nt, ntE

    def _same_sum(self, ns):
        ns = list(ns)
        for _ in range(3):
            i, j = self.rng.below(len(ns)), self.rng.below(len(ns))
            if i != j and ns[i] > 1:
                ns[i] -= 1
                ns[j] += 1
        return ns

    def op_init(self, kind=None):
        rng = self.rng
        K, nr, nt, ntE = self.layout()
        kind = kind or ('init' if rng.chance(0.6) else 'rand')
        uniform = len(set(nr)) == 1 and len(set(nt)) == 1
        op = {'op': kind, 'nr': nr, 'nt': nt, 'K': K, 'ntE': ntE,
              'ints': bool(uniform and rng.chance(0.5) and (kind == 'rand' or not self.ext)),
              'nte_int': bool(self.ext and len(ntE) == 1 and rng.chance(0.5))}
        if kind == 'init':
            op['M'] = self.rmat(sum(nr), sum(nt) + sum(ntE))
        else:
            op['seed'] = rng.below(1 << 31)
        self.ops.append(op)
        if (nr, nt, K, ntE) != (self.nr, self.nt, self.K, self.ntE):
            if (K, len(ntE)) != (self.K, len(self.ntE)):
                self.pl_set = False
            self.w_ok = self.w_none
        self.K, self.nr, self.nt, self.ntE = K, nr, nt, ntE

    def op_bad_init(self):
        """shape mismatch: rejected with ValueError before anything is stored"""
        K, nr, nt, ntE = self.K, self.nr, self.nt, self.ntE
        M = self.rmat(sum(nr) + 1, sum(nt) + sum(ntE))
        self.ops.append({'op': 'init', 'nr': nr, 'nt': nt, 'K': K, 'ntE': ntE, 'M': M, 'ints': False,
                         'nte_int': False, 'expect': 'ValueError'})

    def op_setpl(self):
        rng = self.rng
        if rng.chance(0.2):
            self.ops.append({'op': 'setpl', 'p': None, 'pe': None, 'noarg': rng.chance(0.5)})
            self.pl_set = False
            return
        K, E = self.K, len(self.ntE)
        if self.exact:
            p = [[str(rng.choice(PL_VALUES)) for _ in range(K)] for _ in range(K)]
            pe = [[str(rng.choice(PL_VALUES)) for _ in range(E)] for _ in range(K)]
        else:
            p = [[repr(rng.uniform(0.01, 2.0)) for _ in range(K)] for _ in range(K)]
            pe = [[repr(rng.uniform(0.01, 2.0)) for _ in range(E)] for _ in range(K)]
        self.ops.append({'op': 'setpl', 'p': p, 'pe': pe if self.ext else None})
        self.pl_set = True

    def op_noise(self):
        rng = self.rng
        if self.malformed and rng.chance(0.08):
            self.ops.append({'op': 'noise', 'v': '-1', 'expect': 'AssertionError'})
            return
        v = rng.choice(NV_VALUES) if self.exact else rng.choice([None, 0.0, 0.5, 1.0, 2.5])
        self.ops.append({'op': 'noise', 'v': None if v is None else (str(v) if self.exact else repr(v))})

    def op_setw(self):
        rng = self.rng
        if rng.chance(0.25):
            self.ops.append({'op': 'setw', 'w': None})
            self.w_none = True
        else:
            w = [self.rmat(n, rng.randint(1, n)) for n in self.nr]
            self.ops.append({'op': 'setw', 'w': w, 'as_list': rng.chance(0.5)})
            self.w_none = False
        self.w_ok = True

    def op_read(self, view=None):
        rng = self.rng
        view = view or rng.choice(READS_EXT if self.ext else READS_PLAIN)
        op = {'op': view}
        Kt = self.K + len(self.ntE)
        if view == 'Hkl':
            if self.malformed and rng.chance(0.04):
                op.update(k=self.K, l=0, expect='IndexError')
            else:
                op.update(k=rng.below(self.K), l=rng.below(Kt))
        elif view in ('Hk', 'Hkne'):
            if self.malformed and rng.chance(0.04):
                op.update(k=self.K, expect='IndexError')
            else:
                op.update(k=rng.below(self.K))
        self.ops.append(op)

    def op_corrupt(self):
        rng = self.rng
        if not self.w_ok:
            self.op_setw()
        ns = rng.randint(1, 3)
        x = [self.rmat(n, ns) for n in self.nt]
        xe = [self.rmat(n, ns) for n in self.ntE]
        self.ops.append({'op': 'corrupt', 'x': x, 'xe': xe, 'nseed': rng.below(1 << 31)})

    def history(self, length):
        rng = self.rng
        self.op_init()
        while len(self.ops) < length:
            u = rng.uniform()
            if u < 0.13:
                self.op_init()
            elif u < 0.15 and self.malformed:
                self.op_bad_init()
                if self.ext:     # the ExtInt override stores _extIntK before the check: re-establish the layout
                    self.op_init()
            elif u < 0.35:
                self.op_setpl()
            elif u < 0.42:
                self.op_noise()
            elif u < 0.49:
                self.op_setw()
            elif u < 0.62:
                self.op_corrupt()
            else:
                for _ in range(rng.randint(1, 3)):
                    self.op_read()
        return self.ops


# ------------------------------------------------------------------ running the real code
class FakeRandn:
    """stand-in for util.misc.randn_c_RS: Gaussian integers from the object's own RandomState"""

    def __call__(self, RS, *shape):
        shape = tuple(int(s) for s in shape)
        return (RS.randint(-3, 4, shape) + 1j * RS.randint(-3, 4, shape)).astype(complex)


@contextlib.contextmanager
def patched_randn(active):
    mu = _impl()
    old = mu.randn_c_RS
    if active:
        mu.randn_c_RS = FakeRandn()
    try:
        yield
    finally:
        mu.randn_c_RS = old


def run_impl(case):
    """Execute a history on the real class.  Returns one record per op:
    {'out': value | None, 'exc': name | None, 'raw': matrix after init/rand, 'noise': last_noise after corrupt}"""
    mu = _impl()
    exact = case.get('stream', 'exact') == 'exact'
    ext = case['cls'] == 'ext'
    recs = []
    with patched_randn(exact):
        ch = mu.MultiUserChannelMatrixExtInt() if ext else mu.MultiUserChannelMatrix()
        for op in case['ops']:
            rec = {'out': None, 'exc': None}
            kind = op['op']
            try:
                if kind in ('init', 'rand'):
                    nr, nt, K, ntE = op['nr'], op['nt'], op['K'], op['ntE']
                    Nr = int(nr[0]) if op.get('ints') else np.array(nr, dtype=int)
                    Nt = int(nt[0]) if op.get('ints') else np.array(nt, dtype=int)
                    NtE = int(ntE[0]) if op.get('nte_int') else np.array(ntE, dtype=int)
                    if kind == 'init':
                        M = unj(op['M'], sum(nt) + sum(ntE))
                        if ext:
                            ch.init_from_channel_matrix(M, Nr, Nt, K, NtE)
                        else:
                            ch.init_from_channel_matrix(M, Nr, Nt, K)
                    else:
                        ch.set_channel_seed(op['seed'])
                        if ext:
                            ch.randomize(Nr, Nt, K, NtE)
                        else:
                            ch.randomize(Nr, Nt, K)
                    rec['raw'] = np.array(ch._big_H_no_pathloss)
                elif kind == 'setpl':
                    if op['p'] is None:
                        ch.set_pathloss(None) if not op.get('noarg') else ch.set_pathloss()
                    elif ext:
                        ch.set_pathloss(unjreal(op['p']), unjreal(op['pe']).reshape(len(op['p']), -1))
                    else:
                        ch.set_pathloss(unjreal(op['p']))
                elif kind == 'noise':
                    ch.noise_var = None if op['v'] is None else float(Fraction(op['v']))
                elif kind == 'setw':
                    if op['w'] is None:
                        ch.set_post_filter(None)
                    else:
                        ws = [unj(w) for w in op['w']]
                        ch.set_post_filter(ws if op.get('as_list') else objarr(ws))
                elif kind == 'H':
                    rec['out'] = ch.H
                elif kind == 'bigH':
                    rec['out'] = ch.big_H
                elif kind == 'Hkl':
                    rec['out'] = ch.get_Hkl(op['k'], op['l'])
                elif kind == 'Hk':
                    rec['out'] = ch.get_Hk(op['k'])
                elif kind == 'bigHne':
                    rec['out'] = ch.big_H_no_ext_int
                elif kind == 'Hkne':
                    rec['out'] = ch.get_Hk_without_ext_int(op['k'])
                elif kind == 'Hne':
                    rec['out'] = ch.H_no_ext_int
                elif kind == 'corrupt':
                    ch.set_noise_seed(op['nseed'])
                    x = objarr([unj(m) for m in op['x']])
                    if ext:
                        rec['out'] = ch.corrupt_data(x, objarr([unj(m) for m in op['xe']]))
                    else:
                        rec['out'] = ch.corrupt_data(x)
                else:
                    raise core.Infra('unknown op %r' % kind)
            except core.Infra:
                raise
            except Exception as e:   # noqa: an exception is an observable result of the op
                rec['exc'] = type(e).__name__
                rec['msg'] = str(e)[:160]
            if kind == 'corrupt':
                ln = ch.last_noise
                rec['noise'] = None if ln is None else np.array(ln)
            if rec['out'] is not None:
                # detach from the object's memory: later ops must not change what was returned now
                o = rec['out']
                if isinstance(o, np.ndarray) and o.dtype == object:
                    c = np.empty(o.shape, dtype=object)
                    for idx in np.ndindex(o.shape):
                        c[idx] = np.array(o[idx])
                    rec['out'] = c
                else:
                    rec['out'] = np.array(o)
            recs.append(rec)
    return recs


def impl_token(op, rec):
    if rec['exc']:
        return 'err:' + rec['exc']
    kind = op['op']
    if kind in MUTATORS:
        return 'unit'
    o = rec['out']
    if kind in ('H', 'Hne'):
        return 'mom=' + mom_tok(o)
    if kind == 'corrupt':
        return 'rx=' + mats_tok(list(o)) + '@' + ('none' if rec['noise'] is None else mat_tok(rec['noise']))
    return 'mat=' + mat_tok(o)


def model_line(case, recs):
    toks = ['run', 'cls=' + case['cls'], 'cfg=' + case.get('cfg', CFG)]
    for op, rec in zip(case['ops'], recs):
        kind = op['op']
        if kind in ('init', 'rand'):
            if kind == 'init':
                M = mat_tok(unj(op['M'], sum(op['nt']) + sum(op['ntE'])))
            else:
                M = mat_tok(rec['raw']) if rec.get('raw') is not None else '_'
            toks.append('!'.join([kind, M, nats_tok(op['nr']), nats_tok(op['nt']), str(op['K']), nats_tok(op['ntE'])]))
        elif kind == 'setpl':
            if op['p'] is None:
                toks.append('setpl!none!_')
            else:
                p = ';'.join(','.join(fr_tok(Fraction(x)) for x in row) for row in op['p'])
                pe = '_'
                if op.get('pe') is not None:
                    pe = ';'.join('~' if not row else ','.join(fr_tok(Fraction(x)) for x in row) for row in op['pe'])
                toks.append('setpl!%s!%s' % (p, pe))
        elif kind == 'noise':
            toks.append('noise!' + ('none' if op['v'] is None else fr_tok(Fraction(op['v']))))
        elif kind == 'setw':
            toks.append('setw!' + ('none' if op['w'] is None else mats_tok(unj(w) for w in op['w'])))
        elif kind == 'Hkl':
            toks.append('Hkl!%d!%d' % (op['k'], op['l']))
        elif kind in ('Hk', 'Hkne'):
            toks.append('%s!%d' % (kind, op['k']))
        elif kind == 'corrupt':
            n = rec.get('noise')
            toks.append('corrupt!%s!%s!%s' % (mats_tok(unj(m) for m in op['x']), mats_tok(unj(m) for m in op['xe']),
                                              'none' if n is None else mat_tok(n)))
        else:
            toks.append(kind)
    return ' '.join(toks)


# ------------------------------------------------------------------ first-principles oracle
class Shadow:
    """What the property promises, computed from the raw matrix and the LAST arguments only."""

    def __init__(self, ext):
        self.ext = ext
        self.raw = None
        self.nr, self.nt, self.ntE, self.K = [], [], [], 0
        self.pl = None
        self.W = None
        self.nv = None

    @property
    def ntf(self):
        return list(self.nt) + list(self.ntE)

    def relayout(self, raw, nr, nt, K, ntE):
        self.raw, self.nr, self.nt, self.K, self.ntE = raw, list(nr), list(nt), K, list(ntE)
        if self.pl is not None and self.pl.shape != (K, K + len(ntE)):
            self.pl = None      # a path loss given for another number of links cannot apply

    def gain(self, k, l):
        return 1.0 if self.pl is None else math.sqrt(self.pl[k, l])

    def Hkl(self, k, l):
        r0, c0 = sum(self.nr[:k]), sum(self.ntf[:l])
        return self.raw[r0:r0 + self.nr[k], c0:c0 + self.ntf[l]] * self.gain(k, l)

    def Hk(self, k, ncols_users_only=False):
        L = self.K if ncols_users_only else len(self.ntf)
        return np.concatenate([self.Hkl(k, l) for l in range(L)], axis=1)

    def bigH(self, users_only=False):
        return np.concatenate([self.Hk(k, users_only) for k in range(self.K)], axis=0)

    def received(self, xs, noise):
        """per receiver: sum over links of gain * H_kl x_l, plus its rows of the noise; then the filters"""
        ys = []
        for k in range(self.K):
            acc = None
            for l in range(len(self.ntf)):
                t = self.Hkl(k, l) @ xs[l]
                acc = t if acc is None else acc + t
            if noise is not None:
                r0 = sum(self.nr[:k])
                acc = acc + noise[r0:r0 + self.nr[k], :]
            ys.append(acc)
        if self.W is not None:
            stacked = np.concatenate(ys, axis=0)
            outs, r0 = [], 0
            for k, w in enumerate(self.W):
                outs.append(w.conj().T @ stacked[r0:r0 + w.shape[0], :])
                r0 += w.shape[0]
            filt = np.concatenate(outs, axis=0)
            ys, r0 = [], 0
            for k in range(self.K):      # "split per receiver by its antenna count"
                ys.append(filt[r0:r0 + self.nr[k], :])
                r0 += self.nr[k]
        return ys


def same(a, b, exact):
    a, b = np.asarray(a), np.asarray(b)
    if a.shape != b.shape:
        return False
    if exact:
        return bool(np.array_equal(a, b))
    return bool(np.allclose(a, b, rtol=1e-9, atol=1e-12))


def oracle_history(case):
    """Returns the list of violations [(index, call, class, detail)] of the property on the real code."""
    exact = case.get('stream', 'exact') == 'exact'
    ext = case['cls'] == 'ext'
    recs = run_impl(case)
    sh = Shadow(ext)
    out = []
    trig_h = 'new'        # latest change of the channel / path loss before a read: 'relayout' | 'setpl'
    trig_c = 'new'        # same, also counting set_post_filter (for corrupt_data)
    read_since = {}       # view -> it was read since the last mutation of the channel/path loss
    cached = set()        # views read at some point before the last mutation
    for i, (op, rec) in enumerate(zip(case['ops'], recs)):
        kind = op['op']
        call = {'init': 'init_from_channel_matrix', 'rand': 'randomize', 'setpl': 'set_pathloss',
                'noise': 'noise_var', 'setw': 'set_post_filter'}.get(kind) or VIEW_CALL[kind]
        cls_tag = ('ext' if ext else 'plain')
        exp_exc = op.get('expect')
        if rec['exc'] != exp_exc:
            if rec['exc']:
                out.append((i, call, 'exception:%s:%s:%s' % (rec['exc'], cls_tag,
                                                             'pathloss' if sh.pl is not None else 'no-pathloss'),
                            rec.get('msg', '')))
            else:
                out.append((i, call, 'no-exception:%s:%s' % (exp_exc, cls_tag), 'expected ' + exp_exc))
            continue
        if exp_exc:
            continue
        if kind in ('init', 'rand'):
            raw = rec['raw']
            want = (sum(op['nr']), sum(op['nt']) + sum(op['ntE']))
            if raw.shape != want:
                out.append((i, call, 'raw-shape:%s' % cls_tag, 'raw %s expected %s' % (raw.shape, want)))
            if kind == 'init' and not same(raw, unj(op['M'], want[1]), True):
                out.append((i, call, 'raw-differs:%s' % cls_tag, 'stored matrix is not the argument'))
            sh.relayout(raw, op['nr'], op['nt'], op['K'], op['ntE'])
        elif kind == 'setpl':
            if op['p'] is None:
                sh.pl = None
            else:
                p = unjreal(op['p'])
                sh.pl = np.hstack([p, unjreal(op['pe']).reshape(len(op['p']), -1)]) if ext else p
        elif kind == 'noise':
            sh.nv = None if op['v'] is None else float(Fraction(op['v']))
        elif kind == 'setw':
            sh.W = None if op['w'] is None else [unj(w) for w in op['w']]
        if kind in MUTATORS:
            if kind in ('init', 'rand', 'setpl'):
                trig_h = trig_c = 'relayout' if kind in ('init', 'rand') else 'setpl'
                cached |= {v for v, r in read_since.items() if r}
                read_since = {}
            elif kind == 'setw':
                trig_c = 'setw'
            continue
        # ---- reads
        got = rec['out']
        bad = None
        K, Kt = sh.K, len(sh.ntf)
        if kind == 'H' or kind == 'Hne':
            cols = Kt if kind == 'H' else K
            if not (isinstance(got, np.ndarray) and got.shape == (K, cols)):
                bad = 'shape %s expected %s' % (getattr(got, 'shape', None), (K, cols))
            else:
                for k in range(K):
                    for l in range(cols):
                        if bad is None and not same(got[k, l], sh.Hkl(k, l), exact):
                            bad = 'block (%d,%d) differs from raw block * sqrt(current path loss)' % (k, l)
        elif kind == 'bigH':
            bad = None if same(got, sh.bigH(), exact) else 'differs from raw * sqrt(current path loss)'
        elif kind == 'Hkl':
            bad = None if same(got, sh.Hkl(op['k'], op['l']), exact) else 'differs from the scaled raw block'
        elif kind == 'Hk':
            bad = None if same(got, sh.Hk(op['k']), exact) else 'differs from the scaled raw row block'
        elif kind == 'bigHne':
            bad = None if same(got, sh.bigH(True), exact) else 'differs from the user columns of the scaled raw matrix'
        elif kind == 'Hkne':
            bad = None if same(got, sh.Hk(op['k'], True), exact) else 'differs from the user columns of the row block'
        elif kind == 'corrupt':
            noise = rec['noise']
            xs = [unj(m) for m in op['x']] + [unj(m) for m in op['xe']]
            ns = xs[0].shape[1]
            if (noise is None) != (sh.nv is None):
                out.append((i, 'last_noise', 'presence:%s' % cls_tag,
                            'last_noise is %s but noise_var is %s' % ('None' if noise is None else 'set', sh.nv)))
            elif noise is not None and noise.shape != (sum(sh.nr), ns):
                out.append((i, 'last_noise', 'shape:%s' % cls_tag, 'last_noise shape %s' % (noise.shape,)))
            else:
                want = sh.received(xs, noise)
                if len(got) != K:
                    bad = '%d outputs for %d receivers' % (len(got), K)
                else:
                    for k in range(K):
                        if bad is None and not same(got[k], want[k], exact):
                            bad = 'receiver %d differs from W^H(sum_l sqrt(pl) H_kl x_l + last_noise)' % k
        if bad is not None:
            how = 'cached' if (kind in cached or (kind in ('Hk', 'bigHne', 'Hkne', 'corrupt') and 'bigH' in cached)
                               or (kind in ('Hkl', 'Hne') and 'H' in cached)) else 'first-read'
            out.append((i, call, 'wrong:%s:after-%s' % (cls_tag, trig_c if kind == 'corrupt' else trig_h),
                        bad + ' (%s)' % ('the view had been read before the last change' if how == 'cached' else 'first read of the view')))
        read_since[kind] = True
        if kind in ('Hk', 'bigHne', 'Hkne', 'corrupt'):
            read_since['bigH'] = True
        if kind in ('Hkl', 'Hne'):
            read_since['H'] = True
    return out


def _oracle_for(call):
    def f(case):
        for (i, c, cls, detail) in oracle_history(case):
            if c == call:
                return cls, 'op %d (%s): %s' % (i, case['ops'][i]['op'], detail)
        return None
    return f


ORACLES = {c: _oracle_for(c) for c in
           ['H', 'big_H', 'get_Hkl', 'get_Hk', 'big_H_no_ext_int', 'get_Hk_without_ext_int', 'H_no_ext_int',
            'corrupt_data', 'last_noise', 'init_from_channel_matrix', 'randomize', 'set_pathloss', 'noise_var',
            'set_post_filter']}


def replay(ctx, rep):
    return ORACLES[rep['call']](rep['case']) is not None


def well_shaped(case):
    """the arguments of every operation have the documented shapes for the layout at that point
    (the python twin of `OpOK`, plus data / filter shapes and index ranges)"""
    ext = case['cls'] == 'ext'
    ops = case['ops']
    if not ops or ops[0]['op'] not in ('init', 'rand') or ops[0].get('expect'):
        return False
    K, nr, nt, ntE, w_rows = 0, [], [], [], None
    for j, op in enumerate(ops):
        k = op['op']
        if k in ('init', 'rand'):
            if op.get('expect'):
                # the ExtInt override stores _extIntK before the check: the layout must be re-established at once
                if ext and not (j + 1 < len(ops) and ops[j + 1]['op'] in ('init', 'rand')
                                and not ops[j + 1].get('expect')):
                    return False
                continue
            if len(op['nr']) != op['K'] or len(op['nt']) != op['K'] or (ext and not op['ntE']) \
                    or (not ext and op['ntE']) or min(op['nr'] + op['nt'] + op['ntE'] + [1]) < 1 or op['K'] < 1:
                return False
            if k == 'init' and (len(op['M']) != sum(op['nr']) or
                                any(len(r) != sum(op['nt']) + sum(op['ntE']) for r in op['M'])):
                return False
            K, nr, nt, ntE = op['K'], op['nr'], op['nt'], op['ntE']
        elif k == 'setpl' and op['p'] is not None:
            if len(op['p']) != K or any(len(r) != K for r in op['p']):
                return False
            if ext and (len(op['pe']) != K or any(len(r) != len(ntE) for r in op['pe'])):
                return False
        elif k == 'setw':
            w_rows = None if op['w'] is None else [len(w) for w in op['w']]
        elif k == 'corrupt':
            if w_rows is not None and w_rows != list(nr):
                return False
            if [len(m) for m in op['x']] != list(nt) or [len(m) for m in op['xe']] != list(ntE):
                return False
        elif k == 'Hkl' and not op.get('expect') and not (op['k'] < K and op['l'] < K + len(ntE)):
            return False
        elif k in ('Hk', 'Hkne') and not op.get('expect') and not op['k'] < K:
            return False
        elif k in ('Hkl', 'Hk', 'Hkne') and op.get('expect') and op['k'] < K:
            return False
    return True


def minimise(case, call, cls):
    """greedy shrinking that keeps the history well-shaped and the same (call, class) violation"""
    def fails(ops):
        c = dict(case, ops=ops)
        if not well_shaped(c):
            return False
        try:
            return any(v[1] == call and v[2] == cls for v in oracle_history(c))
        except core.Infra:
            raise
        except Exception:
            return False
    ops = list(case['ops'])
    for i, c_, cl, _ in oracle_history(case):
        if c_ == call and cl == cls:
            ops = ops[:i + 1]
            break
    changed = True
    while changed and len(ops) > 1:
        changed = False
        for j in range(len(ops) - 2, -1, -1):
            trial = ops[:j] + ops[j + 1:]
            if fails(trial):
                ops = trial
                changed = True
    return dict(case, ops=ops)


def run_oracle(ctx, case, key):
    if not well_shaped(case):
        raise core.Infra('generator produced an ill-shaped history: %s' % json.dumps(case)[:400])
    viol = oracle_history(case)
    ctx.count(('oracle', key), True, n=len(case['ops']))
    seen = set()
    for (i, call, cls, detail) in viol:
        if (call, cls) in seen:
            continue
        seen.add((call, cls))
        small = minimise(case, call, cls)
        ctx.fail(call, cls, small, detail)
        ctx.branch('oracle-fail:' + call)
    if not viol:
        ctx.branch('oracle-ok:' + case['cls'] + ':' + case.get('stream', 'exact'))
    return viol


# ------------------------------------------------------------------ correspondence
def nontrivial_flags(ops):
    """an op is non-trivial when it reads a view that was already read before the latest mutation
    (read -> mutate -> read on the same view), or sends data through the channel"""
    seen, stale = set(), set()
    flags = []
    for op in ops:
        k = op['op']
        if k in MUTATORS:
            stale |= seen
            flags.append(False)
        elif k == 'corrupt':
            flags.append(True)
            seen.add('bigH')
        else:
            base = {'Hkl': 'H', 'Hk': 'bigH', 'bigHne': 'bigH', 'Hkne': 'bigH', 'Hne': 'H'}.get(k, k)
            flags.append(base in stale)
            stale.discard(base)
            seen.add(base)
    return flags


def correspond(ctx, cases, tag):
    drv = core.Driver(DRIVER)
    batch = []
    for case in cases:
        if not well_shaped(case):
            raise core.Infra('generator produced an ill-shaped history: %s' % json.dumps(case)[:400])
        recs = run_impl(case)
        batch.append((case, recs, model_line(case, recs)))
    replies = []
    for i in range(0, len(batch), 500):
        replies += drv.ask([b[2] for b in batch[i:i + 500]])
    for hid, ((case, recs, line), reply) in enumerate(zip(batch, replies)):
        mtoks = reply.split(' ')
        ops = case['ops']
        if len(mtoks) != len(ops):
            ctx.tie_broken('correspondence', 'driver-reply', 'reply %r for %d ops' % (reply[:200], len(ops)), case)
            continue
        flags = nontrivial_flags(ops)
        rmr = False
        for j, (op, rec, mt) in enumerate(zip(ops, recs, mtoks)):
            it = impl_token(op, rec)
            name = '%s:%s' % (case['cls'], op['op'])
            ok = ctx.corr(name, {'history': tag, 'id': hid, 'op': j} if it == mt else dict(case, at=j),
                          it, mt, nontrivial=flags[j], key=(tag, hid, j))
            ctx.branch('op:' + name)
            if rec['exc']:
                ctx.branch('err:' + rec['exc'])
            if flags[j] and op['op'] != 'corrupt':
                rmr = True
            if not ok:
                break
        if rmr:
            ctx.branch('read-mutate-read:' + case['cls'])
        if any(op['op'] in ('init', 'rand') for op in ops[1:]):
            ctx.branch('relayout:' + case['cls'])
        if hid < 2 and tag == 'seeded':
            ctx.sample({'cls': case['cls'], 'ops': [o['op'] for o in ops], 'model_reply': reply[:300]})


# ------------------------------------------------------------------ corpus (always run first)
def _m(rows):
    return [[[str(int(z.real)), str(int(z.imag))] for z in row] for row in rows]


def builtin_corpus():
    A = _m([[1 + 1j, 2, -1j, 3, 1], [2j, -2, 1, 1 - 1j, 2], [3, 1j, 1, -1, -2j]])
    B = _m([[1, 2j, 3, -1], [1 + 1j, 0, 2, 1], [-1, 1, 1j, 2], [2, 2, -3, 1j]])
    B2 = _m([[2, 1j, 1, -1], [1 - 1j, 3, 2, 1], [-2, 1, 2j, 2], [1, -2, -3, 1j]])
    cases = []
    # (4) ExtInt: second set_pathloss after big_H was read
    cases.append({'cls': 'ext', 'stream': 'exact', 'name': 'ext-second-setpl', 'ops': [
        {'op': 'init', 'M': A, 'nr': [1, 2], 'nt': [2, 1], 'K': 2, 'ntE': [2], 'ints': False, 'nte_int': False},
        {'op': 'setpl', 'p': [['1', '1/4'], ['1/4', '1']], 'pe': [['1/16'], ['1/64']]},
        {'op': 'bigH'},
        {'op': 'setpl', 'p': [['1/4', '1'], ['1', '1/4']], 'pe': [['1'], ['1']]},
        {'op': 'bigH'}, {'op': 'H'}, {'op': 'Hk', 'k': 1}, {'op': 'bigHne'},
        {'op': 'corrupt', 'x': [_m([[1, 2], [1j, 0]]), _m([[2, -1]])], 'xe': [_m([[1, 1], [0, 1j]])], 'nseed': 5}]})
    # (5) base class: new antenna layout (same totals, then other totals) under a stored path loss
    cases.append({'cls': 'plain', 'stream': 'exact', 'name': 'plain-relayout-same-shape', 'ops': [
        {'op': 'init', 'M': B, 'nr': [2, 2], 'nt': [2, 2], 'K': 2, 'ntE': [], 'ints': False, 'nte_int': False},
        {'op': 'setpl', 'p': [['1', '1/4'], ['1/16', '1/64']], 'pe': None},
        {'op': 'bigH'},
        {'op': 'init', 'M': B2, 'nr': [1, 3], 'nt': [3, 1], 'K': 2, 'ntE': [], 'ints': False, 'nte_int': False},
        {'op': 'bigH'}, {'op': 'H'}, {'op': 'Hk', 'k': 0}, {'op': 'Hkl', 'k': 0, 'l': 1}]})
    cases.append({'cls': 'plain', 'stream': 'exact', 'name': 'plain-relayout-other-shape', 'ops': [
        {'op': 'init', 'M': B, 'nr': [2, 2], 'nt': [2, 2], 'K': 2, 'ntE': [], 'ints': False, 'nte_int': False},
        {'op': 'setpl', 'p': [['1', '1/4'], ['1/16', '1/64']], 'pe': None},
        {'op': 'rand', 'nr': [1, 2], 'nt': [3, 1], 'K': 2, 'ntE': [], 'seed': 7, 'ints': False, 'nte_int': False},
        {'op': 'bigH'}, {'op': 'H'}]})
    # (6) ExtInt: H_no_ext_int under a path loss
    cases.append({'cls': 'ext', 'stream': 'exact', 'name': 'ext-hnoext-pathloss', 'ops': [
        {'op': 'init', 'M': A, 'nr': [1, 2], 'nt': [2, 1], 'K': 2, 'ntE': [2], 'ints': False, 'nte_int': False},
        {'op': 'Hne'},
        {'op': 'setpl', 'p': [['1', '1/4'], ['1/4', '1']], 'pe': [['1/16'], ['1/64']]},
        {'op': 'Hne'}]})
    return cases


def corpus_cases():
    cases = builtin_corpus()
    d = os.path.join(core.VERIF, 'corpus', 'c08')
    if os.path.isdir(d):
        for fn in sorted(os.listdir(d)):
            if fn.endswith('.json'):
                with open(os.path.join(d, fn)) as f:
                    c = json.load(f)
                cases.append(c.get('case', c))
    if CFG == 'orig':
        cases = [c for c in cases if c.get('name') != 'plain-relayout-other-shape']
    return cases


# ------------------------------------------------------------------ small-scope enumeration (thorough)
def enum_alphabet(ext):
    A = _m([[1 + 1j, 2, -1j, 3, 1], [2j, -2, 1, 1 - 1j, 2], [3, 1j, 1, -1, -2j]])
    A2 = _m([[2, 1, 1j, -3, 1], [1j, 2, -1, 1 + 1j, 0], [1, 1j, -1, 2, 2j]])
    if ext:
        i1 = {'op': 'init', 'M': A, 'nr': [1, 2], 'nt': [2, 1], 'K': 2, 'ntE': [1, 1], 'ints': False,
              'nte_int': False}
        i2 = {'op': 'init', 'M': A2, 'nr': [2, 1], 'nt': [1, 2], 'K': 2, 'ntE': [1, 1], 'ints': False,
              'nte_int': False}
        p1 = {'op': 'setpl', 'p': [['1', '1/4'], ['1/16', '4']], 'pe': [['1/64', '1/4'], ['1', '1/16']]}
        p2 = {'op': 'setpl', 'p': [['1/4', '1'], ['1', '1/4']], 'pe': [['1', '1'], ['1/4', '4']]}
        x = [_m([[1, 2]]), _m([[1j, 1]]), _m([[2, -1]])]
        cor = None   # data depends on the layout: built per history
        reads = [{'op': 'bigH'}, {'op': 'H'}, {'op': 'Hk', 'k': 1}, {'op': 'Hne'}, {'op': 'bigHne'}]
    else:
        A = [row[:3] for row in A]
        A2 = [row[:3] for row in A2]
        i1 = {'op': 'init', 'M': A, 'nr': [1, 2], 'nt': [2, 1], 'K': 2, 'ntE': [], 'ints': False, 'nte_int': False}
        i2 = {'op': 'init', 'M': A2, 'nr': [2, 1], 'nt': [1, 2], 'K': 2, 'ntE': [], 'ints': False, 'nte_int': False}
        p1 = {'op': 'setpl', 'p': [['1', '1/4'], ['1/16', '4']], 'pe': None}
        p2 = {'op': 'setpl', 'p': [['1/4', '1'], ['1', '1/4']], 'pe': None}
        reads = [{'op': 'bigH'}, {'op': 'H'}, {'op': 'Hk', 'k': 1}, {'op': 'Hkl', 'k': 1, 'l': 0}]
    pn = {'op': 'setpl', 'p': None, 'pe': None}
    return [i1, i2, p1, p2, pn] + reads + [{'op': 'corrupt'}]


def enum_histories(ext, depth, reduced=False):
    """every sequence of <= `depth` letters after an initial init (corrupt data fitted to the layout);
    `reduced`: 8-letter alphabet (both layouts, three path-loss settings, big_H, H, corrupt)"""
    alpha = enum_alphabet(ext)
    first = alpha[0]
    if reduced:
        alpha = alpha[:7] + alpha[-1:]

    def fit(seq):
        ops, lay = [], None
        for op in seq:
            if op['op'] == 'init':
                lay = op
            if op['op'] == 'corrupt':
                one = lambda n: _m([[1 + (i % 2) * 1j, 2 - i] for i in range(n)])
                op = {'op': 'corrupt', 'x': [one(n) for n in lay['nt']], 'xe': [one(n) for n in lay['ntE']],
                      'nseed': 3}
            ops.append(op)
        return ops

    def rec(prefix, d):
        if d == 0:
            yield fit(prefix)
            return
        for a in alpha:
            yield from rec(prefix + [a], d - 1)
    for d in range(1, depth + 1):
        yield from rec([first], d)


# ------------------------------------------------------------------ check
def seeded_cases(ctx, n, maxlen, exact=True):
    cases = []
    for i in range(n):
        ext = bool(i % 2)
        g = Gen(ctx.rng.fork('h%d' % i), ext, exact=exact)
        ops = g.history(ctx.rng.randint(2, maxlen))
        cases.append({'cls': 'ext' if ext else 'plain', 'stream': 'exact' if exact else 'float', 'ops': ops})
    return cases


def check(ctx):
    quick = ctx.tier == 'quick'
    ctx.rule = ('histories: init, then ops drawn from {init/randomize with a fresh layout (K 1..4, antennas 1..3, '
                'unequal), set_pathloss(matrix|None), noise_var, set_post_filter, bursts of reads of every view, '
                'corrupt_data}, plain and ExtInt alternating, length 2..L; exact stream (Gaussian integers, '
                'square path losses, integer RNG) compared token by token with the Lean model; the same '
                'generator with real floats for the oracle-only stream; evaluations = operations executed; '
                'non-trivial = a read of a view that was read before the latest mutation (read-mutate-read) or a '
                'corrupt_data')
    core.prove(ctx, MODULE, generated=[], drivers=[DRIVER], scratch=ctx.scratch)
    ctx.required_branches = ['read-mutate-read:plain', 'read-mutate-read:ext', 'relayout:plain', 'relayout:ext',
                             'op:plain:corrupt', 'op:ext:corrupt', 'err:ValueError', 'err:IndexError',
                             'err:AssertionError']
    n_hist, maxlen = (400, 30) if quick else (6000, 60)
    corpus = corpus_cases()
    cases = seeded_cases(ctx, n_hist, maxlen)
    try:
        correspond(ctx, corpus, 'corpus')
        correspond(ctx, cases, 'seeded')
        if not quick:
            for ext in (False, True):
                hs = [{'cls': 'ext' if ext else 'plain', 'stream': 'exact', 'ops': ops}
                      for ops in enum_histories(ext, 4)]
                correspond(ctx, hs, 'enum-%s' % ('ext' if ext else 'plain'))
                h5 = [{'cls': 'ext' if ext else 'plain', 'stream': 'exact', 'ops': ops}
                      for ops in enum_histories(ext, 5, reduced=True) if len(ops) == 6]
                correspond(ctx, h5, 'enum5-%s' % ('ext' if ext else 'plain'))
                ctx.extra.setdefault('small_scope', {})['ext' if ext else 'plain'] = \
                    ('all %d histories init + <=4 letters of the %d-letter alphabet; all %d histories init + 5 '
                     'letters of the 8-letter alphabet' % (len(hs), len(enum_alphabet(ext)), len(h5)))
    except core.Infra as e:
        if not ctx.broken:
            raise
        ctx.notes.append('correspondence skipped: %s' % e)
        ctx.required_branches = []
    # independent oracles on the real code
    for i, c in enumerate(corpus):
        run_oracle(ctx, c, ('corpus', i))
    for i, c in enumerate(cases[:n_hist if quick else 2000]):
        run_oracle(ctx, c, ('seeded', i))
    for i, c in enumerate(seeded_cases(ctx, 150 if quick else 1500, maxlen, exact=False)):
        run_oracle(ctx, c, ('float', i))
    if not quick:
        for ext in (False, True):
            for i, ops in enumerate(enum_histories(ext, 3)):
                run_oracle(ctx, {'cls': 'ext' if ext else 'plain', 'stream': 'exact', 'ops': ops}, ('enum', ext, i))


def search(ctx):
    """deeper failing-input search, used when a proof / correspondence broke"""
    for c in corpus_cases():
        run_oracle(ctx, c, ('search-corpus', c.get('name')))
    for i, c in enumerate(seeded_cases(ctx, 1500, 40)):
        run_oracle(ctx, c, ('search', i))
        if len(ctx.failures) >= 3:
            return
    for ext in (False, True):
        for i, ops in enumerate(enum_histories(ext, 3)):
            run_oracle(ctx, {'cls': 'ext' if ext else 'plain', 'stream': 'exact', 'ops': ops}, ('search-enum', ext, i))
            if len(ctx.failures) >= 3:
                return
