"""C08 — multi-user channel matrix views stay coherent (DESIGN.md §5 C08).

Tie to source: hand model `lean/PyPhysim/Model/C08.lean` (cache state machine of
MultiUserChannelMatrix / MultiUserChannelMatrixExtInt) tied by EXACT
correspondence: seeded operation histories are run on the real classes and on
the compiled model (Gaussian rationals) and every output of every operation is
compared as exact rationals.  Exactness: Gaussian-integer channels / data /
filters, path losses that are squares of dyadic rationals, noise variances
with exact roots, and the random generator `randn_c_RS` replaced (from the
harness, no source hook) by a Gaussian-integer generator; the matrices it drew
and the noise read back from `last_noise` are handed to the model as the
operation's argument (the cache semantics are what is under test).

Independent oracle: a first-principles numpy "shadow" (raw matrix + the LAST
path-loss / filter arguments, plain slicing, per-link sums) checked against
every value the real object returns, on the exact stream and on a float stream
that uses the real random generator.

Developer knob (not used by any registered command): VERIF_C08_CFG=orig runs
the correspondence against the model of the design-round code (`Cfg.orig`,
the one the negative-witness theorems are about) with a generator restricted
to the histories that code has a defined behaviour for; on the unrepaired
source that correspondence is exact while the oracles report the defects.
"""
import contextlib
import json
import math
import os
from fractions import Fraction

import numpy as np

from harness import core

MODULE = 'PyPhysim.Properties.C08'
DRIVER = 'drv_c08'
CFG = os.environ.get('VERIF_C08_CFG', 'fixed')   # developer knob: 'orig' = model of the design-round code

CLAIM = {
    'technique': 'Lean 4 invariant proof over operation histories of a cache state machine; tied to the source (a) by '
                 'REGENERATION of the cache-invalidation structure (per class and entry point: attributes reset / '
                 'assigned / conditionally written / lazily filled / read, re-emitted from the AST on every run and '
                 'compared with the effect of the model\'s step by kernel-checked decision, plus a decidable '
                 'sufficiency condition on the generated tables) and (b) by exact (rational) correspondence of every '
                 'operation output with the real classes',
    'text': 'For every finite history of randomize / init_from_channel_matrix / set_pathloss / noise_var / '
            'set_post_filter / reads / corrupt_data on the plain and the external-interference channel, the '
            'model of the (repaired) code keeps every lazily cached view equal to its recomputation from the raw '
            'matrix and the CURRENT path loss and filters (kernel-checked induction: no bound on history length, '
            'number of users, antenna layout; any scalar type, any sqrt/conj). Hence every read returns the '
            'current view; for well-shaped arguments get_Hkl / H[k,l] is exactly the (k,l) sub-block of big_H and '
            'equals the raw block times sqrt(current pathloss[k,l]), get_Hk is the k-th row block, the ExtInt-only '
            'views are the user columns; corrupt_data returns the split by Nr of W^H (big_H vstack(x) + noise) '
            'with last_noise = that noise. The model\'s dot / conjugate-transpose product / sum are proved equal to '
            'Mathlib\'s matrix operations, block_diag is proved block diagonal, and receiver k\'s rows of big_H vstack(x) '
            'are proved to be the sum over the transmitters l of the rows of get_Hkl(k,l) times x_l. The model is tied to the source '
            'by exact comparison of all outputs on seeded histories; negative witnesses of the three defects of '
            'the design-round code (now fixed) are proved on the model of that code. Second tie (regeneration): '
            'Generated/C08Effects.lean lists, for MultiUserChannelMatrix and MultiUserChannelMatrixExtInt separately '
            '(overrides such as ExtInt.set_pathloss resolved per class, private helpers and explicit base-class '
            'calls inlined whatever their names), what every public method / getter / setter does to every data '
            'attribute on its normal exits, the attributes of a fresh object and what every lazy fill reads. '
            'Theorems: model_step_has_table_effect (for all states and arguments the model\'s step changes nothing '
            'outside its effect table, lazily filled fields only go None -> value, reset fields are None after '
            'every accepted call), coherence_reads_only_spec_dependencies (the coherence clause of a derived field '
            'reads only that field and its listed dependencies), generated_effects_match_model (every generated '
            'row = the table of the model operation behind it; other entry points write nothing), '
            'generated_attributes_known (no attribute the model does not know; None-initialised exactly where '
            'State.init is none), generated_fill_reads_match_model (the lazy caches of the source are the model\'s, '
            'each fill transitively reads exactly the fields the invariant computes it from) and '
            'generated_effects_sufficient (on the GENERATED tables: whoever writes an attribute resets or rewrites '
            'on every normal path every derived attribute whose dependency closure contains it); '
            'generated_tables_preserve_coherence states what that condition means without reference to the hand '
            'model (for any value type and any coherence relations that read only the dependency closure, a call '
            'that changes only what its generated row lists and stores None-or-coherent values in derived attributes '
            'preserves coherence); model_effect_table_is_tight (every listed write really happens on a concrete '
            'probe). A dropped or '
            'conditional reset, a getter that stops recomputing, or a new cached attribute that some mutator does '
            'not know breaks one of these obligations independently of the random histories.',
    'note': 'Trusted for the regeneration tie: harness/gen/_effects.py (abstract interpretation of the method bodies: '
            'last write per attribute over all normal exits, loops to a fixpoint, try/except, helper / property / '
            'super() / Base.m(self) inlining along the MRO; anything outside its fragment - self escaping, unknown '
            'decorators, multiple inheritance, del / setattr - is reported as a broken tie); it does not see '
            'mutation through a local alias of an attribute or by code outside the class, and it is path-insensitive '
            '(a write on one path and a reset on another are both reported). The dependencies of the two eagerly '
            'recomputed attributes (_pathloss_big_matrix, _H_no_pathloss) are taken from the model (specDeps / '
            'State.hNoPL), those of the lazy caches from the source. A changed SET of resets breaks the bridge even '
            'when it is behaviour preserving (e.g. ExtInt.set_pathloss no longer resetting _H_with_pathloss, which '
            'that class never reads): reported as a broken obligation without failing input. '
            'Trusted: Lean kernel, axioms {propext, Classical.choice, Quot.sound}; the hand model and its exact '
            'correspondence (generators stay inside the documented shapes: path loss K x K(+ K x extK), filters '
            'with Nr_k rows, data with Nt_k rows, >=1 interference source, antenna counts >= 1; numpy '
            'broadcasting / shape errors for ill-shaped arguments and the half-updated state they leave behind '
            'are not modelled); _from_small_matrix_to_big_matrix is modelled structurally (repeat each entry over '
            'its block), not as the loop over a ones matrix; sqrt / conj are uninterpreted in the theorems and '
            'exact in the driver; binary64 rounding outside. randn_c_RS is replaced by an integer generator in '
            'the exact stream (the float-stream oracles use the real one); the random matrices and the noise '
            'are parameters of the model. Views-agree theorems need the shape guard `Valid`; cache coherence and '
            'the transmission clause hold for every history; the per-link decomposition (received rows = sum over '
            'transmitters of block row times data) additionally needs the additive monoid laws and a rectangular '
            'channel matrix. Robustness classes: R4 (a call that raises changes nothing: init_from_channel_matrix, '
            'randomize, set_pathloss, noise_var, index errors) is a THEOREM on the model (rejected_call_changes_'
            'nothing, bad_init_rejected, bad_pathloss_rejected) and is tied by correspondence (rejected calls with '
            'arguments that differ from the current configuration in the middle of histories, every observable read '
            'afterwards); rejected corrupt_data calls are oracle-only. R1 (dtypes, python / numpy scalars, lists), '
            'R2 (memory layout, zero symbols), R3 (inputs untouched, outputs fresh / read-only, no aliasing) and R6 '
            '(scale) hold on the model BY CONSTRUCTION - its functions take logical values and return fresh values, '
            'the scalar type is arbitrary - and are checked on the code by correspondence (typed / strided / '
            'scribbled / scaled histories give the model\'s answer for the logical values) and by the oracle. R5 '
            '(path loss 0, noise variance 0.0 after a positive one, K = 1, one antenna, zero symbols, first / last '
            'index) is inside the quantifier of every theorem and generated on purpose. R7: observers K/Nr/Nt, '
            'pathloss, W/big_W, noise_var, last_noise, corrupt_concatenated_data, get_Hk_with_ext_int, '
            'set_pathloss() and mutators before the first init are modelled (observers_return_current); the '
            'fresh-twin comparison (object after a history == new object with the current configuration) and '
            'objects shared between users are oracle-only (the reads-change-nothing theorem is the model side). '
            'R1 per argument ELEMENT (round 4): element types that differ ACROSS the blocks of one list-of-arrays '
            'argument (real int / float16-64 / complex64 / complex128 in every position, first-real-later-complex '
            'and the reverse) for corrupt_data (plain, ExtInt user + interference blocks, object-array / list / '
            'tuple containers), corrupt_concatenated_data (caller-stacked), set_post_filter (filters) and the two '
            'parts of the ExtInt path loss (integer next to fractional); the stacked transmit data that '
            'corrupt_data hands to corrupt_concatenated_data is observed by wrapping that method on the instance '
            'and compared with the model op stackData (theorems stacked_data_keeps_every_block, '
            'corrupt_is_split_of_corruptCat) and with the first-principles stack. R8-R14 (round 4): R8 '
            '(argument forms) - every parameter of init_from_channel_matrix / randomize / set_pathloss / '
            'set_post_filter / get_Hkl / get_Hk / get_Hk_without_ext_int / corrupt_data / '
            'corrupt_concatenated_data / set_*_seed positionally AND by keyword, set_pathloss() / (None) / '
            '(None, None), re_seed() for set_*_seed(None), counts as python int / numpy integer / 0-d array / '
            'length-1 array, equivalent entry points (get_Hk_with_ext_int = get_Hk, H[k,l] = get_Hkl, corrupt_data '
            '= split of corrupt_concatenated_data: theorem corrupt_is_split_of_corruptCat); the classes have no '
            'constructor arguments, so there is no constructor-vs-setter path; the model takes logical values, so '
            'argument forms are correspondence/oracle only. R9 - K, indexes k, l and NtE as python int, '
            'np.int8..np.int64, np.uint8..np.uint64, np.intp, 0-d array; indexes above 256 (one K=257 history per '
            'quick run); negative indexes are not documented and not generated; bool is not a meaningful index. '
            'R10 - see above (theorem stacked_data_keeps_every_block + correspondence/oracle); 1-D blocks are not '
            'allowed by the API. R11 - model op `query` (calc_Q, calc_JP_Q, calc_SINR, calc_JP_SINR, '
            'calc_cov_matrix_extint_*, copy, deepcopy, pickle, repr/==/hash) inside the histories: THEOREM '
            'reads_do_not_change_views / coherent_step on the model, correspondence + oracle + fresh twin on the '
            'code. R12 does not apply: the channel has no dict / set / named containers, users are identified by '
            'position, which is the documented meaning. R13 - derived objects (copy.copy, copy.deepcopy, pickle '
            'round trip) mutated and used on their own while the parent goes on: on the model independence is by '
            'construction (states are values); on the code the child is compared with the model run of prefix + '
            'child operations and with its own first-principles shadow, the parent with its own; per-user views '
            '(blocks of H) are read-only views (R3). R14 - K = 257 users in every quick run, 257 / 258 / 300 '
            '(plain and ExtInt) in thorough; 2^16+1 users would need a 2^32-entry matrix and is not run. '
            'R15 (distinct values that are merely close; applies to every setter and to the transmitted data - the '
            'source has no value comparison today, so the class guards against an isclose / threshold / rounded-key '
            'shortcut): THEOREMS setter_takes_effect_for_every_new_value (the second of two accepted set_pathloss / '
            'noise_var / set_post_filter / init_from_channel_matrix calls decides alone, whatever was set before), '
            'lookup_exact (pathloss / noise_var / big_H read back exactly the argument; different arguments give '
            'different outputs), every_accepted_noise_variance_adds_noise (no magnitude threshold). Code: for each of '
            'set_pathloss, noise_var, init_from_channel_matrix, set_post_filter, corrupt_data / '
            'corrupt_concatenated_data and each kind of closeness (roots 1 vs 1+2^-26, relative 2^-20 at 0.56 and at '
            '9.7e9, 9.1e-13 vs 2.0e-12, 0 vs 3.6e-15, 1 vs 1+2^-19, 3.7e-9 vs 3.7e-9+1.8e-15) value 1, every '
            'observable, value 2, every observable: EXACT correspondence with the model and exact first-principles '
            'oracle (all values are squares of dyadic rationals, one many-bit factor at a time so binary64 is exact); '
            'the float stream adds truly adjacent doubles (0.3 / nextafter), 2.4e9 vs 2.4e9+2e4, 1e-12 vs 4e-13, 0.5 '
            'vs 0.5+1e-13, where pathloss / noise_var must read back bit for bit and the derived views are compared '
            'relative to their own scale (1e-9): a difference below 1e-9 relative in a DERIVED view is only visible '
            'in the exact stream. R16 (argument identity and buffer reuse): Model/C08Buf.lean (caller heap, refill, '
            'call with arguments read at call time), THEOREMS results_depend_on_contents_at_call_time, '
            'later_refills_do_not_change_earlier_results; on the code BufPool hands every array argument (channel '
            'matrix, Nr / Nt / NtE, both parts of the path loss, filters, data blocks, stacked data) to the object '
            'through ONE preallocated array per shape and element type refilled in place, the containers (list / '
            'object array of filters / data) reused and reassigned in place, equal contents within one call = the '
            'SAME array object (Nr is Nt is NtE, set_pathloss(P, P), corrupt_data(D, D), one block for every user), '
            'arguments overwritten after the call; every output is compared exactly with the model run on the '
            'contents at call time and with the first-principles shadow, earlier outputs must keep their values, a '
            'caller array that became read-only is reported (r16:caller-array-made-read-only). Not covered: '
            'argument identity across DIFFERENT channel objects sharing one array (R7 shares objects between users '
            'only through the oracle).',
}

# which comparison between the regenerated effect tables and the model fails (run only when the build broke)
EFFECTS_DIAG = """import PyPhysim.Proofs.C08Gen
open PyPhysim.CacheEffects PyPhysim.C08 PyPhysim.Generated.C08Effects
def okOr (b : Bool) (s : String) : String := if b then "ok" else s
#eval IO.println s!"DIAG rows-differ-from-model {okOr (rows.all rowMatches) (toString ((rows.filter fun r => !rowMatches r).map fun r => (r.cls, r.name, r.clears, r.assigns, r.mayWrite, r.fills)))}"
#eval IO.println s!"DIAG entry-points-present {okOr (entryPointsPresent rows) "a modelled entry point has no row"}"
#eval IO.println s!"DIAG attributes-known {okOr (initMatches initAttrs && mentionsOnlyInit initAttrs rows) (toString (initAttrs.map fun e => (e.1, e.2.map fun x => x.1)))}"
#eval IO.println s!"DIAG fill-reads-match-model {okOr (fillsMatch fillReads) (toString fillReads)}"
#eval IO.println s!"DIAG sufficiency(class,entry,derived-attribute,written-attribute) {okOr (sufficient (depsOf fillReads) rows) (toString (violations (depsOf fillReads) rows))}"
"""

PL_VALUES = [Fraction(1), Fraction(1, 4), Fraction(1, 16), Fraction(1, 64), Fraction(4), Fraction(9, 16),
             Fraction(1), Fraction(1, 4), Fraction(25, 4), Fraction(0)]
NV_VALUES = [None, Fraction(0), Fraction(1), Fraction(4), Fraction(1, 4), Fraction(9), Fraction(1, 16)]
READS_PLAIN = ['H', 'bigH', 'Hkl', 'Hk']
READS_EXT = ['H', 'bigH', 'Hkl', 'Hk', 'bigHne', 'Hkne', 'Hne']
VIEW_CALL = {'H': 'H', 'bigH': 'big_H', 'Hkl': 'get_Hkl', 'Hk': 'get_Hk', 'bigHne': 'big_H_no_ext_int',
             'Hkne': 'get_Hk_without_ext_int', 'Hne': 'H_no_ext_int', 'corrupt': 'corrupt_data'}
MUTATORS = ('init', 'rand', 'setpl', 'noise', 'setw')


def _impl():
    from pyphysim.channels import multiuser
    return multiuser


# ------------------------------------------------------------------ encoding
def fr(x):
    return Fraction(x)


def fr_tok(q):
    q = Fraction(q)
    return '%d/%d' % (q.numerator, q.denominator)


def c_tok(z):
    z = complex(z)
    return fr_tok(Fraction(z.real)) + ':' + fr_tok(Fraction(z.imag))


def mat_tok(m):
    m = np.asarray(m)
    if m.ndim != 2:
        return 'shape%s' % (m.shape,)
    if m.shape[0] == 0:
        return '_'
    return ';'.join('~' if m.shape[1] == 0 else ','.join(c_tok(z) for z in row) for row in m)


def mats_tok(ms):
    ms = list(ms)
    return '#' if not ms else '|'.join(mat_tok(m) for m in ms)


def mom_tok(h):
    h = np.asarray(h, dtype=object) if not isinstance(h, np.ndarray) else h
    if h.ndim != 2:
        return 'momshape%s' % (h.shape,)
    if h.shape[0] == 0:
        return '#'
    return '&'.join(mats_tok(h[i, j] for j in range(h.shape[1])) for i in range(h.shape[0]))


def nats_tok(ns):
    ns = list(ns)
    return '_' if not ns else ','.join(str(int(n)) for n in ns)


def jmat(m):
    """JSON form of an exact complex matrix: rows of [re, im] as fraction strings"""
    return [[[str(Fraction(complex(z).real)), str(Fraction(complex(z).imag))] for z in row] for row in np.asarray(m)]


def unj(m, ncols=None):
    rows = [[complex(float(Fraction(a)), float(Fraction(b))) for a, b in row] for row in m]
    if not rows:
        return np.zeros((0, ncols or 0), dtype=complex)
    return np.array(rows, dtype=complex)


def jreal(m):
    return [[str(Fraction(x)) for x in row] for row in m]


def unjreal(m):
    return np.array([[float(Fraction(x)) for x in row] for row in m], dtype=float)


def objarr(ms):
    a = np.empty(len(ms), dtype=object)
    for i, m in enumerate(ms):
        a[i] = m
    return a


# ------------------------------------------------------------------ generator
INT_DT = ['int8', 'int16', 'int32', 'int64']
REALF_DT = ['float16', 'float32', 'float64']
LAYOUTS = ['C', 'C', 'F', 'T', 'strided', 'neg']


def scal(q, e):
    """q * 2**e as an exact fraction string"""
    return str(Fraction(q) * (Fraction(2) ** e))


def gint(rng, r, c, lo=-3, hi=3, real=False, e=0):
    return [[[scal(rng.randint(lo, hi), e), '0' if real else scal(rng.randint(lo, hi), e)] for _ in range(c)]
            for _ in range(r)]


def gfloat(rng, r, c, s=1.0, real=False):
    return [[[repr(rng.gauss() * s), '0' if real else repr(rng.gauss() * s)] for _ in range(c)] for _ in range(r)]


_QUERY_TURN = [0]


class Gen:
    """Seeded generator of histories whose accepted operations have the documented shapes (it tracks the
    layout), interleaved with rejected calls, typed / strided arguments, scribbling on inputs and outputs,
    boundary values and scaled inputs.

    mode: 'plain' | 'typed' (R1/R2: narrow dtypes, python scalars/lists, non-contiguous views)
          | 'scaled' (R6: every input times a power of two / ten) ; stream 'exact' | 'float'"""

    def __init__(self, rng, ext, exact=True, mode='plain', kmax=4, amax=3, roles=False):
        self.rng, self.ext, self.exact, self.mode = rng, ext, exact, mode
        self.roles = roles          # R16: layouts in which one array object can serve two parameters
        self.kmax, self.amax = kmax, amax
        self.K = 0
        self.nr, self.nt, self.ntE = [], [], []
        self.w_ok = True       # the stored filter (or None) fits the layout
        self.w_none = True
        self.nv_pos = False    # a positive noise variance was used in a transmission
        self.ops = []
        if mode == 'scaled':
            if exact:
                self.ea, self.eb, self.ec = [rng.randint(-40, 40) for _ in range(3)]
                self.ed = rng.randint(-8, 8)   # path loss may be absent: keep signal and noise within 53 bits
            else:
                self.ea, self.eb, self.ec, self.ed = [rng.randint(-12, 12) for _ in range(4)]
        else:
            self.ea = self.eb = self.ec = self.ed = 0

    # ---- values
    def mat(self, r, c, e, real=False):
        if self.exact:
            return gint(self.rng, r, c, real=real, e=e)
        return gfloat(self.rng, r, c, 10.0 ** e, real=real)

    def fmt(self, real, allow_list=False, const=False):
        """dtype / memory layout of an array argument (R1, R2)"""
        rng = self.rng
        f = {'dt': None, 'lay': 'C'}
        if self.mode == 'typed' or rng.chance(0.15):
            f['lay'] = rng.choice(LAYOUTS + (['list'] if allow_list else []) + (['bcast'] if const else []))
        if self.mode == 'typed' and self.exact:
            if real:
                f['dt'] = rng.choice(INT_DT + REALF_DT + ['complex64', None])
            else:
                f['dt'] = rng.choice(['complex64', None])
        return f

    def block_kinds(self, n):
        """which blocks of a list-of-arrays argument are real valued (R1 per argument ELEMENT): all complex, all
        real, first real / later complex, first complex / later real, or any mixture"""
        rng = self.rng
        u = rng.uniform()
        if n == 1 or u < (0.25 if self.mode == 'typed' else 0.6):
            k = rng.chance(0.5) if self.mode == 'typed' else False
            return [k] * n
        if u < 0.5 if self.mode == 'typed' else u < 0.75:
            return [True] + [False] * (n - 1)
        if u < 0.7 if self.mode == 'typed' else u < 0.85:
            return [False] + [True] * (n - 1)
        ks = [rng.chance(0.5) for _ in range(n)]
        return ks

    def block_fmt(self, real, allow_list=False):
        """element type / layout of ONE block: a real block really has a real (or integer) element type"""
        rng = self.rng
        f = {'dt': None, 'lay': 'C'}
        if self.mode == 'typed' or rng.chance(0.15):
            f['lay'] = rng.choice(LAYOUTS + (['list'] if allow_list else []))
        if real:
            if self.exact and self.mode != 'scaled':
                f['dt'] = rng.choice(INT_DT + REALF_DT + ['float64', 'float64'] + (['complex64', None]
                                                                                   if self.mode == 'typed' else []))
            else:
                f['dt'] = 'float64'
        elif self.exact and self.mode == 'typed':
            f['dt'] = rng.choice(['complex64', None])
        return f

    def pl_fmt(self, vals):
        rng = self.rng
        f = {'dt': None, 'lay': 'C'}
        flat = [Fraction(x) for row in vals for x in row]
        const = len(set(flat)) == 1 and len(flat) > 0
        if self.mode == 'typed' or rng.chance(0.15):
            f['lay'] = rng.choice(LAYOUTS + (['bcast'] if const else []))
        if self.mode == 'typed' and self.exact:
            pool = REALF_DT + [None]
            if all(x.denominator == 1 for x in flat):
                pool = pool + INT_DT + ['uint8']
            f['dt'] = rng.choice(pool)
        return f

    def nfmt(self, uniform):
        """how Nr / Nt are passed"""
        if self.mode != 'typed':
            return 'pyint' if (uniform and self.rng.chance(0.3)) else 'array'
        pool = ['array', 'int8', 'uint8', 'int16', 'int32', 'uint16', 'uint32', 'uint64', 'list', 'tuple']
        if uniform:
            pool += ['pyint', 'pyint', 'npint', 'npint', 'arr0d', 'arr0d']
        return self.rng.choice(pool)

    # ---- layouts
    def layout(self, keepK=None):
        rng = self.rng
        if keepK is None:
            keepK = self.K > 0 and rng.chance(0.6)
        K = self.K if keepK else rng.randint(1, self.kmax)
        if rng.chance(0.25):
            nr = [rng.randint(1, self.amax)] * K
            nt = [rng.randint(1, self.amax)] * K
        else:
            nr = [rng.randint(1, self.amax) for _ in range(K)]
            nt = [rng.randint(1, self.amax) for _ in range(K)]
        ntE = [rng.randint(1, 2) for _ in range(rng.randint(1, 2))] if self.ext else []
        return K, nr, nt, ntE

    def init_op(self, kind, K, nr, nt, ntE):
        rng = self.rng
        un_r, un_t = len(set(nr)) == 1, len(set(nt)) == 1
        op = {'op': kind, 'nr': nr, 'nt': nt, 'K': K, 'ntE': ntE,
              'nrf': self.nfmt(un_r), 'ntf': self.nfmt(un_t),
              'kf': rng.choice(list(SCALAR_FORMS)) if self.mode == 'typed' else 'py', 'kw': rng.chance(0.3),
              'ntef': (rng.choice(['array', 'list', 'pyint', 'npint', 'arr0d'] if len(ntE) == 1 else ['array', 'list'])
                       if self.ext else 'array')}
        if self.ext and kind == 'init':
            # the ExtInt override hstacks Nr/Nt with the interference counts: scalars are not accepted there
            pass
        if kind == 'init':
            real = self.mode == 'typed' and rng.chance(0.5)
            op['M'] = self.mat(sum(nr), sum(nt) + sum(ntE), self.ea, real=real)
            op['fM'] = self.fmt(real)
            op['scr'] = rng.chance(0.3)
        else:
            op['seed'] = rng.below(1 << 31)
            op['reseed'] = rng.chance(0.1)       # re_seed() instead of set_channel_seed(seed)
        return op

    def op_init(self, kind=None):
        rng = self.rng
        K, nr, nt, ntE = self.layout()
        kind = kind or ('init' if rng.chance(0.6) else 'rand')
        if self.mode == 'scaled' and self.exact:
            kind = 'init'     # the integer RNG is not scaled: signal and noise would not fit 53 bits together
        self.ops.append(self.init_op(kind, K, nr, nt, ntE))
        if (nr, nt, K, ntE) != (self.nr, self.nt, self.K, self.ntE):
            self.w_ok = self.w_none
        self.K, self.nr, self.nt, self.ntE = K, nr, nt, ntE

    def resplit(self, ns):
        """another composition of sum(ns) into len(ns) positive parts (a permutation or a re-split)"""
        rng = self.rng
        tot, n = sum(ns), len(ns)
        if n < 2 or tot == n:
            return list(ns)
        for _ in range(20):
            if rng.chance(0.4):
                new = list(ns)
                rng.shuffle(new)
            else:
                cuts = sorted({rng.randint(1, tot - 1) for _ in range(n - 1)})
                while len(cuts) < n - 1:
                    cuts = sorted(set(cuts) | {rng.randint(1, tot - 1)})
                new = [b - a for a, b in zip([0] + cuts, cuts + [tot])]
            if new != list(ns):
                return new
        return list(ns)

    def op_resplit(self):
        """same K, same sum(Nr), sum(Nt) (and sum of the interference antennas), another per-user split, with a
        NON-UNIFORM path loss stored: big_H must follow the new block structure"""
        rng = self.rng
        for _ in range(4):
            nr, nt, ntE = self.resplit(self.nr), self.resplit(self.nt), self.resplit(self.ntE)
            if (nr, nt, ntE) != (self.nr, self.nt, self.ntE):
                break
            # nothing to re-split (one user, or one antenna each): move to a layout that can be re-split
            K = rng.randint(2, self.kmax)
            lay = (K, [rng.randint(1, self.amax) for _ in range(K)], [rng.randint(1, self.amax) for _ in range(K)],
                   [rng.randint(1, 2) for _ in range(rng.randint(1, 2))] if self.ext else [])
            self.ops.append(self.init_op('init', *lay))
            if lay != (self.K, self.nr, self.nt, self.ntE):
                self.w_ok = self.w_none
            self.K, self.nr, self.nt, self.ntE = lay
        else:
            return
        K, E = self.K, len(self.ntE)
        # all entries different (as far as the pool goes), never uniform
        if self.exact:
            pool = [Fraction(1), Fraction(1, 4), Fraction(4), Fraction(1, 16), Fraction(9, 16), Fraction(1, 64),
                    Fraction(25, 4), Fraction(16), Fraction(9, 4), Fraction(1, 256)]
            if self.mode == 'typed':
                pool = [Fraction(1), Fraction(4), Fraction(16), Fraction(9), Fraction(25), Fraction(64), Fraction(36)]
            off = rng.below(len(pool))
            val = lambda i: scal(pool[(off + i) % len(pool)], 2 * self.ed)
        else:
            val = lambda i: repr((0.05 + 0.37 * i) * 10.0 ** (2 * self.ed))
        p = [[val(k * (K + E) + l) for l in range(K)] for k in range(K)]
        pe = [[val(k * (K + E) + K + l) for l in range(E)] for k in range(K)]
        self.ops.append({'op': 'setpl', 'p': p, 'pe': pe if self.ext else None, 'fp': self.pl_fmt(p),
                         'fpe': self.pl_fmt(pe) if self.ext else None, 'scr': False})
        if rng.chance(0.6):
            self.ops.append({'op': rng.choice(['bigH', 'Hk', 'H']), 'k': 0, 'kf': 'py'})
        kind = 'init' if (rng.chance(0.5) or (self.mode == 'scaled' and self.exact)) else 'rand'
        op = self.init_op(kind, K, nr, nt, ntE)
        op['resplit'] = True
        self.ops.append(op)
        if (nr, nt, ntE) != (self.nr, self.nt, self.ntE):
            self.w_ok = self.w_none
        self.nr, self.nt, self.ntE = nr, nt, ntE
        self.ops.append({'op': 'bigH'})
        for k in range(K):
            self.ops.append({'op': 'Hk', 'k': k, 'kf': 'py'})
        self.ops.append({'op': 'H'})
        if self.ext:
            self.ops.append({'op': 'bigHne'})
        self.op_corrupt()

    # ---- rejected calls (R4): arguments differ from the current configuration
    def op_bad_init(self):
        rng = self.rng
        K, nr, nt, ntE = self.layout(keepK=rng.chance(0.3))
        if rng.chance(0.5):
            op = self.init_op('init', K, nr, nt, ntE)
            op['M'] = self.mat(sum(nr) + 1, sum(nt) + sum(ntE), self.ea)     # one row too many
            op['fM'] = {'dt': None, 'lay': op['fM']['lay']}
        else:
            op = self.init_op('init', K, nr, nt, ntE)
            op['K'] = K + 1                                                  # K does not match len(Nr)
            op['nrf'] = op['ntf'] = 'array'
        op['expect'] = 'ValueError'
        op['scr'] = False
        self.ops.append(op)
        self.burst()

    def op_bad_rand(self):
        rng = self.rng
        K, nr, nt, ntE = self.layout(keepK=rng.chance(0.3))
        op = self.init_op('rand', K, nr, nt, ntE)
        if rng.chance(0.5):
            op['nt'] = nt + [1]
        else:
            op['nr'] = nr + [2]
        op['nrf'] = op['ntf'] = 'array'
        op['expect'] = 'ValueError'
        self.ops.append(op)
        self.burst()

    def op_bad_setpl(self):
        rng = self.rng
        K, E = self.K, len(self.ntE)
        one = scal(1, 2 * self.ed) if self.exact else repr(10.0 ** self.ed)
        kind = rng.choice(['rows', 'cols'] + (['ext-rows'] if self.ext else []))
        if kind == 'rows':          # a row too few
            p = [[one] * K for _ in range(K - 1)]
            pe = [[one] * E for _ in range(K - 1)]
            exp = 'IndexError'
        elif kind == 'cols':        # a column too few
            p = [[one] * (K - 1) for _ in range(K)]
            pe = [[one] * E for _ in range(K)]
            exp = 'IndexError'
        else:                       # interference path loss with another number of rows
            p = [[one] * K for _ in range(K)]
            pe = [[one] * E for _ in range(K + 1)]
            exp = 'ValueError'
        self.ops.append({'op': 'setpl', 'p': p, 'pe': pe if self.ext else None, 'expect': exp,
                         'fp': {'dt': None, 'lay': 'C'}})
        self.burst()

    def op_bad_corrupt(self):
        rng = self.rng
        ns = rng.randint(1, 2)
        if rng.chance(0.5) or not self.w_ok:
            if not self.w_ok:
                self.op_setw()
            nt = list(self.nt)
            nt[rng.below(len(nt))] += 1                      # one data block with a row too many
            x = [self.mat(n, ns, self.eb) for n in nt]
            xe = [self.mat(n, ns, self.eb) for n in self.ntE]
            self.ops.append({'op': 'corrupt', 'x': x, 'xe': xe, 'nseed': rng.below(1 << 31), 'expect': 'ValueError',
                             'oracle_only': True})
            self.ops.append({'op': 'ln'})
        else:
            w = [self.mat(n + 1, 1, self.ec) for n in self.nr]  # filters with a row too many: accepted by the setter
            self.ops.append({'op': 'setw', 'w': w, 'as_list': True, 'badrows': True})
            x = [self.mat(n, ns, self.eb) for n in self.nt]
            xe = [self.mat(n, ns, self.eb) for n in self.ntE]
            self.ops.append({'op': 'corrupt', 'x': x, 'xe': xe, 'nseed': rng.below(1 << 31), 'expect': 'ValueError',
                             'oracle_only': True})
            self.ops.append({'op': 'ln'})
            self.op_setw()
        self.burst(short=True)

    def burst(self, short=False):
        """read everything observable (after a rejected call: nothing may have changed)"""
        views = ['layout', 'bigH', 'H', 'pl', 'nv', 'ln', 'bigW']
        if self.ext:
            views += ['bigHne', 'Hne']
        if short:
            views = ['layout', 'bigH', 'ln']
        for v in views:
            self.ops.append({'op': v})
        for k in range(self.K):
            self.ops.append({'op': 'Hk', 'k': k, 'kf': 'py'})
        if self.w_ok and not short:
            self.op_corrupt()

    # ---- accepted mutators
    def op_setpl(self):
        rng = self.rng
        if rng.chance(0.2):
            self.ops.append({'op': 'setpl', 'p': None, 'pe': None, 'noarg': rng.chance(0.4), 'kw': rng.chance(0.4)})
            return
        K, E = self.K, len(self.ntE)
        if self.exact:
            pool = PL_VALUES if self.mode != 'typed' else [Fraction(1), Fraction(1, 4), Fraction(4), Fraction(1, 16),
                                                           Fraction(9, 16), Fraction(0), Fraction(1), Fraction(4)]
            if rng.chance(0.15):
                pool = [rng.choice(pool)]                    # constant matrix (broadcast views)
            p = [[scal(rng.choice(pool), 2 * self.ed) for _ in range(K)] for _ in range(K)]
            pe = [[scal(rng.choice(pool), 2 * self.ed) for _ in range(E)] for _ in range(K)]
        else:
            s = 10.0 ** (2 * self.ed)
            p = [[repr(rng.uniform(0.01, 2.0) * s) for _ in range(K)] for _ in range(K)]
            pe = [[repr(rng.uniform(0.01, 2.0) * s) for _ in range(E)] for _ in range(K)]
        fp, fpe = self.pl_fmt(p), self.pl_fmt(pe) if self.ext else None
        if self.ext and self.exact and self.mode != 'scaled' and rng.chance(0.3):
            # an integer valued (integer dtype) part next to a fractional (floating) part, in either order
            ints = [str(rng.choice([1, 4, 9, 16])) for _ in range(K * max(K, E))]
            frac = [str(rng.choice([Fraction(1, 4), Fraction(9, 16), Fraction(1, 64), Fraction(25, 4)]))
                    for _ in range(K * max(K, E))]
            if rng.chance(0.5):
                p = [[ints[k * K + l] for l in range(K)] for k in range(K)]
                pe = [[frac[k * E + l] for l in range(E)] for k in range(K)]
                fp, fpe = {'dt': rng.choice(INT_DT + ['uint8']), 'lay': fp['lay']}, {'dt': rng.choice(REALF_DT), 'lay': 'C'}
            else:
                p = [[frac[k * K + l] for l in range(K)] for k in range(K)]
                pe = [[ints[k * E + l] for l in range(E)] for k in range(K)]
                fp, fpe = {'dt': rng.choice(REALF_DT), 'lay': fp['lay']}, {'dt': rng.choice(INT_DT + ['uint8']), 'lay': 'C'}
            fp['mixed'] = True
        self.ops.append({'op': 'setpl', 'p': p, 'pe': pe if self.ext else None, 'fp': fp,
                         'fpe': fpe if self.ext else None, 'scr': rng.chance(0.3), 'kw': rng.chance(0.3)})

    def op_noise(self):
        rng = self.rng
        if rng.chance(0.08):
            self.ops.append({'op': 'noise', 'v': '-1', 'expect': 'AssertionError', 'vf': 'float'})
            self.ops.append({'op': 'nv'})
            return
        e = self.ea + self.eb + self.ed
        if self.exact:
            v = rng.choice(NV_VALUES)
            if self.nv_pos and rng.chance(0.3):
                v = Fraction(0)                              # exactly 0.0 after a positive variance (R5)
            vs = None if v is None else scal(v, 2 * e)
        else:
            v = rng.choice([None, 0.0, 0.5, 1.0, 2.5])
            vs = None if v is None else repr(v * 100.0 ** e)
        vf = 'float'
        if self.mode == 'typed' and v is not None and self.exact:
            vf = rng.choice(['float', 'np.float32', 'np.float16', 'arr0d'] + (['int', 'np.int8'] if v.denominator == 1 else []))
        self.ops.append({'op': 'noise', 'v': vs, 'vf': vf})

    def op_setw(self):
        rng = self.rng
        if rng.chance(0.25):
            self.ops.append({'op': 'setw', 'w': None})
            self.w_none = True
        else:
            kinds = self.block_kinds(len(self.nr))
            w = [self.mat(n, rng.randint(1, n), self.ec, real=r) for n, r in zip(self.nr, kinds)]
            self.ops.append({'op': 'setw', 'w': w, 'as_list': rng.chance(0.5),
                             'fws': [self.block_fmt(r, allow_list=True) for r in kinds], 'scr': rng.chance(0.3),
                             'kw': rng.chance(0.3)})
            self.w_none = False
        self.w_ok = True

    def op_read(self, view=None):
        rng = self.rng
        pool = ['H', 'bigH', 'Hkl', 'Hk', 'layout', 'pl', 'bigW', 'nv', 'ln']
        if self.ext:
            pool += ['bigHne', 'Hkne', 'Hne', 'Hk']
        view = view or rng.choice(pool)
        op = {'op': view}
        Kt = self.K + len(self.ntE)
        idxf = rng.choice(list(SCALAR_FORMS)) if self.mode == 'typed' else 'py'
        op['kw'] = rng.chance(0.3)
        if view == 'Hkl':
            if rng.chance(0.04):
                op.update(k=self.K, l=0, expect='IndexError')
            else:
                op.update(k=rng.choice([0, self.K - 1, rng.below(self.K)]), l=rng.choice([0, Kt - 1, rng.below(Kt)]))
            op['kf'] = idxf
        elif view in ('Hk', 'Hkne'):
            if rng.chance(0.04):
                op.update(k=self.K, expect='IndexError')
            else:
                op.update(k=rng.choice([0, self.K - 1, rng.below(self.K)]))
            op['kf'] = idxf
            if view == 'Hk' and self.ext and rng.chance(0.3):
                op['alt'] = True                             # get_Hk_with_ext_int
        if view in ('H', 'bigH', 'Hkl', 'Hk', 'bigHne', 'Hkne', 'Hne', 'pl', 'bigW', 'ln'):
            op['scr'] = rng.chance(0.3)
        self.ops.append(op)

    def op_corrupt(self):
        rng = self.rng
        if not self.w_ok:
            self.op_setw()
        ns = rng.choice([1, 1, 2, 3, 0]) if rng.chance(0.5) else rng.randint(1, 3)
        kinds = self.block_kinds(len(self.nt) + len(self.ntE))
        x = [self.mat(n, ns, self.eb, real=r) for n, r in zip(self.nt, kinds)]
        xe = [self.mat(n, ns, self.eb, real=r) for n, r in zip(self.ntE, kinds[len(self.nt):])]
        kind = 'corruptc' if rng.chance(0.25) else 'corrupt'
        fxs = [self.block_fmt(r, allow_list=(kind == 'corrupt')) for r in kinds]
        self.ops.append({'op': kind, 'x': x, 'xe': xe, 'nseed': rng.below(1 << 31), 'ns': ns, 'fxs': fxs,
                         'fx': {'dt': None, 'lay': rng.choice(LAYOUTS) if self.mode == 'typed' else 'C'},
                         'xcont': rng.choice(['objarr', 'objarr', 'list', 'tuple']) if not self.ext else 'objarr',
                         'scr': rng.chance(0.3), 'kw': rng.chance(0.3)})
        last_nv = [o for o in self.ops if o['op'] == 'noise' and not o.get('expect')]
        if last_nv and last_nv[-1]['v'] is not None and Fraction(last_nv[-1]['v']) > 0:
            self.nv_pos = True

    def op_query(self):
        """R11: a public method that is not a setter, then reads"""
        rng = self.rng
        pool = ['calc_Q', 'calc_JP_Q', 'calc_SINR', 'calc_JP_SINR', 'copy', 'deepcopy', 'pickle', 'repr']
        if self.ext:
            pool.append('cov_extint')
        # the kinds are taken in turn (not drawn): every kind is reached in every run, whatever the seed
        _QUERY_TURN[0] += 1
        rng.choice(pool)            # (keeps the random stream of the other choices as it was)
        self.ops.append({'op': 'query', 'which': pool[_QUERY_TURN[0] % len(pool)], 'k': rng.below(max(self.K, 1))})
        for _ in range(rng.randint(1, 3)):
            self.op_read()

    def op_fork(self):
        """R13: a derived object (copy / deepcopy / pickle round trip) is mutated and used on its own; the parent
        goes on afterwards"""
        import copy as _copy
        rng = self.rng
        g = _copy.copy(self)
        g.ops = []
        for _ in range(rng.randint(1, 3)):
            u = rng.uniform()
            if u < 0.35:
                g.op_setpl()
            elif u < 0.5:
                g.op_noise()
            elif u < 0.65:
                g.op_setw()
            elif u < 0.85:
                g.op_init()
            else:
                g.op_resplit()
        g.burst()
        child = [dict(o, scr=False) for o in g.ops]
        self.ops.append({'op': 'fork', 'how': rng.choice(['copy', 'deepcopy', 'pickle']), 'child': child})
        self.burst(short=True)

    # ---- R15: distinct values that are merely close
    def close_values(self, variant):
        """two DIFFERENT values v1, v2 (path losses / noise variances: exact stream = squares of dyadic rationals so
        that the roots are exact) which np.isclose (atol 1e-8, rtol 1e-5), a `> 1e-8` threshold or a key rounded to
        12 decimals would identify; the order is random"""
        if self.exact:
            q = {'adjacent': (Fraction(1), 1 + Fraction(1, 2 ** 26)),
                 'rel1e-6': (Fraction(3, 4), Fraction(3, 4) * (1 + Fraction(1, 2 ** 20))),
                 'large': (Fraction(3 * 2 ** 15), 3 * 2 ** 15 * (1 + Fraction(1, 2 ** 20))),      # 9.66e9 vs 9.66e9 + 1.8e4
                 'tiny': (Fraction(1, 2 ** 20), Fraction(3, 2 ** 21)),                             # 9.1e-13, 2.0e-12
                 'zero-vs-tiny': (Fraction(0), Fraction(1, 2 ** 24)),                              # 0, 3.6e-15
                 'near-one': (Fraction(1), 1 + Fraction(1, 2 ** 20)),
                 'beyond-12th-decimal': (Fraction(1, 2 ** 14), Fraction(1, 2 ** 14) * (1 + Fraction(1, 2 ** 22)))}[variant]
            v = [str(q[0] ** 2), str(q[1] ** 2)]
        else:
            v = {'adjacent': (0.3, float(np.nextafter(0.3, 1.0))),
                 'rel1e-6': (0.75, 0.75 * (1 + 1e-6)),
                 'large': (2.4e9, 2.4e9 + 2e4),
                 'tiny': (1e-12, 4e-13),
                 'zero-vs-tiny': (0.0, 1e-15),
                 'near-one': (1.0, 1.0 + 1e-6),
                 'beyond-12th-decimal': (0.5, 0.5 + 1e-13)}[variant]
            v = [repr(v[0]), repr(v[1])]
        if self.rng.chance(0.5):
            v.reverse()
        return v

    CLOSE = {'setpl': ['adjacent', 'rel1e-6', 'large', 'tiny', 'zero-vs-tiny', 'near-one', 'beyond-12th-decimal'],
             'noise': ['adjacent', 'rel1e-6', 'large', 'tiny', 'zero-vs-tiny', 'beyond-12th-decimal'],
             'init': ['adjacent', 'rel1e-6', 'large', 'tiny', 'zero-vs-tiny'],
             'setw': ['adjacent', 'rel1e-6', 'tiny', 'zero-vs-tiny'],
             'corrupt': ['adjacent', 'rel1e-6', 'tiny', 'zero-vs-tiny']}

    def plain_state(self, noise=True):
        """path loss / noise variance / filters with few significant bits (so that the close values of the block that
        follows - or preceded - never meet a second many-bit factor: the exact stream stays exact)"""
        rng = self.rng
        K, E = self.K, len(self.ntE)
        if rng.chance(0.5):
            self.ops.append({'op': 'setpl', 'p': None, 'pe': None})
        else:
            pool = ['1', '1/4', '4', '9/16'] if self.exact else ['1.0', '0.25', '4.0', '0.5625']
            self.ops.append({'op': 'setpl', 'p': [[rng.choice(pool) for _ in range(K)] for _ in range(K)],
                             'pe': [[rng.choice(pool) for _ in range(E)] for _ in range(K)] if self.ext else None})
        v = rng.choice([None, '1']) if noise else None
        self.ops.append({'op': 'noise', 'v': v, 'vf': 'float'})
        self.ops.append({'op': 'setw', 'w': None})
        self.w_none = self.w_ok = True
        if rng.chance(0.5):
            self.op_setw()
            if self.ops[-1].get('w') is not None:
                self.ops[-1].update(fws=None, scr=False)

    def jpair(self, rows, cols, variant, real=False):
        """two complex matrices (JSON form) that differ by little: all entries by a relative 2^-20 / 1e-6, one entry by
        2^-26 / 1e-13, both tiny (scale 2^-30 / 1e-10, one entry different), or zeros against tiny"""
        rng = self.rng
        base = self.mat(rows, cols, 0, real=real)
        if rows * cols == 0:
            return base, base

        def mapm(m, f):
            return [[[str(f(Fraction(a), i, j, 0)) if self.exact else repr(f(float(a), i, j, 0)),
                      str(f(Fraction(b), i, j, 1)) if self.exact else repr(f(float(b), i, j, 1))]
                     for j, (a, b) in enumerate(row)] for i, row in enumerate(m)]
        i0, j0 = rng.below(rows), rng.below(cols)
        one = (lambda i, j, c: i == i0 and j == j0 and c == 0)
        if self.exact:
            eps20, eps26, tiny, big = Fraction(1, 2 ** 20), Fraction(1, 2 ** 26), Fraction(1, 2 ** 30), Fraction(2 ** 20)
        else:
            eps20, eps26, tiny, big = 1e-6, 1e-13, 1e-10, 1e6
        if variant == 'rel1e-6':
            a, b = base, mapm(base, lambda x, i, j, c: x * (1 + eps20))
            if all(Fraction(z) == 0 for row in base for e_ in row for z in e_):
                b = mapm(base, lambda x, i, j, c: x + (eps20 if one(i, j, c) else 0))
        elif variant == 'adjacent':
            a, b = base, mapm(base, lambda x, i, j, c: x + (eps26 if one(i, j, c) else 0))
        elif variant == 'large':
            a = mapm(base, lambda x, i, j, c: x * big)
            b = mapm(base, lambda x, i, j, c: x * big + (1 if one(i, j, c) else 0))
        elif variant == 'tiny':
            a = mapm(base, lambda x, i, j, c: x * tiny)
            b = mapm(base, lambda x, i, j, c: (x + (1 if one(i, j, c) else 0)) * tiny)
        else:   # zero-vs-tiny
            a = mapm(base, lambda x, i, j, c: x * 0)
            b = mapm(base, lambda x, i, j, c: (x + (1 if one(i, j, c) else 0)) * tiny)
        return (b, a) if rng.chance(0.5) else (a, b)

    def op_close(self, kind=None, variant=None):
        """R15: <entry point>(v1), every observable, <entry point>(v2) with v2 close to v1 but different, every
        observable again (each must be what a first-principles computation gives for THAT value)"""
        rng = self.rng
        kind = kind or rng.choice(list(self.CLOSE))
        variant = variant or rng.choice(self.CLOSE[kind])
        mark = '%s:%s' % (kind, variant)
        K, E = self.K, len(self.ntE)
        small_scale = variant in ('tiny', 'zero-vs-tiny', 'beyond-12th-decimal')
        self.plain_state(noise=not (small_scale and kind == 'setpl'))
        start = len(self.ops)

        def observe():
            for v in ['pl', 'bigH', 'H', 'nv', 'bigW'] + (['bigHne', 'Hne'] if self.ext else []):
                self.ops.append({'op': v})
            self.ops.append({'op': 'Hk', 'k': rng.below(K), 'kf': 'py'})
            self.ops.append({'op': 'Hkl', 'k': rng.below(K), 'l': rng.below(K + E), 'kf': 'py'})
            self.op_corrupt()
            self.ops[-1].update(fxs=None, scr=False, xcont='objarr')
            self.ops.append({'op': 'ln'})
        if kind == 'setpl':
            v1, v2 = self.close_values(variant)
            others = ['1', '1/4', '4'] if self.exact else ['1.0', '0.25', '4.0']
            every = small_scale or rng.chance(0.5)      # small scales: the whole matrix is of that scale
            k0, l0 = rng.below(K), rng.below(K + E)
            base = [[rng.choice(others) for _ in range(K + E)] for _ in range(K)]
            for v in (v1, v2):
                full = [[v if (every or (k, l) == (k0, l0)) else base[k][l] for l in range(K + E)] for k in range(K)]
                self.ops.append({'op': 'setpl', 'p': [row[:K] for row in full],
                                 'pe': [row[K:] for row in full] if self.ext else None, 'kw': rng.chance(0.3)})
                observe()
        elif kind == 'noise':
            for v in self.close_values(variant):
                self.ops.append({'op': 'noise', 'v': v, 'vf': 'float'})
                observe()
        elif kind == 'init':
            real = rng.chance(0.2)
            Ms = self.jpair(sum(self.nr), sum(self.nt) + sum(self.ntE), variant, real=real)
            for M in Ms:
                op = self.init_op('init', self.K, list(self.nr), list(self.nt), list(self.ntE))
                op.update(M=M, fM=None, scr=False, nrf='array', ntf='array', ntef='array')
                self.ops.append(op)
                observe()
        elif kind == 'setw':
            cols = [rng.randint(1, n) for n in self.nr]
            pairs = [self.jpair(n, c, variant) for n, c in zip(self.nr, cols)]
            which = rng.below(len(pairs))           # one filter changes (all of them for the small scales)
            for t in (0, 1):
                w = [pr[t] if (small_scale or i == which) else pr[0] for i, pr in enumerate(pairs)]
                self.ops.append({'op': 'setw', 'w': w, 'as_list': rng.chance(0.5)})
                self.w_none, self.w_ok = False, True
                observe()
        else:   # corrupt: two transmissions whose data differ by little
            ns = rng.randint(1, 2)
            pairs = [self.jpair(n, ns, variant) for n in list(self.nt) + list(self.ntE)]
            which = rng.below(len(pairs))
            for t in (0, 1):
                x = [pr[t] if (small_scale or i == which) else pr[0] for i, pr in enumerate(pairs)]
                self.ops.append({'op': rng.choice(['corrupt', 'corrupt', 'corruptc']), 'x': x[:len(self.nt)],
                                 'xe': x[len(self.nt):], 'nseed': rng.below(1 << 31), 'ns': ns,
                                 'xcont': 'objarr'})
                self.ops.append({'op': 'ln'})
        for o in self.ops[start:]:
            o['close'] = mark
        if kind == 'init':
            # back to a channel with few significant bits (a later block brings its own many-bit factor)
            op = self.init_op('init', self.K, list(self.nr), list(self.nt), list(self.ntE))
            op.update(fM=None, scr=False, nrf='array', ntf='array', ntef='array')
            self.ops.append(op)
        self.plain_state()

    # ---- R16: one array object in two roles
    def op_roles(self):
        """a layout in which Nr, Nt (and NtE), the two parts of the path loss, the data blocks / the two data lists
        and the filters can be THE SAME array object (equal contents; BufPool hands out one array for them)"""
        rng = self.rng
        K = rng.randint(2, 3)
        n = rng.randint(1, 2)
        E = [n] * K if self.ext else []
        op = self.init_op('init', K, [n] * K, [n] * K, E)
        op.update(nrf='array', ntf='array', ntef='array', fM=None, M=self.mat(n * K, n * K + sum(E), self.ea))
        self.ops.append(op)
        self.K, self.nr, self.nt, self.ntE = K, [n] * K, [n] * K, E
        pool = ['1', '1/4', '4', '9/16', '1/16'] if self.exact else ['1.0', '0.25', '4.0', '0.5', '2.0']
        for rep in range(rng.randint(2, 3)):
            P = [[rng.choice(pool) for _ in range(K)] for _ in range(K)]
            self.ops.append({'op': 'setpl', 'p': P, 'pe': [list(r) for r in P] if self.ext else None, 'scr': rng.chance(0.5)})
            self.ops.append({'op': 'pl'})
            w1 = self.mat(n, 1, self.ec)
            self.ops.append({'op': 'setw', 'w': [w1] * K, 'as_list': rng.chance(0.5), 'scr': rng.chance(0.5)})
            self.w_none, self.w_ok = False, True
            self.ops.append({'op': 'bigW'})
            x1 = self.mat(n, 2, self.eb)
            self.ops.append({'op': 'corrupt', 'x': [x1] * K, 'xe': [x1] * len(E), 'nseed': rng.below(1 << 31), 'ns': 2,
                             'xcont': 'objarr', 'scr': rng.chance(0.5)})
            self.ops.append({'op': 'ln'})
            self.ops.append({'op': rng.choice(['bigH', 'H'])})
            if rng.chance(0.5):
                op = self.init_op('init' if (rng.chance(0.5) or not self.exact or True) else 'rand', K, [n] * K, [n] * K, E)
                op.update(nrf='array', ntf='array', ntef='array', fM=None, M=self.mat(n * K, n * K + sum(E), self.ea),
                          scr=rng.chance(0.5))
                self.ops.append(op)

    def history(self, length):
        rng = self.rng
        if rng.chance(0.2):          # mutators on the fresh object, before any channel exists (R7)
            for _ in range(rng.randint(1, 3)):
                u = rng.uniform()
                if u < 0.4:
                    self.op_noise()
                elif u < 0.7:
                    self.ops.append({'op': 'setw', 'w': None})
                else:
                    self.ops.append({'op': 'setpl', 'p': None, 'pe': None, 'noarg': rng.chance(0.5)})
            self.ops = [dict(o, pre=True) for o in self.ops]
        self.op_init()
        while len(self.ops) < length:
            u = rng.uniform()
            if self.mode == 'plain' and rng.chance(0.02):
                self.op_close()
            elif self.roles and rng.chance(0.05):
                self.op_roles()
            elif u < 0.08:
                self.op_init()
            elif u < 0.11:
                self.op_resplit()
            elif u < 0.135:
                self.op_bad_init()
            elif u < 0.15:
                self.op_query()
            elif u < 0.162:
                self.op_fork()
            elif u < 0.175:
                self.op_bad_rand()
            elif u < 0.19:
                self.op_bad_setpl()
            elif u < 0.2:
                self.op_bad_corrupt()
            elif u < 0.37:
                self.op_setpl()
            elif u < 0.45:
                self.op_noise()
            elif u < 0.52:
                self.op_setw()
            elif u < 0.66:
                self.op_corrupt()
            else:
                for _ in range(rng.randint(1, 3)):
                    self.op_read()
        return self.ops


# ------------------------------------------------------------------ running the real code
class FakeRandn:
    """stand-in for util.misc.randn_c_RS: Gaussian integers from the object's own RandomState"""

    def __call__(self, RS, *shape):
        shape = tuple(int(s) for s in shape)
        return (RS.randint(-3, 4, shape) + 1j * RS.randint(-3, 4, shape)).astype(complex)


@contextlib.contextmanager
def patched_randn(active):
    mu = _impl()
    old = mu.randn_c_RS
    if active:
        mu.randn_c_RS = FakeRandn()
    try:
        yield
    finally:
        mu.randn_c_RS = old


def unjr(m, ncols):
    """real matrix from JSON, keeping the number of columns for zero rows"""
    if not m:
        return np.zeros((0, ncols), dtype=float)
    return np.array([[float(Fraction(x)) for x in row] for row in m], dtype=float).reshape(len(m), -1)


class Arg:
    """an array handed to the code under test: the object passed, the buffer it lives in, a snapshot"""

    def __init__(self, label, canon, fmt, pool=None):
        fmt = fmt or {}
        dt, lay = fmt.get('dt'), fmt.get('lay', 'C')
        b = np.array(canon)
        if dt is not None:
            if np.dtype(dt).kind in 'iuf' and np.iscomplexobj(b):
                if np.any(b.imag != 0):
                    raise core.Infra('generator: complex values for real dtype %s' % dt)
                b = b.real
            b = b.astype(dt)
            if not np.array_equal(b, canon):
                raise core.Infra('generator: value not representable in %s' % dt)
        self.base = None
        if b.ndim == 2 and lay == 'F':
            b = np.asfortranarray(b)
        elif b.ndim == 2 and lay == 'T':
            b = np.ascontiguousarray(b.T).T
        elif b.ndim == 2 and lay == 'strided':
            self.base = np.zeros((2 * b.shape[0] + 1, 2 * b.shape[1] + 1), dtype=b.dtype)
            self.base[1::2, 1::2] = b
            b = self.base[1::2, 1::2]
        elif b.ndim == 2 and lay == 'neg':
            self.base = np.ascontiguousarray(b[::-1, ::-1])
            b = self.base[::-1, ::-1]
        elif lay == 'bcast' and b.size > 0 and np.all(b == b.flat[0]):
            b = np.broadcast_to(np.array(b.flat[0]), b.shape)
        elif lay == 'list':
            b = b.tolist()
        if pool is not None and isinstance(b, np.ndarray) and self.base is None and lay == 'C' \
                and b.flags.writeable and b.flags.c_contiguous:
            b = pool.array(label, b)          # R16: the caller's ONE preallocated array, refilled in place
        self.label, self.obj = label, b
        self.snap = np.array(np.asarray(b))
        self.writeable = b.flags.writeable if isinstance(b, np.ndarray) else None

    def problems(self):
        out = []
        cur = np.asarray(self.obj)
        if cur.shape != self.snap.shape or not np.array_equal(cur, self.snap):
            out.append('input-modified:' + self.label)
        if isinstance(self.obj, np.ndarray) and self.obj.flags.writeable != self.writeable:
            out.append('input-flag-changed:' + self.label)
        return out

    def scribble(self):
        """the caller reuses its buffer after the call"""
        if self.base is not None and self.base.flags.writeable:
            self.base[...] = 77
        elif isinstance(self.obj, np.ndarray):
            if self.obj.flags.writeable:
                self.obj[...] = 77
        elif isinstance(self.obj, list):
            for row in self.obj:
                for j in range(len(row)):
                    row[j] = 77
        self.snap = np.array(np.asarray(self.obj))


class BufPool:
    """R16 - the caller's preallocated arrays.  ONE array per (shape, element type) whatever its role (a second one
    only when a single call needs two different contents of that shape), refilled in place (`buf[...] = new`)
    before every call; ONE container (list / object array) per role and length, its blocks reassigned in place.
    Two arguments of one call with equal contents are THE SAME array object (one object in two roles)."""

    def __init__(self):
        self.bufs = {}
        self.conts = {}
        self.begin_call()

    def begin_call(self):
        self.used = {}
        self.handed = []        # (key, buffer) handed out in this call
        self.conts_handed = []
        self.touched = set()    # id() of the arrays refilled for this call
        self.notes = []
        self.problems = []

    def array(self, label, a):
        key = (a.shape, a.dtype.str)
        for (k, b, lab) in self.handed:
            if k == key and np.array_equal(b, a):
                if lab.rstrip('0123456789') != label.rstrip('0123456789'):
                    self.notes.append('two-roles')
                else:
                    self.notes.append('same-block-twice')
                return b
        lst = self.bufs.setdefault(key, [])
        i = self.used.get(key, 0)
        self.used[key] = i + 1
        if i < len(lst):
            b = lst[i]
            if not b.flags.writeable:       # the library took the caller's array away
                self.problems.append('caller-array-made-read-only:' + label.rstrip('0123456789'))
                b = lst[i] = np.empty(a.shape, dtype=a.dtype)
            else:
                self.notes.append('refilled')
        else:
            b = np.empty(a.shape, dtype=a.dtype)
            lst.append(b)
        b[...] = a
        self.touched.add(id(b))
        self.handed.append((key, b, label))
        return b

    def container(self, role, kind, blocks):
        for (k_, c_) in self.conts_handed:
            if k_ == kind and len(c_) == len(blocks) and all(x is y for x, y in zip(c_, blocks)):
                self.notes.append('two-roles')
                return c_                 # e.g. corrupt_data(D, D)
        key = (role, kind, len(blocks))
        c = self.conts.get(key)
        if c is None:
            c = [None] * len(blocks) if kind == 'list' else np.empty(len(blocks), dtype=object)
            self.conts[key] = c
        else:
            self.notes.append('refilled')
        for i, b in enumerate(blocks):
            c[i] = b
        self.conts_handed.append((kind, c))
        return c


def nvec(vals, f, pool=None, label='N'):
    if pool is not None and f == 'array':
        return pool.array(label, np.array(vals, dtype=int))
    if f == 'pyint':
        return int(vals[0])
    if f == 'npint':
        return np.int64(vals[0])
    if f == 'arr0d':
        return np.array(int(vals[0]))           # a 0-d array is a scalar too
    if f == 'list':
        return [int(v) for v in vals]
    if f == 'tuple':
        return tuple(int(v) for v in vals)
    return np.array(vals, dtype=int if f == 'array' else f)


SCALAR_FORMS = {'py': int, 'np.int8': np.int8, 'np.int16': np.int16, 'np.int32': np.int32, 'np.int64': np.int64,
                'np.uint8': np.uint8, 'np.uint16': np.uint16, 'np.uint32': np.uint32, 'np.uint64': np.uint64,
                'np.intp': np.intp, 'arr0d': lambda v: np.array(int(v))}


def scalar(v, f):
    """an index / a count in one of the integer forms (R9)"""
    f = f or 'py'
    if f in ('np.int8',) and v > 127:
        f = 'np.int16'
    if f in ('np.uint8',) and v > 255:
        f = 'np.uint16'
    return SCALAR_FORMS[f](v)


def arrays_of(o):
    if isinstance(o, np.ndarray) and o.dtype == object:
        return [o[idx] for idx in np.ndindex(o.shape) if isinstance(o[idx], np.ndarray)]
    if isinstance(o, np.ndarray):
        return [o]
    if isinstance(o, (list, tuple)):
        return [x for x in o if isinstance(x, np.ndarray)]
    return []


def deep(o):
    if isinstance(o, np.ndarray) and o.dtype == object:
        c = np.empty(o.shape, dtype=object)
        for idx in np.ndindex(o.shape):
            c[idx] = np.array(o[idx])
        return c
    if isinstance(o, np.ndarray):
        return np.array(o)
    if isinstance(o, (list, tuple)):
        return [np.array(x) for x in o]
    return o


def do_op(ch, ext, op, rec, args, pool=None):
    """one operation of a history on the real object `ch` (positional or keyword arguments, R8); `pool` (R16): the
    arrays reach the object through the caller's refilled buffers"""
    kind = op['op']
    kw = bool(op.get('kw'))

    def call(fn, vals, names):
        return fn(**dict(zip(names, vals))) if kw else fn(*vals)
    if True:
        if kind in ('init', 'rand'):
            nr, nt, K, ntE = op['nr'], op['nt'], op['K'], op['ntE']
            Nr, Nt = nvec(nr, op.get('nrf', 'array'), pool, 'Nr'), nvec(nt, op.get('ntf', 'array'), pool, 'Nt')
            NtE = nvec(ntE, op.get('ntef', 'array'), pool, 'NtE') if ext else None
            Kv = scalar(K, op.get('kf', 'py'))
            if kind == 'init':
                a = Arg('channel_matrix', unj(op['M'], sum(nt) + sum(ntE)), op.get('fM'), pool)
                args.append(a)
                if ext:
                    call(ch.init_from_channel_matrix, [a.obj, Nr, Nt, Kv, NtE],
                         ['channel_matrix', 'Nr', 'Nt', 'K', 'NtE'])
                else:
                    call(ch.init_from_channel_matrix, [a.obj, Nr, Nt, Kv], ['channel_matrix', 'Nr', 'Nt', 'K'])
            else:
                if op.get('reseed'):
                    ch.re_seed()                  # == set_channel_seed(None); set_noise_seed(None)
                else:
                    call(ch.set_channel_seed, [op['seed']], ['seed'])
                if ext:
                    call(ch.randomize, [Nr, Nt, Kv, NtE], ['Nr', 'Nt', 'K', 'NtE'])
                else:
                    call(ch.randomize, [Nr, Nt, Kv], ['Nr', 'Nt', 'K'])
            rec['raw'] = np.array(ch._big_H_no_pathloss)
        elif kind == 'setpl':
            if op['p'] is None:
                if op.get('noarg'):
                    ch.set_pathloss()
                elif ext:
                    call(ch.set_pathloss, [None, None], ['pathloss_matrix', 'ext_int_pathloss'])
                else:
                    call(ch.set_pathloss, [None], ['pathloss_matrix'])
            else:
                ncol = len(op['p'][0]) if op['p'] else 0
                a = Arg('pathloss_matrix', unjr(op['p'], ncol), op.get('fp'), pool)
                args.append(a)
                if ext:
                    ne = len(op['pe'][0]) if op['pe'] else 0
                    b = Arg('ext_int_pathloss', unjr(op['pe'], ne), op.get('fpe'), pool)
                    args.append(b)
                    call(ch.set_pathloss, [a.obj, b.obj], ['pathloss_matrix', 'ext_int_pathloss'])
                else:
                    call(ch.set_pathloss, [a.obj], ['pathloss_matrix'])
        elif kind == 'noise':
            if op['v'] is None:
                ch.noise_var = None
            else:
                v = float(Fraction(op['v']))
                vf = op.get('vf', 'float')
                ch.noise_var = {'float': float, 'int': int, 'np.float32': np.float32,
                                'np.float16': np.float16, 'np.int8': np.int8,
                                'arr0d': lambda t: np.array(float(t))}[vf](v)
        elif kind == 'setw':
            if op['w'] is None:
                call(ch.set_post_filter, [None], ['filters'])
            else:
                fws = op.get('fws') or [op.get('fw')] * len(op['w'])
                ws = [Arg('filter%d' % i, unj(w), fws[i], pool) for i, w in enumerate(op['w'])]
                args += ws
                objs = [w.obj for w in ws]
                as_list = op.get('as_list') or any(isinstance(o, list) for o in objs)
                if pool is not None:
                    fl = pool.container('filters', 'list' if as_list else 'objarr', objs)
                else:
                    fl = objs if as_list else objarr(objs)
                call(ch.set_post_filter, [fl], ['filters'])
        elif kind == 'H':
            rec['out'] = ch.H
        elif kind == 'bigH':
            rec['out'] = ch.big_H
        elif kind == 'Hkl':
            rec['out'] = call(ch.get_Hkl, [scalar(op['k'], op.get('kf')), scalar(op['l'], op.get('kf'))], ['k', 'l'])
        elif kind == 'Hk':
            k = scalar(op['k'], op.get('kf'))
            rec['out'] = call(ch.get_Hk_with_ext_int if op.get('alt') else ch.get_Hk, [k], ['k'])
        elif kind == 'bigHne':
            rec['out'] = ch.big_H_no_ext_int
        elif kind == 'Hkne':
            rec['out'] = call(ch.get_Hk_without_ext_int, [scalar(op['k'], op.get('kf'))], ['k'])
        elif kind == 'Hne':
            rec['out'] = ch.H_no_ext_int
        elif kind == 'layout':
            rec['out'] = ('layout', int(ch.K), [int(v) for v in np.atleast_1d(ch.Nr)],
                          [int(v) for v in np.atleast_1d(ch.Nt)],
                          [int(v) for v in np.atleast_1d(ch.extIntNt)] if ext else [],
                          int(ch.extIntK) if ext else 0)
        elif kind == 'pl':
            rec['out'] = ('opt', ch.pathloss)
        elif kind == 'bigW':
            bw = ch.big_W
            w = ch.W
            rec['out'] = ('opt', bw)
            rec['W'] = None if w is None else [np.array(x) for x in w]
        elif kind == 'nv':
            rec['out'] = ('sc', ch.noise_var)
        elif kind == 'ln':
            rec['out'] = ('opt', ch.last_noise)
        elif kind in ('corrupt', 'corruptc'):
            call(ch.set_noise_seed, [op['nseed']], ['seed'])
            ns = op.get('ns')
            nb = len(op['x']) + len(op['xe'])
            fxs = op.get('fxs') or [op.get('fx')] * nb
            xs = [Arg('data%d' % i, unj(m) if ns is None else unj(m).reshape(len(m), ns), fxs[i], pool)
                  for i, m in enumerate(op['x'])]
            xes = [Arg('ext_data%d' % i, unj(m) if ns is None else unj(m).reshape(len(m), ns),
                       fxs[len(op['x']) + i], pool) for i, m in enumerate(op['xe'])]
            args += xs + xes
            if kind == 'corruptc':
                # the caller stacks (numpy promotes over all blocks) and may pass any layout
                big = Arg('data', np.vstack([np.asarray(a.obj) for a in xs + xes]),
                          {'dt': None, 'lay': (op.get('fx') or {}).get('lay', 'C')}, pool)
                args[:] = [a_ for a_ in args if a_ not in xs + xes] + [big]
                rec['out'] = call(ch.corrupt_concatenated_data, [big.obj], ['data'])
            else:
                # what corrupt_data hands to corrupt_concatenated_data (the stacked transmit data)
                seen = []
                inner = ch.corrupt_concatenated_data

                def spy(data, _inner=inner, _seen=seen):
                    _seen.append(np.array(data))
                    return _inner(data)
                ch.corrupt_concatenated_data = spy
                try:
                    cont = {'objarr': objarr, 'list': list, 'tuple': tuple}[op.get('xcont', 'objarr')]
                    if pool is not None and ext:
                        rec['out'] = call(ch.corrupt_data,
                                          [pool.container('data', 'objarr', [a.obj for a in xs]),
                                           pool.container('ext_int_data', 'objarr', [a.obj for a in xes])],
                                          ['data', 'ext_int_data'])
                    elif pool is not None:
                        kind_ = 'objarr' if op.get('xcont', 'objarr') == 'objarr' else 'list'
                        rec['out'] = call(ch.corrupt_data, [pool.container('data', kind_, [a.obj for a in xs])],
                                          ['data'])
                    elif ext:
                        rec['out'] = call(ch.corrupt_data, [objarr([a.obj for a in xs]),
                                                            objarr([a.obj for a in xes])], ['data', 'ext_int_data'])
                    else:
                        rec['out'] = call(ch.corrupt_data, [cont([a.obj for a in xs])], ['data'])
                finally:
                    del ch.corrupt_concatenated_data
                    rec['stacked'] = seen[0] if seen else None
        elif kind == 'query':
            # R11: public methods that are not setters (their values belong to other properties): whatever they
            # return or raise, the channel must be what it was
            import copy
            import pickle
            K = int(ch.K)
            Nr, Nt = np.atleast_1d(ch.Nr), np.atleast_1d(ch.Nt)
            Fs = [Arg('F%d' % k, np.ones((int(Nt[k]), 1), dtype=complex) * (1 + k + 1j), None) for k in range(K)]
            Us = [Arg('U%d' % k, np.ones((int(Nr[k]), 1), dtype=complex) * (2 - k * 1j), None) for k in range(K)]
            args += Fs + Us
            F, U = objarr([a.obj for a in Fs]), objarr([a.obj for a in Us])
            which = op['which']
            try:
                if which == 'calc_Q':
                    ch.calc_Q(op['k'] % max(K, 1), F, *([0.5] if ext else []))
                elif which == 'calc_JP_Q':
                    ch.calc_JP_Q(op['k'] % max(K, 1), F, *([0.5] if ext else []))
                elif which == 'calc_SINR':
                    ch.calc_SINR(F, U, *([0.5] if ext else []))
                elif which == 'calc_JP_SINR':
                    ch.calc_JP_SINR(F, U, *([0.5] if ext else []))
                elif which == 'cov_extint':
                    ch.calc_cov_matrix_extint_without_noise(pe=0.5)
                    ch.calc_cov_matrix_extint_plus_noise(pe=0.5)
                elif which == 'copy':
                    copy.copy(ch)
                elif which == 'deepcopy':
                    copy.deepcopy(ch)
                elif which == 'pickle':
                    pickle.loads(pickle.dumps(ch))
                elif which == 'repr':
                    repr(ch), str(ch), ch == ch, hash(ch)
            except Exception as e:   # noqa: the value (or failure) of the query is not part of this property
                rec['qexc'] = type(e).__name__
        else:
            raise core.Infra('unknown op %r' % kind)


def detach(rec):
    o = rec['out']
    if isinstance(o, tuple):
        rec['out'] = (o[0], deep(o[1])) + tuple(o[2:]) if o[0] in ('opt',) else o
    elif o is not None:
        rec['out'] = deep(o)


def run_child(ch, ext, op):
    """R13: an object derived from the channel (copy / deepcopy / pickle round trip) is used and mutated on its
    own; returns the records of the operations done on the child"""
    import copy
    import pickle
    how = op['how']
    child = {'copy': copy.copy, 'deepcopy': copy.deepcopy,
             'pickle': lambda c: pickle.loads(pickle.dumps(c))}[how](ch)
    crecs = []
    for cop in op['child']:
        crec = {'out': None, 'exc': None, 'r3': []}
        try:
            do_op(child, ext, cop, crec, [])
        except core.Infra:
            raise
        except Exception as e:   # noqa
            crec['exc'] = type(e).__name__
            crec['msg'] = str(e)[:160]
        if cop['op'] in ('corrupt', 'corruptc'):
            ln = child.last_noise
            crec['noise'] = None if ln is None else np.array(ln)
        detach(crec)
        crecs.append(crec)
    return crecs


def run_impl(case, want_obj=False):
    """Execute a history on the real class.  One record per op: {'out', 'exc', 'raw', 'noise', 'r3': [...]}"""
    mu = _impl()
    exact = case.get('stream', 'exact') == 'exact'
    ext = case['cls'] == 'ext'
    recs = []
    inputs = []        # Arg objects of the recent calls (R3: must stay what the caller made them)
    outputs = []       # (label, arrays returned, their values at return time)
    pool = BufPool() if case.get('reuse') else None     # R16
    with patched_randn(exact):
        ch = mu.MultiUserChannelMatrixExtInt() if ext else mu.MultiUserChannelMatrix()
        for op in case['ops']:
            rec = {'out': None, 'exc': None, 'r3': []}
            kind = op['op']
            args = []
            if pool is not None:
                pool.begin_call()
            try:
                if kind == 'fork':
                    rec['child'] = run_child(ch, ext, op)
                else:
                    do_op(ch, ext, op, rec, args, pool)
            except core.Infra:
                raise
            except Exception as e:   # noqa: an exception is an observable result of the op
                rec['exc'] = type(e).__name__
                rec['msg'] = str(e)[:160]
            if kind in ('corrupt', 'corruptc'):
                ln = ch.last_noise
                rec['noise'] = None if ln is None else np.array(ln)
            # ---- R3: inputs stay the caller's, earlier outputs stay what they were
            o = rec['out']
            val = o[1] if isinstance(o, tuple) and o[0] in ('opt', 'sc') else o
            returned = arrays_of(val) if not isinstance(o, tuple) or o[0] == 'opt' else []
            if pool is not None:
                # the arrays of earlier calls that the caller has just refilled are no longer those calls' inputs
                inputs = [a for a in inputs if id(a.obj) not in pool.touched]
                rec['r3'] += ['r16:' + p_ for p_ in pool.problems]
                rec['r16'] = sorted(set(pool.notes))
            inputs += args
            inputs = inputs[-12:]
            for a in inputs:
                rec['r3'] += a.problems()
            for (lab, arrs, vals) in outputs:
                for x, v in zip(arrs, vals):
                    if x.shape != v.shape or not np.array_equal(x, v):
                        rec['r3'].append('earlier-output-changed:' + lab)
                        break
            for r in returned:
                for a in inputs:
                    tgt = a.base if a.base is not None else a.obj
                    if isinstance(tgt, np.ndarray) and r.size and tgt.size and np.may_share_memory(r, tgt):
                        rec['r3'].append('output-aliases-input:' + a.label)
            rec['r3'] = sorted(set(rec['r3']))
            for a in inputs:                 # report each once
                a.snap = np.array(np.asarray(a.obj))
                if isinstance(a.obj, np.ndarray):
                    a.writeable = a.obj.flags.writeable
            # detach the value that is compared from the object's memory
            if isinstance(o, tuple):
                rec['out'] = (o[0], deep(o[1])) + tuple(o[2:]) if o[0] in ('opt',) else o
            elif o is not None:
                rec['out'] = deep(o)
            if returned:
                outputs.append((kind, returned, [np.array(r) for r in returned]))
                outputs = outputs[-8:]
            # ---- the caller scribbles on its own buffers / on what it was given
            if op.get('scr'):
                for a in args:
                    a.scribble()
                for r in returned:
                    if r.flags.writeable:
                        try:
                            r[...] = 55
                        except (ValueError, TypeError):
                            pass
                outputs = [(lab, arrs, [np.array(x) for x in arrs]) for (lab, arrs, _) in outputs]
            recs.append(rec)
    return (recs, ch) if want_obj else recs


# ------------------------------------------------------------------ tokens compared with the model
def opt_tok(v, as_scalar=False):
    if v is None:
        return 'none'
    if as_scalar:
        return c_tok(v)
    v = np.asarray(v)
    return mat_tok(v if v.ndim == 2 else v.reshape(1, -1))


def impl_token(op, rec):
    kind = op['op']
    r3 = '+R3:' + ','.join(rec['r3']) if rec.get('r3') else ''
    if rec['exc']:
        return 'err:' + rec['exc'] + r3
    if kind in MUTATORS or kind == 'query':
        return 'unit' + r3
    o = rec['out']
    if kind in ('H', 'Hne'):
        t = 'mom=' + mom_tok(o)
    elif kind == 'corrupt':
        t = 'rx=' + mats_tok(list(o)) + '@' + ('none' if rec['noise'] is None else mat_tok(rec['noise']))
    elif kind == 'corruptc':
        t = 'rx=' + mat_tok(o) + '@' + ('none' if rec['noise'] is None else mat_tok(rec['noise']))
    elif kind == 'layout':
        t = 'lay=%d;%s;%s;%s' % (o[1], nats_tok(o[2]), nats_tok(o[3]), nats_tok(o[4]))
        if o[5] != len(o[4]):
            t += ';extIntK=%d' % o[5]
    elif kind in ('pl', 'bigW', 'ln'):
        t = 'opt=' + opt_tok(o[1])
    elif kind == 'nv':
        t = 'sc=' + opt_tok(o[1], as_scalar=True)
    else:
        t = 'mat=' + mat_tok(o)
    return t + r3


def rows_tok(rows):
    """real matrix given as rows of fraction strings"""
    if not rows:
        return '_'
    return ';'.join('~' if not row else ','.join(fr_tok(Fraction(x)) for x in row) for row in rows)


def jm_tok(m):
    """complex matrix given as rows of [re, im] fraction strings (exact: no float round trip)"""
    if not m:
        return '_'
    return ';'.join('~' if not row else ','.join(fr_tok(Fraction(a)) + ':' + fr_tok(Fraction(b)) for a, b in row)
                    for row in m)


def model_line(case, recs):
    """the same history as one request line of the Lean driver; ops marked `oracle_only` (rejections the
    model has no rule for) are left out: a rejected call is a no-op"""
    toks = ['run', 'cls=' + case['cls'], 'cfg=' + case.get('cfg', CFG)]
    idx = []
    for j, (op, rec) in enumerate(zip(case['ops'], recs)):
        kind = op['op']
        if op.get('oracle_only') or kind == 'fork':
            continue
        if kind == 'corrupt' and not op.get('expect'):
            # the stacked transmit data that corrupt_data hands on (model op `stackData`)
            idx.append((j, 'stack'))
            toks.append('stack!%s!%s' % ('|'.join(jm_tok(m) for m in op['x']) or '#',
                                         '|'.join(jm_tok(m) for m in op['xe']) or '#'))
        idx.append((j, 'main'))
        if kind in ('init', 'rand'):
            if kind == 'init':
                M = jm_tok(op['M'])
            else:
                M = mat_tok(rec['raw']) if (rec.get('raw') is not None and not rec['exc']) else '_'
            toks.append('!'.join([kind, M, nats_tok(op['nr']), nats_tok(op['nt']), str(op['K']), nats_tok(op['ntE'])]))
        elif kind == 'setpl':
            if op['p'] is None:
                toks.append('setpl!none!_')
            else:
                toks.append('setpl!%s!%s' % (rows_tok(op['p']), rows_tok(op['pe']) if op.get('pe') is not None else '_'))
        elif kind == 'noise':
            toks.append('noise!' + ('none' if op['v'] is None else fr_tok(Fraction(op['v']))))
        elif kind == 'setw':
            toks.append('setw!' + ('none' if op['w'] is None else '|'.join(jm_tok(w) for w in op['w'])))
        elif kind == 'Hkl':
            toks.append('Hkl!%d!%d' % (op['k'], op['l']))
        elif kind in ('Hk', 'Hkne'):
            toks.append('%s!%d' % (kind, op['k']))
        elif kind in ('corrupt', 'corruptc'):
            n = rec.get('noise')
            ntok = 'none' if n is None else mat_tok(n)
            if kind == 'corrupt':
                toks.append('corrupt!%s!%s!%s' % ('|'.join(jm_tok(m) for m in op['x']) or '#',
                                                  '|'.join(jm_tok(m) for m in op['xe']) or '#', ntok))
            else:
                rows = [row for m in (op['x'] + op['xe']) for row in m]
                toks.append('corruptc!%s!%s' % (jm_tok(rows), ntok))
        else:
            toks.append(kind)
    return ' '.join(toks), idx


# ------------------------------------------------------------------ first-principles oracle
class Shadow:
    """What the property promises, computed from the raw matrix and the LAST accepted arguments only."""

    def __init__(self, ext):
        self.ext = ext
        self.raw = None
        self.nr, self.nt, self.ntE, self.K = [], [], [], 0
        self.pl = None
        self.W = None
        self.nv = None
        self.ln = None

    @property
    def ntf(self):
        return list(self.nt) + list(self.ntE)

    def relayout(self, raw, nr, nt, K, ntE):
        self.raw, self.nr, self.nt, self.K, self.ntE = raw, list(nr), list(nt), K, list(ntE)
        if self.pl is not None and self.pl.shape != (K, K + len(ntE)):
            self.pl = None      # a path loss given for another number of links cannot apply

    def gain(self, k, l):
        return 1.0 if self.pl is None else math.sqrt(self.pl[k, l])

    def Hkl(self, k, l):
        r0, c0 = sum(self.nr[:k]), sum(self.ntf[:l])
        return self.raw[r0:r0 + self.nr[k], c0:c0 + self.ntf[l]] * self.gain(k, l)

    def Hk(self, k, users_only=False):
        L = self.K if users_only else len(self.ntf)
        return np.concatenate([self.Hkl(k, l) for l in range(L)], axis=1)

    def bigH(self, users_only=False):
        return np.concatenate([self.Hk(k, users_only) for k in range(self.K)], axis=0)

    def bigW(self):
        if self.W is None:
            return None
        R, C = sum(w.shape[0] for w in self.W), sum(w.shape[1] for w in self.W)
        B = np.zeros((R, C), dtype=complex)
        r0 = c0 = 0
        for w in self.W:
            B[r0:r0 + w.shape[0], c0:c0 + w.shape[1]] = w
            r0, c0 = r0 + w.shape[0], c0 + w.shape[1]
        return B

    def received(self, xs, noise, split=True):
        """per receiver: sum over links of gain * H_kl x_l, plus its rows of the noise; then the filters"""
        ys = []
        for k in range(self.K):
            acc = None
            for l in range(len(self.ntf)):
                t = self.Hkl(k, l) @ xs[l]
                acc = t if acc is None else acc + t
            if noise is not None:
                r0 = sum(self.nr[:k])
                acc = acc + noise[r0:r0 + self.nr[k], :]
            ys.append(acc)
        stacked = np.concatenate(ys, axis=0)
        if self.W is not None:
            outs, r0 = [], 0
            for w in self.W:
                outs.append(w.conj().T @ stacked[r0:r0 + w.shape[0], :])
                r0 += w.shape[0]
            stacked = np.concatenate(outs, axis=0)
        if not split:
            return stacked
        ys, r0 = [], 0
        for k in range(self.K):      # "split per receiver by its antenna count"
            ys.append(stacked[r0:r0 + self.nr[k], :])
            r0 += self.nr[k]
        return ys


def same(a, b, exact):
    """exact stream: equal values; float stream: equal RELATIVE to the scale of the expected value (R6)"""
    if a is None or b is None:
        return a is None and b is None
    a, b = np.asarray(a), np.asarray(b)
    if a.shape != b.shape:
        return False
    if a.dtype == object or b.dtype == object:
        return False
    if exact:
        return bool(np.array_equal(a, b))
    if a.size == 0:
        return True
    scale = float(np.max(np.abs(b)))
    return bool(np.all(np.abs(a - b) <= 1e-9 * scale)) if scale > 0 else bool(np.all(a == 0))


def eqv(va, vb, exact):
    if va is None or vb is None:
        return va is None and vb is None
    if isinstance(va, np.ndarray) or isinstance(vb, np.ndarray):
        return same(va, vb, exact)
    if isinstance(vb, list):
        return list(va) == vb
    return float(va) == float(vb)


def block_pattern(op):
    """element-type pattern of a list-of-arrays argument: which blocks are real, which complex"""
    fs = op.get('fxs') or op.get('fws')
    blocks = (op.get('x') or []) + (op.get('xe') or []) if op.get('fxs') else (op.get('w') or [])
    if not fs or not blocks:
        return 'uniform'
    real = [all(Fraction(z[1]) == 0 for row in b for z in row) and (f or {}).get('dt') not in (None, 'complex64')
            for b, f in zip(blocks, fs)]
    if all(real) or not any(real):
        return 'uniform'
    if real[0] and not any(real[1:]):
        return 'first-real-later-complex'
    if not real[0] and all(real[1:]):
        return 'first-complex-later-real'
    return 'real-first-mixed' if real[0] else 'complex-first-mixed'


def op_tags(op, case):
    """R-classes an operation belongs to (computed from the input)"""
    t = set()
    fm = [op.get(k) for k in ('fM', 'fp', 'fpe', 'fw', 'fx') if op.get(k)] + \
        [f for f in (op.get('fxs') or []) + (op.get('fws') or []) if f]
    if any(f.get('dt') for f in fm) or op.get('nrf', 'array') not in ('array',) or op.get('ntf', 'array') != 'array' \
            or op.get('kf', 'py') != 'py' or op.get('vf', 'float') != 'float' or op.get('ntef', 'array') != 'array':
        t.add('R1')
    if any(f.get('lay', 'C') != 'C' for f in fm):
        t.add('R2')
    if op.get('scr'):
        t.add('R3')
    if op.get('expect'):
        t.add('R4')
    if case.get('mode') == 'scaled':
        t.add('R6')
    if op.get('close'):
        t.add('R15')
    if case.get('reuse'):
        t.add('R16')
    if op['op'] in ('layout', 'pl', 'bigW', 'nv', 'ln', 'corruptc') or op.get('alt') or op.get('pre') \
            or op.get('noarg'):
        t.add('R7')
    if op['op'] in ('corrupt', 'corruptc') and op.get('ns') == 0:
        t.add('R5')
    if op['op'] == 'noise' and op.get('v') is not None and Fraction(op['v']) == 0:
        t.add('R5')
    if op['op'] == 'setpl' and op.get('p') and any(Fraction(x) == 0 for row in op['p'] for x in row):
        t.add('R5')
    if op['op'] in ('init', 'rand') and op['K'] == 1:
        t.add('R5')
    return t


CALLS = {'init': 'init_from_channel_matrix', 'rand': 'randomize', 'setpl': 'set_pathloss', 'noise': 'noise_var',
         'setw': 'set_post_filter', 'H': 'H', 'bigH': 'big_H', 'Hkl': 'get_Hkl', 'Hk': 'get_Hk',
         'bigHne': 'big_H_no_ext_int', 'Hkne': 'get_Hk_without_ext_int', 'Hne': 'H_no_ext_int',
         'corrupt': 'corrupt_data', 'corruptc': 'corrupt_concatenated_data', 'layout': 'K/Nr/Nt', 'pl': 'pathloss',
         'bigW': 'big_W', 'nv': 'noise_var.get', 'ln': 'last_noise', 'query': 'query', 'fork': 'copy'}


def observe(ch, ext, sh, exact):
    """every public observable of an object (used for the fresh-twin comparison, R7)"""
    obs = {'K': int(ch.K), 'Nr': [int(v) for v in np.atleast_1d(ch.Nr)], 'Nt': [int(v) for v in np.atleast_1d(ch.Nt)],
           'big_H': np.array(ch.big_H), 'pathloss': None if ch.pathloss is None else np.array(ch.pathloss),
           'noise_var': ch.noise_var, 'big_W': None if ch.big_W is None else np.array(ch.big_W)}
    H = ch.H
    Kt = len(sh.ntf)
    few = sh.K * Kt > 400      # many users: every block of H, but get_Hkl / get_Hk at the corners only
    ks = sorted({0, sh.K // 2, sh.K - 1}) if few else range(sh.K)
    for k in range(sh.K):
        if k in ks:
            obs['Hk%d' % k] = np.array(ch.get_Hk(k))
        for l in range(Kt):
            obs['H%d,%d' % (k, l)] = np.array(H[k, l])
            if not few or (k in ks and l in (0, Kt // 2, Kt - 1)):
                obs['Hkl%d,%d' % (k, l)] = np.array(ch.get_Hkl(k, l))
    if ext:
        obs['extIntK'] = int(ch.extIntK)
        obs['big_H_no_ext_int'] = np.array(ch.big_H_no_ext_int)
        Hn = ch.H_no_ext_int
        for k in range(sh.K):
            for l in range(sh.K):
                obs['Hne%d,%d' % (k, l)] = np.array(Hn[k, l])
    w_fits = sh.W is None or [w.shape[0] for w in sh.W] == list(sh.nr)
    if w_fits and sh.K > 0:
        xs = [np.ones((n, 2), dtype=complex) * (1 + i) for i, n in enumerate(sh.ntf)]
        ch.set_noise_seed(12345)
        if ext:
            out = ch.corrupt_data(objarr(xs[:sh.K]), objarr(xs[sh.K:]))
        else:
            out = ch.corrupt_data(objarr(xs))
        for k in range(sh.K):
            obs['rx%d' % k] = np.array(out[k])
        obs['last_noise'] = None if ch.last_noise is None else np.array(ch.last_noise)
    return obs


def fresh_twin(case, sh):
    """a new object given the CURRENT configuration by the shortest route"""
    mu = _impl()
    ext = case['cls'] == 'ext'
    tw = mu.MultiUserChannelMatrixExtInt() if ext else mu.MultiUserChannelMatrix()
    if ext:
        tw.init_from_channel_matrix(np.array(sh.raw), np.array(sh.nr), np.array(sh.nt), sh.K, np.array(sh.ntE))
        if sh.pl is not None:
            tw.set_pathloss(np.array(sh.pl[:, :sh.K]), np.array(sh.pl[:, sh.K:]))
    else:
        tw.init_from_channel_matrix(np.array(sh.raw), np.array(sh.nr), np.array(sh.nt), sh.K)
        if sh.pl is not None:
            tw.set_pathloss(np.array(sh.pl))
    if sh.W is not None:
        tw.set_post_filter([np.array(w) for w in sh.W])
    tw.noise_var = sh.nv
    return tw


def oracle_history(case):
    """Returns the list of violations [(index, call, class, detail)] of the property on the real code."""
    exact = case.get('stream', 'exact') == 'exact'
    ext = case['cls'] == 'ext'
    with patched_randn(exact):
        recs, ch = run_impl(case, want_obj=True)
        sh = Shadow(ext)
        out = []
        cls_tag = 'ext' if ext else 'plain'
        ops_main = case['ops']

        def walk(ops, recs, sh, base_i=None):
            """check one object's records against its shadow; False = stop (object out of sync)"""
            cur = [None]
            trig, trig_c = None, None      # index of the latest change of channel / path loss (and filter)
            cached = set()
            read_since = {}

            def klass(base, i, for_corrupt=False):
                t = op_tags(cur[0], case)
                j = trig_c if for_corrupt else trig
                after = 'new'
                if j is not None:
                    t |= op_tags(j, case)
                    after = {'init': 'relayout', 'rand': 'relayout'}.get(j['op'], j['op'])
                    if j.get('expect'):
                        after = 'rejected-' + j['op']
                pre = '' if base_i is None else 'derived-object:'
                return '%s%s:%s:after-%s%s' % (pre, base, cls_tag, after, ('|' + ','.join(sorted(t))) if t else '')

            for i0, (op, rec) in enumerate(zip(ops, recs)):
                i = i0 if base_i is None else base_i
                cur[0] = op
                kind = op['op']
                call = CALLS[kind] if base_i is None else 'copy:' + CALLS[kind]
                exp_exc = op.get('expect')
                for r in rec.get('r3', []):
                    out.append((i, call, 'r3:%s:%s' % (r, cls_tag), 'R3: ' + r))
                if rec['exc'] != exp_exc:
                    if rec['exc']:
                        tags = ','.join(sorted(op_tags(op, case)))
                        out.append((i, call, 'exception:%s:%s:%s%s' % (rec['exc'], cls_tag,
                                                                       'pathloss' if sh.pl is not None else 'no-pathloss',
                                                                       ('|' + tags) if tags else ''),
                                    rec.get('msg', '')))
                    else:
                        out.append((i, call, 'no-exception:%s:%s' % (exp_exc, cls_tag), 'expected ' + exp_exc))
                    if kind in MUTATORS or kind in ('corrupt', 'corruptc'):
                        return False  # the object is no longer in the state the history assumes
                    continue
                if exp_exc:
                    if kind in ('init', 'rand', 'setpl', 'setw', 'noise', 'corrupt', 'corruptc'):
                        trig = trig_c = op          # whatever is wrong after a rejected call is charged to it
                    continue
                if kind == 'query':
                    continue          # nothing changes (the reads that follow are compared as usual)
                if kind == 'fork':
                    if rec.get('child') is not None:
                        import copy
                        walk(op['child'], rec['child'], copy.deepcopy(sh), base_i=i)
                    continue
                if kind in ('init', 'rand'):
                    raw = rec['raw']
                    want = (sum(op['nr']), sum(op['nt']) + sum(op['ntE']))
                    if raw.shape != want:
                        out.append((i, call, 'raw-shape:%s%s' % (cls_tag, ('|' + ','.join(sorted(op_tags(op, case)))) if op_tags(op, case) else ''),
                                    'raw %s expected %s' % (raw.shape, want)))
                        return False      # nothing more can be promised about this object
                    if kind == 'init' and not same(raw, unj(op['M'], want[1]), True):
                        out.append((i, call, 'raw-differs:%s' % cls_tag, 'stored matrix is not the argument'))
                    sh.relayout(np.array(raw, dtype=complex), op['nr'], op['nt'], op['K'], op['ntE'])
                elif kind == 'setpl':
                    if op['p'] is None:
                        sh.pl = None
                    else:
                        p = unjr(op['p'], len(op['p'][0]))
                        sh.pl = np.hstack([p, unjr(op['pe'], len(op['pe'][0]) if op['pe'] else 0)]) if ext else p
                elif kind == 'noise':
                    sh.nv = None if op['v'] is None else float(Fraction(op['v']))
                elif kind == 'setw':
                    sh.W = None if op['w'] is None else [unj(w) for w in op['w']]
                if kind in MUTATORS:
                    if kind in ('init', 'rand', 'setpl'):
                        trig = trig_c = op
                        cached |= {v for v, r in read_since.items() if r}
                        read_since = {}
                    elif kind == 'setw':
                        trig_c = op
                    continue
                # ---- reads
                if sh.raw is None and kind not in ('nv', 'ln', 'pl', 'bigW'):
                    continue          # no channel was ever accepted: nothing is promised about the views
                got = rec['out']
                bad = None
                K, Kt = sh.K, len(sh.ntf)
                if kind in ('H', 'Hne'):
                    cols = Kt if kind == 'H' else K
                    if not (isinstance(got, np.ndarray) and got.shape == (K, cols)):
                        bad = 'shape %s expected %s' % (getattr(got, 'shape', None), (K, cols))
                    else:
                        for k in range(K):
                            for l in range(cols):
                                if bad is None and not same(got[k, l], sh.Hkl(k, l), exact):
                                    bad = 'block (%d,%d) differs from raw block * sqrt(current path loss)' % (k, l)
                elif kind == 'bigH':
                    bad = None if same(got, sh.bigH(), exact) else 'differs from raw * sqrt(current path loss)'
                elif kind == 'Hkl':
                    bad = None if same(got, sh.Hkl(op['k'], op['l']), exact) else 'differs from the scaled raw block'
                elif kind == 'Hk':
                    bad = None if same(got, sh.Hk(op['k']), exact) else 'differs from the scaled raw row block'
                elif kind == 'bigHne':
                    bad = None if same(got, sh.bigH(True), exact) else 'differs from the user columns of the scaled matrix'
                elif kind == 'Hkne':
                    bad = None if same(got, sh.Hk(op['k'], True), exact) else 'differs from the user columns of the row block'
                elif kind == 'layout':
                    want = ('layout', sh.K, list(sh.nr), list(sh.nt), list(sh.ntE), len(sh.ntE))
                    bad = None if tuple(got) == want else 'K/Nr/Nt/extIntNt are %s, the configuration is %s' % (got[1:], want[1:])
                elif kind == 'pl':
                    bad = None if same(got[1], sh.pl, True) else 'pathloss is not (bit for bit) the matrix set last'
                elif kind == 'bigW':
                    bad = None if same(got[1], sh.bigW(), exact) else 'big_W is not block_diag of the filters set last'
                    if bad is None and (rec.get('W') is None) != (sh.W is None):
                        bad = 'W presence'
                    if bad is None and sh.W is not None and not all(same(a, b, exact) for a, b in zip(rec['W'], sh.W)):
                        bad = 'W is not the list of filters set last'
                elif kind == 'nv':
                    g = got[1]
                    bad = None if ((g is None) == (sh.nv is None) and (g is None or float(g) == sh.nv)) \
                        else 'noise_var is %r, set last: %r' % (g, sh.nv)
                elif kind == 'ln':
                    bad = None if same(got[1], sh.ln, exact) else 'last_noise is not the noise of the last transmission'
                elif kind in ('corrupt', 'corruptc'):
                    noise = rec['noise']
                    ns = op.get('ns', len(op['x'][0][0]) if op['x'] and op['x'][0] else 0)
                    xs = [unj(m).reshape(len(m), ns) for m in op['x']] + [unj(m).reshape(len(m), ns) for m in op['xe']]
                    if (noise is None) != (sh.nv is None):
                        out.append((i, 'last_noise' if base_i is None else 'copy:last_noise', klass('presence', i, True),
                                    'last_noise is %s but noise_var is %s' % ('None' if noise is None else 'set', sh.nv)))
                    elif noise is not None and noise.shape != (sum(sh.nr), ns):
                        out.append((i, 'last_noise' if base_i is None else 'copy:last_noise', klass('shape', i, True),
                                    'last_noise shape %s' % (noise.shape,)))
                    else:
                        sh.ln = noise
                        if kind == 'corrupt' and 'stacked' in rec:
                            stacked = rec['stacked']
                            rows = [row for x_ in xs for row in x_]
                            wstack = np.array(rows, dtype=complex).reshape(len(rows), ns)
                            if stacked is None or not same(stacked, wstack, exact):
                                out.append((i, call, klass('stacked-data-wrong:%s' % block_pattern(op), i, True),
                                            'the data handed to corrupt_concatenated_data is not the stack of the blocks'))
                        if kind == 'corrupt':
                            want = sh.received(xs, noise)
                            if len(got) != K:
                                bad = '%d outputs for %d receivers' % (len(got), K)
                            else:
                                for k in range(K):
                                    if bad is None and not same(got[k], want[k], exact):
                                        bad = 'receiver %d differs from W^H(sum_l sqrt(pl) H_kl x_l + last_noise)' % k
                        else:
                            want = sh.received(xs, noise, split=False)
                            bad = None if same(got, want, exact) else 'differs from W^H(big_H x + last_noise)'
                if bad is not None:
                    how = 'cached' if (kind in cached or (kind in ('Hk', 'bigHne', 'Hkne', 'corrupt', 'corruptc')
                                                          and 'bigH' in cached)
                                       or (kind in ('Hkl', 'Hne') and 'H' in cached)) else 'first-read'
                    out.append((i, call, klass('wrong', i, kind in ('corrupt', 'corruptc', 'bigW', 'ln')),
                                bad + ' (%s)' % ('the view had been read before the last change' if how == 'cached'
                                                 else 'first read of the view')))
                read_since[kind] = True
                if kind in ('Hk', 'bigHne', 'Hkne', 'corrupt', 'corruptc'):
                    read_since['bigH'] = True
                if kind in ('Hkl', 'Hne'):
                    read_since['H'] = True
            return True

        walk(ops_main, recs, sh)
        ops = ops_main
        # ---- R7: after the whole history the object behaves like a freshly built one
        if sh.raw is not None and not out and not any(r['exc'] and not o.get('expect') for o, r in zip(ops, recs)):
            try:
                tw = fresh_twin(case, sh)
                a, b = observe(ch, ext, sh, exact), observe(tw, ext, sh, exact)
                for key in b:
                    if not eqv(a.get(key), b[key], exact):
                        out.append((len(ops) - 1, 'fresh-twin', 'r7:differs-from-fresh-object:%s:%s' % (
                            ''.join(c for c in key if not c.isdigit() and c != ','), cls_tag),
                            '%s of the long-lived object differs from a fresh object with the same configuration' % key))
                        break
            except core.Infra:
                raise
            except Exception as e:   # noqa
                out.append((len(ops) - 1, 'fresh-twin', 'r7:exception:%s:%s' % (type(e).__name__, cls_tag), str(e)[:160]))
    return out


def _oracle_for(call):
    def f(case):
        for (i, c, cls, detail) in oracle_history(case):
            if c == call:
                return cls, 'op %d (%s): %s' % (i, case['ops'][i]['op'], detail)
        return None
    return f


def _harness_oracle(case):
    try:
        oracle_history(case)
    except core.Infra:
        raise
    except Exception as e:      # noqa
        return 'unexpected:%s:%s' % (type(e).__name__, case['cls']), repr(e)[:300]
    return None


ORACLES = {c: _oracle_for(c) for c in sorted(set(CALLS.values()) | {'last_noise', 'fresh-twin'}
                                             | {'copy:' + c for c in CALLS.values()} | {'copy:last_noise'})}
ORACLES['harness'] = _harness_oracle


def replay(ctx, rep):
    try:
        return ORACLES[rep['call']](rep['case']) is not None
    except core.Infra:
        raise
    except Exception:           # noqa
        return True


def well_shaped(case):
    """every ACCEPTED operation has the documented argument shapes for the layout at that point (the python
    twin of `OpOK`, plus data / filter shapes and index ranges); operations marked `expect` are the
    deliberately rejected calls; the operations of a derived object (`fork`) start from the parent's layout"""
    ext = case['cls'] == 'ext'

    def ws(ops, st, started):
        K, nr, nt, ntE, w_rows = st
        for op in ops:
            k = op['op']
            if not started:
                if k in ('init', 'rand') and not op.get('expect'):
                    started = True
                elif k == 'noise' or (k == 'setw' and op['w'] is None) or (k == 'setpl' and op['p'] is None) \
                        or k == 'nv':
                    continue
                else:
                    return None
            if op.get('expect'):
                if k in ('Hkl', 'Hk', 'Hkne') and op['k'] < K:
                    return None
                continue
            if k == 'query':
                continue
            if k == 'fork':
                if ws(op['child'], (K, nr, nt, ntE, w_rows), True) is None:
                    return None
                continue
            if k in ('init', 'rand'):
                if len(op['nr']) != op['K'] or len(op['nt']) != op['K'] or (ext and not op['ntE']) \
                        or (not ext and op['ntE']) or min(op['nr'] + op['nt'] + op['ntE'] + [1]) < 1 or op['K'] < 1:
                    return None
                if k == 'init' and (len(op['M']) != sum(op['nr']) or
                                    any(len(r) != sum(op['nt']) + sum(op['ntE']) for r in op['M'])):
                    return None
                K, nr, nt, ntE = op['K'], op['nr'], op['nt'], op['ntE']
            elif k == 'setpl' and op['p'] is not None:
                if len(op['p']) != K or any(len(r) != K for r in op['p']):
                    return None
                if ext and (len(op['pe']) != K or any(len(r) != len(ntE) for r in op['pe'])):
                    return None
            elif k == 'setw':
                w_rows = None if op['w'] is None else [len(w) for w in op['w']]
            elif k in ('corrupt', 'corruptc'):
                if w_rows is not None and w_rows != list(nr):
                    return None
                if [len(m) for m in op['x']] != list(nt) or [len(m) for m in op['xe']] != list(ntE):
                    return None
            elif k == 'Hkl' and not (op['k'] < K and op['l'] < K + len(ntE)):
                return None
            elif k in ('Hk', 'Hkne') and not op['k'] < K:
                return None
        return (K, nr, nt, ntE, w_rows) if started else None

    return ws(case['ops'], (0, [], [], [], None), False) is not None


def minimise(case, call, cls):
    """greedy shrinking that keeps the history well-shaped and the same (call, class) violation"""
    def fails(ops):
        c = dict(case, ops=ops)
        if not well_shaped(c):
            return False
        try:
            return any(v[1] == call and v[2] == cls for v in oracle_history(c))
        except core.Infra:
            raise
        except Exception:
            return False
    ops = list(case['ops'])
    for i, c_, cl, _ in oracle_history(case):
        if c_ == call and cl == cls:
            ops = ops[:i + 1]
            break
    changed = True
    rounds = 0
    while changed and len(ops) > 1 and rounds < 4:
        changed = False
        rounds += 1
        for j in range(len(ops) - 2, -1, -1):
            trial = ops[:j] + ops[j + 1:]
            if fails(trial):
                ops = trial
                changed = True
    return dict(case, ops=ops)


def run_oracle(ctx, case, key, budget=[0]):
    if not well_shaped(case):
        raise core.Infra('generator produced an ill-shaped history: %s' % json.dumps(case)[:400])
    try:
        viol = oracle_history(case)
    except core.Infra:
        raise
    except Exception as e:      # noqa: never exit 2 because the changed library returned something unexpected
        import traceback
        viol = [(len(case['ops']) - 1, 'harness', 'unexpected:%s:%s' % (type(e).__name__, case['cls']),
                 traceback.format_exc()[-600:])]
        ctx.fail('harness', viol[0][2], case, viol[0][3])
        ctx.branch('oracle-fail:harness')
        return viol
    ctx.count(('oracle', key), True, n=len(case['ops']))
    seen = set()
    for (i, call, cls, detail) in viol:
        if (call, cls) in seen or any(f['call'] == call and f['class'] == cls for f in ctx.failures):
            continue
        if len(ctx.failures) >= 30:       # enough distinct replays; every class so far is reported
            ctx.branch('oracle-fail-not-listed')
            continue
        seen.add((call, cls))
        small = dict(case, ops=case['ops'][:i + 1]) if case.get('mode') == 'big' else minimise(case, call, cls)
        ctx.fail(call, cls, small, detail)
        ctx.branch('oracle-fail:' + call)
    if not viol:
        ctx.branch('oracle-ok:' + case['cls'] + ':' + case.get('stream', 'exact'))
        ctx.branch('r7:twin')
    return viol


# ------------------------------------------------------------------ correspondence
def nontrivial_flags(ops):
    """an op is non-trivial when it reads a view that was already read before the latest mutation
    (read -> mutate -> read on the same view), or sends data through the channel"""
    seen, stale = set(), set()
    flags = []
    for op in ops:
        k = op['op']
        if k in MUTATORS:
            stale |= seen
            flags.append(bool(op.get('expect')))
        elif k in ('corrupt', 'corruptc'):
            flags.append(True)
            seen.add('bigH')
        else:
            base = {'Hkl': 'H', 'Hk': 'bigH', 'bigHne': 'bigH', 'Hkne': 'bigH', 'Hne': 'H'}.get(k, k)
            flags.append(base in stale)
            stale.discard(base)
            seen.add(base)
    return flags


def is_uniform(p, pe):
    vals = [Fraction(x) for row in (p or []) for x in row] + [Fraction(x) for row in (pe or []) for x in row]
    return len(set(vals)) <= 1


def note_branches(ctx, case):
    """which robustness classes a history exercises (required branches)"""
    ops = case['ops']
    lay, nonuni = None, False
    for op in ops:
        k = op['op']
        if op.get('expect'):
            continue
        if k == 'setpl':
            nonuni = op['p'] is not None and not is_uniform(op['p'], op.get('pe'))
        if k in ('init', 'rand'):
            new = (op['K'], list(op['nr']), list(op['nt']), list(op['ntE']))
            if lay is not None and new != lay and new[0] == lay[0] and len(new[3]) == len(lay[3]) \
                    and all(sum(a) == sum(b) for a, b in zip(new[1:], lay[1:])):
                if nonuni:
                    ctx.branch('resplit-same-sums:%s:%s' % (case['cls'], 'randomize' if k == 'rand' else 'init'))
                    if new[3] != lay[3]:
                        ctx.branch('resplit-same-sums:ext-sources')
            elif lay is not None and (new[0], len(new[3])) != (lay[0], len(lay[3])):
                nonuni = False          # the path loss is dropped
            lay = new
    if case.get('mode') == 'typed':
        ctx.branch('r1:typed-history')
    if case.get('mode') == 'scaled':
        ctx.branch('r6:scaled-history')
    nvpos = False
    for j, op in enumerate(ops):
        k = op['op']
        t = op_tags(op, case)
        if 'R1' in t:
            ctx.branch('r1:typed-argument')
        if not op.get('expect') and k in ('corrupt', 'setw') and block_pattern(op) != 'uniform':
            ctx.branch('r1:mixed-blocks:%s:%s' % ('corrupt_data' if k == 'corrupt' else 'set_post_filter',
                                                   block_pattern(op)))
            if k == 'corrupt' and case['cls'] == 'ext':
                ctx.branch('r1:mixed-blocks:corrupt_data:ext')
        if k == 'setpl' and (op.get('fp') or {}).get('mixed'):
            ctx.branch('r1:mixed-blocks:set_pathloss-parts')
        if 'R2' in t:
            ctx.branch('r2:non-contiguous-argument')
        if op.get('scr'):
            ctx.branch('r3:scribble-out' if k not in MUTATORS + ('corrupt', 'corruptc') else 'r3:scribble-in')
        if op.get('expect'):
            ctx.branch('r4:rejected-' + {'init': 'init', 'rand': 'randomize', 'setpl': 'set_pathloss',
                                         'noise': 'noise_var', 'corrupt': 'corrupt_data'}.get(k, 'read'))
        if k == 'setpl' and op.get('p') and any(Fraction(x) == 0 for row in op['p'] for x in row):
            ctx.branch('r5:pathloss-zero')
        if k in ('init', 'rand') and not op.get('expect') and op['K'] == 1:
            ctx.branch('r5:K=1')
        if k in ('corrupt', 'corruptc') and not op.get('expect'):
            if op.get('ns') == 0:
                ctx.branch('r5:zero-symbols')
            nv = [o for o in ops[:j] if o['op'] == 'noise' and not o.get('expect')]
            if nv and nv[-1]['v'] is not None:
                if Fraction(nv[-1]['v']) > 0:
                    nvpos = True
                elif nvpos:
                    ctx.branch('r5:noise-var-zero-after-positive')
        if k == 'corruptc':
            ctx.branch('r7:corrupt_concatenated_data')
        if op.get('kw') and k in ('init', 'rand', 'setpl', 'setw', 'Hkl', 'Hk', 'Hkne', 'corrupt', 'corruptc'):
            ctx.branch('r8:keyword-arguments:' + CALLS[k])
        if k in ('init', 'rand') and 'arr0d' in (op.get('nrf'), op.get('ntf'), op.get('ntef')):
            ctx.branch('r8:0-d-array-count')
        if k == 'rand' and op.get('reseed'):
            ctx.branch('r8:re_seed')
        if k == 'setpl' and op.get('noarg'):
            ctx.branch('r8:default-argument')
        if op.get('kf', 'py') != 'py' and k in ('Hkl', 'Hk', 'Hkne', 'init', 'rand'):
            ctx.branch('r9:index-form:' + op['kf'])
        if k in ('Hkl', 'Hk') and not op.get('expect') and op['k'] >= 256:
            ctx.branch('r9:index-above-256')
        if k == 'query':
            ctx.branch('r11:query:' + op['which'])
        if k == 'fork':
            ctx.branch('r13:derived-object')
        if k in ('init', 'rand') and not op.get('expect') and op['K'] >= 257:
            ctx.branch('r14:users>=257')
        if op.get('close'):
            ck, cv = op['close'].split(':')
            ctx.branch('r15:' + CALLS[ck])
            ctx.branch('r15:variant:' + cv)
            ctx.branch('r15:stream:' + case.get('stream', 'exact'))
        if op.get('pre'):
            ctx.branch('r7:mutators-before-first-init')
        if k in ('layout', 'pl', 'bigW', 'nv', 'ln'):
            ctx.branch('r7:observer:' + k)


def note_r16(ctx, case, recs):
    """R16 branches: which entry points really received a refilled array / one array object in two roles"""
    if not case.get('reuse'):
        return
    for op, rec in zip(case['ops'], recs):
        for n in rec.get('r16') or []:
            if not rec.get('exc') or op.get('expect'):
                ctx.branch('r16:%s:%s' % (n, CALLS[op['op']]))
                ctx.branch('r16:%s:%s' % (n, case['cls']))
        if op.get('scr') and op['op'] in MUTATORS + ('corrupt', 'corruptc'):
            ctx.branch('r16:argument-overwritten-after-call')


def correspond(ctx, cases, tag):
    drv = core.Driver(DRIVER)
    batch = []
    for case in cases:
        if not well_shaped(case):
            raise core.Infra('generator produced an ill-shaped history: %s' % json.dumps(case)[:400])
        try:
            recs = run_impl(case)
            line, idx = model_line(case, recs)
        except core.Infra:
            raise
        except Exception as e:      # noqa: see run_oracle
            import traceback
            ctx.fail('harness', 'unexpected:%s:%s' % (type(e).__name__, case['cls']), case,
                     traceback.format_exc()[-600:])
            continue
        batch.append((case, recs, line, idx))
        note_branches(ctx, case)
        note_r16(ctx, case, recs)
    # R13: for every derived object the model runs  prefix + child operations
    forks = []
    for (case, recs, line, idx) in batch:
        for j, (op, rec) in enumerate(zip(case['ops'], recs)):
            if op['op'] == 'fork' and rec.get('child') is not None:
                pops = [o for o in case['ops'][:j] if o['op'] != 'fork'] + op['child']
                precs = [r for o, r in zip(case['ops'][:j], recs[:j]) if o['op'] != 'fork'] + rec['child']
                pcase = dict(case, ops=pops)
                pline, pidx = model_line(pcase, precs)
                forks.append((case, j, pcase, precs, pline, pidx, len(pops) - len(op['child'])))
                ctx.branch('r13:derived-object:%s:%s' % (case['cls'], op['how']))
    freplies = []
    for i in range(0, len(forks), 500):
        freplies += drv.ask([f[4] for f in forks[i:i + 500]])
    for fk, ((case, j, pcase, precs, pline, pidx, n0), reply) in enumerate(zip(forks, freplies)):
        mtoks = reply.split(' ')
        if len(mtoks) != len(pidx):
            ctx.tie_broken('correspondence', 'driver-reply', 'reply %r for %d ops' % (reply[:200], len(pidx)), case)
            continue
        for (jj, part), mt in zip(pidx, mtoks):
            if jj < n0:
                continue
            op, rec = pcase['ops'][jj], precs[jj]
            try:
                if part == 'stack':
                    st = rec.get('stacked')
                    it = ('mat=' + mat_tok(st)) if st is not None else ('err:' + str(rec['exc']))
                else:
                    it = impl_token(op, rec)
            except Exception as e:      # noqa
                ctx.fail('copy:' + CALLS[op['op']], 'unreadable-result:%s:%s' % (type(e).__name__, case['cls']),
                         dict(case, ops=case['ops'][:j + 1]), repr(e)[:300])
                break
            ok = ctx.corr('%s:derived-object:%s' % (case['cls'], op['op']),
                          {'history': tag, 'fork': fk, 'op': jj} if it == mt else dict(case, at=j),
                          it, mt, nontrivial=True, key=(tag, 'fork', fk, jj, part))
            if not ok:
                break
    replies = []
    for i in range(0, len(batch), 500):
        replies += drv.ask([b[2] for b in batch[i:i + 500]])
    for hid, ((case, recs, line, idx), reply) in enumerate(zip(batch, replies)):
        mtoks = reply.split(' ')
        ops = case['ops']
        if len(mtoks) != len(idx):
            ctx.tie_broken('correspondence', 'driver-reply', 'reply %r for %d ops' % (reply[:200], len(idx)), case)
            continue
        flags = nontrivial_flags(ops)
        rmr = False
        for (j, part), mt in zip(idx, mtoks):
            op, rec = ops[j], recs[j]
            try:
                impl_token(op, rec)
            except Exception as e:      # noqa: the library returned something no view can be read from
                ctx.fail(CALLS[op['op']], 'unreadable-result:%s:%s' % (type(e).__name__, case['cls']),
                         dict(case, ops=ops[:j + 1]), repr(e)[:300])
                break
            if part == 'stack':
                st = rec.get('stacked')
                it = ('mat=' + mat_tok(st)) if st is not None else ('err:' + str(rec['exc']))
                ok = ctx.corr('%s:corrupt:stacked-data' % case['cls'],
                              {'history': tag, 'id': hid, 'op': j} if it == mt else dict(case, at=j),
                              it, mt, nontrivial=True, key=(tag, hid, j, 'stack'))
                ctx.branch('op:%s:stacked-data' % case['cls'])
                if not ok:
                    break
                continue
            it = impl_token(op, rec)
            name = '%s:%s' % (case['cls'], op['op'])
            ok = ctx.corr(name, {'history': tag, 'id': hid, 'op': j} if it == mt else dict(case, at=j),
                          it, mt, nontrivial=flags[j], key=(tag, hid, j))
            ctx.branch('op:' + name)
            if rec['exc']:
                ctx.branch('err:' + rec['exc'])
            if flags[j] and op['op'] not in ('corrupt', 'corruptc') and not op.get('expect'):
                rmr = True
            if not ok:
                break
        if rmr:
            ctx.branch('read-mutate-read:' + case['cls'])
        if any(op['op'] in ('init', 'rand') and not op.get('expect') for op in ops[1:]):
            ctx.branch('relayout:' + case['cls'])
        if hid < 2 and tag == 'seeded':
            ctx.sample({'cls': case['cls'], 'mode': case.get('mode'), 'ops': [o['op'] for o in ops],
                        'model_reply': reply[:300]})


# ------------------------------------------------------------------ corpus (always run first)
def _m(rows):
    return [[[str(int(z.real)), str(int(z.imag))] for z in row] for row in rows]


def builtin_corpus():
    A = _m([[1 + 1j, 2, -1j, 3, 1], [2j, -2, 1, 1 - 1j, 2], [3, 1j, 1, -1, -2j]])
    B = _m([[1, 2j, 3, -1], [1 + 1j, 0, 2, 1], [-1, 1, 1j, 2], [2, 2, -3, 1j]])
    B2 = _m([[2, 1j, 1, -1], [1 - 1j, 3, 2, 1], [-2, 1, 2j, 2], [1, -2, -3, 1j]])
    cases = []
    # (4) ExtInt: second set_pathloss after big_H was read
    cases.append({'cls': 'ext', 'stream': 'exact', 'name': 'ext-second-setpl', 'ops': [
        {'op': 'init', 'M': A, 'nr': [1, 2], 'nt': [2, 1], 'K': 2, 'ntE': [2], 'ints': False, 'nte_int': False},
        {'op': 'setpl', 'p': [['1', '1/4'], ['1/4', '1']], 'pe': [['1/16'], ['1/64']]},
        {'op': 'bigH'},
        {'op': 'setpl', 'p': [['1/4', '1'], ['1', '1/4']], 'pe': [['1'], ['1']]},
        {'op': 'bigH'}, {'op': 'H'}, {'op': 'Hk', 'k': 1}, {'op': 'bigHne'},
        {'op': 'corrupt', 'x': [_m([[1, 2], [1j, 0]]), _m([[2, -1]])], 'xe': [_m([[1, 1], [0, 1j]])], 'nseed': 5}]})
    # (5) base class: new antenna layout (same totals, then other totals) under a stored path loss
    cases.append({'cls': 'plain', 'stream': 'exact', 'name': 'plain-relayout-same-shape', 'ops': [
        {'op': 'init', 'M': B, 'nr': [2, 2], 'nt': [2, 2], 'K': 2, 'ntE': [], 'ints': False, 'nte_int': False},
        {'op': 'setpl', 'p': [['1', '1/4'], ['1/16', '1/64']], 'pe': None},
        {'op': 'bigH'},
        {'op': 'init', 'M': B2, 'nr': [1, 3], 'nt': [3, 1], 'K': 2, 'ntE': [], 'ints': False, 'nte_int': False},
        {'op': 'bigH'}, {'op': 'H'}, {'op': 'Hk', 'k': 0}, {'op': 'Hkl', 'k': 0, 'l': 1}]})
    cases.append({'cls': 'plain', 'stream': 'exact', 'name': 'plain-relayout-other-shape', 'ops': [
        {'op': 'init', 'M': B, 'nr': [2, 2], 'nt': [2, 2], 'K': 2, 'ntE': [], 'ints': False, 'nte_int': False},
        {'op': 'setpl', 'p': [['1', '1/4'], ['1/16', '1/64']], 'pe': None},
        {'op': 'rand', 'nr': [1, 2], 'nt': [3, 1], 'K': 2, 'ntE': [], 'seed': 7, 'ints': False, 'nte_int': False},
        {'op': 'bigH'}, {'op': 'H'}]})
    # (6) ExtInt: H_no_ext_int under a path loss
    cases.append({'cls': 'ext', 'stream': 'exact', 'name': 'ext-hnoext-pathloss', 'ops': [
        {'op': 'init', 'M': A, 'nr': [1, 2], 'nt': [2, 1], 'K': 2, 'ntE': [2], 'ints': False, 'nte_int': False},
        {'op': 'Hne'},
        {'op': 'setpl', 'p': [['1', '1/4'], ['1/4', '1']], 'pe': [['1/16'], ['1/64']]},
        {'op': 'Hne'}]})
    # round 3: re-randomize / re-initialise with the SAME K and the SAME totals but another per-user split, under
    # a NON-UNIFORM path loss (the expansion of the path loss must follow the new block structure)
    for cls, E, E2 in (('plain', [], []), ('ext', [1, 2], [2, 1])):
        pe = [['1/64', '9/16'], ['25/4', '16']] if E else None
        one = lambda n: _m([[1 + (i % 2) * 1j, 2 - i] for i in range(n)])
        for how in ('rand', 'init'):
            re = {'op': how, 'nr': [4, 2], 'nt': [4, 1], 'K': 2, 'ntE': E2}
            if how == 'rand':
                re['seed'] = 9
            else:
                re['M'] = _m([[(i * 7 + j * 3) % 5 - 2 + 1j * ((i + 2 * j) % 3 - 1) for j in range(5 + sum(E))]
                              for i in range(6)])
            cases.append({'cls': cls, 'stream': 'exact', 'name': '%s-resplit-same-sums-%s' % (cls, how), 'ops': [
                {'op': 'rand', 'nr': [2, 4], 'nt': [1, 4], 'K': 2, 'ntE': E, 'seed': 4},
                {'op': 'setpl', 'p': [['1', '1/4'], ['1/16', '4']], 'pe': pe},
                {'op': 'bigH'}, {'op': 'Hk', 'k': 0}, re,
                {'op': 'bigH'}, {'op': 'Hk', 'k': 0}, {'op': 'Hk', 'k': 1}, {'op': 'H'}, {'op': 'Hkl', 'k': 0, 'l': 1},
                {'op': 'corrupt', 'x': [one(4), one(1)], 'xe': [one(n) for n in E2], 'nseed': 2, 'ns': 2}]})
    # round 4 (seeded change C08_7): element types that differ ACROSS the blocks of one list-of-arrays argument
    R = lambda rows: [[[str(v), '0'] for v in row] for row in rows]
    for cls, E in (('plain', []), ('ext', [1])):
        M1 = [row[:3 + sum(E)] for row in A]
        for name, order in (('first-real-later-complex', 0), ('first-complex-later-real', 1)):
            xr, xc = R([[1, -1], [1, 1]]), _m([[1 + 1j, 1 - 1j]])
            x = [xr, xc] if order == 0 else [_m([[1 + 1j, 1 - 1j], [-1j, 2]]), R([[1, -1]])]
            xe = [_m([[1j, -1j]])] if (E and order == 0) else ([R([[2, -1]])] if E else [])
            kinds = [all(z[1] == '0' for row in b for z in row) for b in x + xe]
            wr, wc = R([[2]]), _m([[1j], [1]])
            w = [wr, wc] if order == 0 else [_m([[1j]]), R([[1], [2]])]
            for dt in ('float64', 'int16', 'float32'):
                cases.append({'cls': cls, 'stream': 'exact', 'mode': 'typed',
                              'name': '%s-mixed-blocks-%s-%s' % (cls, name, dt), 'ops': [
                    {'op': 'init', 'M': M1, 'nr': [1, 2], 'nt': [2, 1], 'K': 2, 'ntE': E},
                    {'op': 'setpl', 'p': [['1', '1/4'], ['1/4', '1']], 'pe': [['1/16'], ['4']] if E else None},
                    {'op': 'corrupt', 'x': x, 'xe': xe, 'nseed': 5, 'ns': 2,
                     'fxs': [{'dt': dt if r else None, 'lay': 'C'} for r in kinds]},
                    {'op': 'setw', 'w': w, 'as_list': True,
                     'fws': [{'dt': dt if all(z[1] == '0' for row in b for z in row) else None, 'lay': 'C'} for b in w]},
                    {'op': 'bigW'}, {'op': 'noise', 'v': '1'},
                    {'op': 'corrupt', 'x': x, 'xe': xe, 'nseed': 6, 'ns': 2,
                     'fxs': [{'dt': dt if r else None, 'lay': 'C'} for r in kinds]},
                    {'op': 'corruptc', 'x': x, 'xe': xe, 'nseed': 7, 'ns': 2,
                     'fxs': [{'dt': dt if r else None, 'lay': 'C'} for r in kinds]}]})
    # R4 (seeded change C08_3): rejected init_from_channel_matrix with ANOTHER antenna configuration in the
    # middle of a history; then every observable, then a transmission
    for cls, E in (('plain', []), ('ext', [2])):
        M1 = A if E else [row[:3] for row in A]
        obs = [{'op': v} for v in ('layout', 'bigH', 'H', 'pl', 'ln')] + [{'op': 'Hk', 'k': 0}, {'op': 'Hk', 'k': 1}]
        pe = [['1/16'], ['1/64']] if E else None
        tx = {'op': 'corrupt', 'x': [_m([[1, 2], [1j, 0]]), _m([[2, -1]])], 'xe': [_m([[1, 1], [0, 1j]])] if E else [],
              'nseed': 5, 'ns': 2}
        cases.append({'cls': cls, 'stream': 'exact', 'name': cls + '-rejected-init-other-layout', 'ops': [
            {'op': 'init', 'M': M1, 'nr': [1, 2], 'nt': [2, 1], 'K': 2, 'ntE': E},
            {'op': 'setpl', 'p': [['1', '1/4'], ['1/4', '1']], 'pe': pe},
            {'op': 'noise', 'v': '1'}, tx,
            {'op': 'init', 'M': M1, 'nr': [2, 2], 'nt': [1, 1], 'K': 2, 'ntE': E, 'expect': 'ValueError'}] + obs + [
            {'op': 'init', 'M': M1, 'nr': [2, 1, 1], 'nt': [1, 1, 1], 'K': 2, 'ntE': E + E, 'expect': 'ValueError'}]
            + obs + [tx,
            {'op': 'rand', 'nr': [2, 1], 'nt': [1, 1, 1], 'K': 2, 'ntE': E, 'seed': 3, 'expect': 'ValueError'}] + obs + [
            {'op': 'setpl', 'p': [['1']], 'pe': [['1']] if E else None, 'expect': 'IndexError'}] + obs + [
            {'op': 'noise', 'v': '-1', 'expect': 'AssertionError'}, {'op': 'nv'},
            # R5: noise variance exactly 0.0 after a positive one
            {'op': 'noise', 'v': '0'}, tx, {'op': 'ln'}]})
    return cases


def corpus_cases():
    cases = builtin_corpus()
    d = os.path.join(core.VERIF, 'corpus', 'c08')
    if os.path.isdir(d):
        for fn in sorted(os.listdir(d)):
            if fn.endswith('.json'):
                with open(os.path.join(d, fn)) as f:
                    c = json.load(f)
                cases.append(c.get('case', c))
    if CFG == 'orig':      # developer knob: only the histories the design-round code has a defined behaviour for
        cases = [c for c in cases if c.get('name') in ('ext-second-setpl', 'plain-relayout-same-shape',
                                                       'ext-hnoext-pathloss')]
    return cases


# ------------------------------------------------------------------ small-scope enumeration (thorough)
def enum_alphabet(ext):
    """two layouts with the same K and the same sums but another per-user split (the interference sources'
    antennas included), reached by init_from_channel_matrix (i2) and by randomize (r2); two NON-UNIFORM path
    losses and None; reads; a transmission"""
    A = _m([[1 + 1j, 2, -1j, 3, 1, -2], [2j, -2, 1, 1 - 1j, 2, 1j], [3, 1j, 1, -1, -2j, 2]])
    A2 = _m([[2, 1, 1j, -3, 1, 1], [1j, 2, -1, 1 + 1j, 0, -1], [1, 1j, -1, 2, 2j, 3]])
    if ext:
        i1 = {'op': 'init', 'M': A, 'nr': [1, 2], 'nt': [2, 1], 'K': 2, 'ntE': [1, 2]}
        i2 = {'op': 'init', 'M': A2, 'nr': [2, 1], 'nt': [1, 2], 'K': 2, 'ntE': [2, 1]}
        r2 = {'op': 'rand', 'nr': [2, 1], 'nt': [1, 2], 'K': 2, 'ntE': [2, 1], 'seed': 11}
        p1 = {'op': 'setpl', 'p': [['1', '1/4'], ['1/16', '4']], 'pe': [['1/64', '1/4'], ['9/16', '16']]}
        p2 = {'op': 'setpl', 'p': [['1/4', '1'], ['4', '1/16']], 'pe': [['1', '25/4'], ['1/4', '4']]}
        reads = [{'op': 'bigH'}, {'op': 'H'}, {'op': 'Hk', 'k': 1}, {'op': 'Hne'}, {'op': 'bigHne'}]
    else:
        A = [row[:3] for row in A]
        A2 = [row[:3] for row in A2]
        i1 = {'op': 'init', 'M': A, 'nr': [1, 2], 'nt': [2, 1], 'K': 2, 'ntE': []}
        i2 = {'op': 'init', 'M': A2, 'nr': [2, 1], 'nt': [1, 2], 'K': 2, 'ntE': []}
        r2 = {'op': 'rand', 'nr': [2, 1], 'nt': [1, 2], 'K': 2, 'ntE': [], 'seed': 11}
        p1 = {'op': 'setpl', 'p': [['1', '1/4'], ['1/16', '4']], 'pe': None}
        p2 = {'op': 'setpl', 'p': [['1/4', '1'], ['4', '1/16']], 'pe': None}
        reads = [{'op': 'bigH'}, {'op': 'H'}, {'op': 'Hk', 'k': 1}, {'op': 'Hkl', 'k': 1, 'l': 0}]
    pn = {'op': 'setpl', 'p': None, 'pe': None}
    return [i1, i2, r2, p1, p2, pn] + reads + [{'op': 'corrupt'}]


def enum_histories(ext, depth, reduced=False):
    """every sequence of <= `depth` letters after an initial init (corrupt data fitted to the layout);
    `reduced`: 9-letter alphabet (both layouts, the re-split by randomize, three path-loss settings, big_H, H,
    corrupt)"""
    alpha = enum_alphabet(ext)
    first = alpha[0]
    if reduced:
        alpha = alpha[:8] + alpha[-1:]

    def fit(seq):
        ops, lay = [], None
        for op in seq:
            if op['op'] in ('init', 'rand'):
                lay = op
            if op['op'] == 'corrupt':
                one = lambda n: _m([[1 + (i % 2) * 1j, 2 - i] for i in range(n)])
                op = {'op': 'corrupt', 'x': [one(n) for n in lay['nt']], 'xe': [one(n) for n in lay['ntE']],
                      'nseed': 3}
            ops.append(op)
        return ops

    def rec(prefix, d):
        if d == 0:
            yield fit(prefix)
            return
        for a in alpha:
            yield from rec(prefix + [a], d - 1)
    for d in range(1, depth + 1):
        yield from rec([first], d)


def big_case(rng, K, ext, full_H=False):
    """R14 / R9: K = 257, 258, 300 users (one antenna each, a few with two), indexes above 256 in several
    integer forms, a non-uniform K x K path loss"""
    nr = [1] * K
    nt = [1] * K
    nr[0], nt[K - 1], nr[K // 2] = 2, 2, 2
    ntE = [1, 2] if ext else []
    M = [[[str(rng.randint(-3, 3)), str(rng.randint(-3, 3))] for _ in range(sum(nt) + sum(ntE))]
         for _ in range(sum(nr))]
    pool = ['1', '1/4', '4', '1/16', '9/16', '1/64', '25/4', '16', '9/4', '1/256', '9']
    p = [[pool[(3 * k + 5 * l) % len(pool)] for l in range(K)] for k in range(K)]
    pe = [[pool[(k + 7 * l) % len(pool)] for l in range(len(ntE))] for k in range(K)]
    one = lambda n, i: [[[str(1 + (i % 3)), str((i % 2) - (i % 5 == 0))]] for _ in range(n)]
    forms = ['np.int16', 'np.uint16', 'np.intp', 'arr0d', 'np.int64', 'np.uint64', 'py']
    ops = [{'op': 'init', 'M': M, 'nr': nr, 'nt': nt, 'K': K, 'ntE': ntE, 'kf': rng.choice(forms),
            'nrf': rng.choice(['array', 'uint16', 'list']), 'ntf': 'array', 'kw': rng.chance(0.5)},
           {'op': 'setpl', 'p': p, 'pe': pe if ext else None},
           {'op': 'layout'},
           {'op': 'Hkl', 'k': K - 1, 'l': K - 2, 'kf': rng.choice(forms[:-1])},
           {'op': 'Hkl', 'k': 256, 'l': 256, 'kf': rng.choice(forms[:-1]), 'kw': True},
           {'op': 'Hkl', 'k': 0, 'l': K + len(ntE) - 1, 'kf': rng.choice(forms[:-1])},
           {'op': 'Hk', 'k': K - 1, 'kf': rng.choice(forms[:-1])},
           {'op': 'Hkl', 'k': K, 'l': 0, 'kf': 'np.int16', 'expect': 'IndexError'},
           {'op': 'bigH'},
           {'op': 'corrupt', 'x': [one(n, i) for i, n in enumerate(nt)], 'xe': [one(n, 7) for n in ntE],
            'nseed': 11, 'ns': 1},
           {'op': 'rand', 'nr': list(reversed(nr)), 'nt': list(reversed(nt)), 'K': K, 'ntE': list(reversed(ntE)),
            'seed': 5, 'kf': rng.choice(forms), 'resplit': True},
           {'op': 'Hkl', 'k': K - 1, 'l': 257 if K > 257 else 256, 'kf': rng.choice(forms[:-1])},
           {'op': 'Hk', 'k': 256, 'kf': rng.choice(forms[:-1])}]
    if full_H:
        ops += [{'op': 'H'}, {'op': 'bigH'}]
    return {'cls': 'ext' if ext else 'plain', 'stream': 'exact', 'mode': 'big', 'ops': ops}


# ------------------------------------------------------------------ check
def seeded_cases(ctx, n, maxlen, exact=True):
    cases = []
    for i in range(n):
        ext = bool(i % 2)
        mode = ('plain', 'typed', 'scaled', 'plain', 'typed')[(i // 2) % 5] if exact else ('plain', 'scaled')[(i // 2) % 2]
        # R16: one of the two plain slots runs through the caller's refilled buffers
        reuse = mode == 'plain' and ((i // 2) % 5 == 3 if exact else (i // 2) % 4 == 0)
        g = Gen(ctx.rng.fork('h%d' % i), ext, exact=exact, mode=mode, roles=reuse)
        ops = g.history(ctx.rng.randint(2, maxlen))
        c = {'cls': 'ext' if ext else 'plain', 'stream': 'exact' if exact else 'float', 'mode': mode, 'ops': ops}
        if reuse:
            c['reuse'] = True
        cases.append(c)
    return cases


def r15_scenarios(ctx, exact=True, reps=1):
    """R15: every entry point x every kind of closeness, on both classes (a small fixed set of shapes; the values
    of the channel / data are seeded)"""
    cases = []
    for rep in range(reps):
        for ext in (False, True):
            for kind in Gen.CLOSE:
                for variant in Gen.CLOSE[kind]:
                    g = Gen(ctx.rng.fork('r15-%d-%d-%s-%s-%d' % (rep, ext, kind, variant, exact)), ext, exact=exact,
                            kmax=3, amax=2)
                    g.op_init('init')
                    g.ops[-1].update(scr=False)
                    g.op_close(kind, variant)
                    c = {'cls': 'ext' if ext else 'plain', 'stream': 'exact' if exact else 'float', 'mode': 'plain',
                         'name': 'r15-%s-%s-%s' % ('ext' if ext else 'plain', kind, variant), 'ops': g.ops}
                    if (rep + len(cases)) % 3 == 0:
                        c['reuse'] = True          # the close value arrives in the SAME array object (R15 x R16)
                    cases.append(c)
    return cases


def r16_scenarios(ctx, exact=True, reps=1):
    """R16: (a) every entry point that takes arrays called 3 times in a row with the caller's ONE array refilled in
    place (new contents, same shape), reads in between, the array overwritten after the call; (b) one array object
    in two roles (op_roles); (c) a seeded history through the buffer pool"""
    cases = []
    for rep in range(reps):
        for ext in (False, True):
            cls = 'ext' if ext else 'plain'
            rng = ctx.rng.fork('r16-%d-%d-%d' % (rep, ext, exact))
            g = Gen(rng, ext, exact=exact, kmax=3, amax=2)
            g.op_init('init')
            lay = (g.K, list(g.nr), list(g.nt), list(g.ntE))
            reads = lambda: [g.ops.append({'op': v}) for v in ('bigH', 'H', 'pl', 'bigW')] + \
                [g.ops.append({'op': 'Hk', 'k': rng.below(g.K), 'kf': 'py'})]
            for entry in ('init', 'setpl', 'setw', 'corrupt', 'corruptc', 'init') + (('rand',) if exact else ()):
                for t in range(3):
                    if entry == 'rand':
                        op = g.init_op('rand', *lay)
                        op.update(nrf='array', ntf='array', ntef='array', reseed=False)
                        g.ops.append(op)
                    elif entry == 'init':
                        op = g.init_op('init', *lay)
                        op.update(M=g.mat(sum(lay[1]), sum(lay[2]) + sum(lay[3]), g.ea), fM=None, nrf='array',
                                  ntf='array', ntef='array', scr=bool(t % 2))
                        g.ops.append(op)
                    elif entry == 'setpl':
                        g.op_setpl()
                        if g.ops[-1]['p'] is None:
                            g.ops.pop()
                            g.op_close('setpl', 'adjacent')
                        else:
                            g.ops[-1].update(fp=None, fpe=None, scr=bool(t % 2))
                    elif entry == 'setw':
                        w = [g.mat(n, 1, g.ec) for n in g.nr]
                        g.ops.append({'op': 'setw', 'w': w, 'as_list': bool(rep % 2), 'scr': bool(t % 2)})
                        g.w_none, g.w_ok = False, True
                    else:
                        x = [g.mat(n, 2, g.eb) for n in g.nt]
                        xe = [g.mat(n, 2, g.eb) for n in g.ntE]
                        g.ops.append({'op': entry, 'x': x, 'xe': xe, 'nseed': rng.below(1 << 31), 'ns': 2,
                                      'xcont': 'objarr' if (t + rep) % 2 == 0 else 'list', 'scr': bool(t % 2)})
                        g.ops.append({'op': 'ln'})
                    reads()
                if entry == 'setw':
                    g.ops.append({'op': 'noise', 'v': '1', 'vf': 'float'})
            cases.append({'cls': cls, 'stream': 'exact' if exact else 'float', 'mode': 'plain', 'reuse': True,
                          'name': 'r16-refill-%s' % cls, 'ops': g.ops})
            g = Gen(ctx.rng.fork('r16-roles-%d-%d-%d' % (rep, ext, exact)), ext, exact=exact, roles=True)
            g.op_roles()
            g.burst()
            cases.append({'cls': cls, 'stream': 'exact' if exact else 'float', 'mode': 'plain', 'reuse': True,
                          'name': 'r16-roles-%s' % cls, 'ops': g.ops})
    return cases


REQUIRED = ['read-mutate-read:plain', 'read-mutate-read:ext', 'relayout:plain', 'relayout:ext',
            'op:plain:corrupt', 'op:ext:corrupt', 'err:ValueError', 'err:IndexError', 'err:AssertionError',
            'r1:typed-history', 'r1:typed-argument', 'r2:non-contiguous-argument', 'r3:scribble-in',
            'r3:scribble-out', 'r4:rejected-init', 'r4:rejected-randomize', 'r4:rejected-set_pathloss',
            'r4:rejected-noise_var', 'r4:rejected-corrupt_data', 'r4:rejected-read', 'r5:pathloss-zero', 'r5:K=1',
            'r5:zero-symbols', 'r5:noise-var-zero-after-positive', 'r6:scaled-history',
            'r7:corrupt_concatenated_data', 'r7:mutators-before-first-init', 'r7:observer:layout',
            'r7:observer:ln', 'r7:twin', 'resplit-same-sums:plain:randomize', 'resplit-same-sums:plain:init',
            'resplit-same-sums:ext:randomize', 'resplit-same-sums:ext:init', 'resplit-same-sums:ext-sources',
            'r1:mixed-blocks:corrupt_data:first-real-later-complex',
            'r1:mixed-blocks:corrupt_data:first-complex-later-real', 'r1:mixed-blocks:corrupt_data:ext',
            'r1:mixed-blocks:set_post_filter:first-real-later-complex',
            'r1:mixed-blocks:set_post_filter:first-complex-later-real', 'r1:mixed-blocks:set_pathloss-parts',
            'op:plain:stacked-data', 'op:ext:stacked-data',
            'r8:keyword-arguments:init_from_channel_matrix', 'r8:keyword-arguments:randomize',
            'r8:keyword-arguments:set_pathloss', 'r8:keyword-arguments:set_post_filter',
            'r8:keyword-arguments:get_Hkl', 'r8:keyword-arguments:get_Hk', 'r8:keyword-arguments:corrupt_data',
            'r8:keyword-arguments:corrupt_concatenated_data', 'r8:0-d-array-count', 'r8:re_seed',
            'r8:default-argument', 'r9:index-form:np.uint16', 'r9:index-form:np.intp', 'r9:index-form:arr0d',
            'r9:index-form:np.uint64', 'r9:index-above-256', 'r11:query:calc_SINR', 'r11:query:calc_Q',
            'r11:query:deepcopy', 'r11:query:pickle', 'r13:derived-object', 'r13:derived-object:plain:copy',
            'r13:derived-object:plain:deepcopy', 'r13:derived-object:ext:pickle', 'r14:users>=257'] + \
    ['r15:' + c for c in ('set_pathloss', 'noise_var', 'init_from_channel_matrix', 'set_post_filter', 'corrupt_data')] + \
    ['r15:variant:' + v for v in ('adjacent', 'rel1e-6', 'large', 'tiny', 'zero-vs-tiny', 'near-one',
                                  'beyond-12th-decimal')] + ['r15:stream:exact', 'r15:stream:float'] + \
    ['r16:refilled:' + c for c in ('init_from_channel_matrix', 'randomize', 'set_pathloss', 'set_post_filter', 'corrupt_data',
                                   'corrupt_concatenated_data', 'plain', 'ext')] + \
    ['r16:two-roles:' + c for c in ('init_from_channel_matrix', 'set_pathloss', 'corrupt_data', 'plain', 'ext')] + \
    ['r16:same-block-twice:set_post_filter', 'r16:same-block-twice:corrupt_data',
     'r16:argument-overwritten-after-call']


def check(ctx):
    quick = ctx.tier == 'quick'
    ctx.rule = ('histories: (optionally mutators on the fresh object,) init, then ops drawn from {init/randomize with '
                'a fresh layout (K 1..4, antennas 1..3, unequal), set_pathloss(matrix|None), noise_var, '
                'set_post_filter, bursts of reads of every view and observer (K/Nr/Nt, pathloss, big_W/W, noise_var, '
                'last_noise), corrupt_data / corrupt_concatenated_data (0..3 symbols), REJECTED calls of every '
                'mutator with arguments that differ from the current configuration followed by a read of every '
                'observable}; plain and ExtInt alternating; modes plain / typed (narrow dtypes, python and numpy '
                'scalars, lists, Fortran / transposed / strided / reversed / broadcast views) / scaled (inputs times '
                '2^+-40 resp. 10^+-12); the caller overwrites its own buffers and the returned arrays after ~30% of '
                'the calls; length 2..L; exact stream (Gaussian integers, square path losses, integer RNG) compared '
                'token by token with the Lean model, the same generator with real floats for the oracle-only stream; '
                'evaluations = operations executed; non-trivial = a read of a view that was read before the latest '
                'mutation (read-mutate-read), a transmission, or a rejected call; R15 blocks (setter(v1), all '
                'observables, setter(v2 close to v1), all observables; fixed scenario set + 2% of the plain-mode '
                'steps); R16: one plain-mode slot in five and the r16 scenarios run through the caller\'s refilled '
                'preallocated arrays (BufPool), layouts in which one array serves two parameters')
    proved = core.prove(ctx, MODULE, generated=['C08Effects'], drivers=[DRIVER], scratch=ctx.scratch)
    if not proved and not any(b['kind'] == 'tie' for b in ctx.broken):
        from harness.gen import _effects
        _effects.diagnose(core, ctx, 'C08', EFFECTS_DIAG)
    ctx.required_branches = list(REQUIRED)
    n_hist, maxlen = (500, 30) if quick else (6000, 60)
    corpus = corpus_cases()
    cases = seeded_cases(ctx, n_hist, maxlen)
    bigs = [big_case(ctx.rng.fork('big'), 257, bool(ctx.seed % 2))] if quick else \
        [big_case(ctx.rng.fork('big%d' % K), K, e, full_H=(K == 257 and not e))
         for K in (257, 258, 300) for e in (False, True)]
    corpus = corpus + bigs + r15_scenarios(ctx, reps=1 if quick else 6) + r16_scenarios(ctx, reps=1 if quick else 8)
    float_scen = r15_scenarios(ctx, exact=False, reps=1 if quick else 4) + \
        r16_scenarios(ctx, exact=False, reps=1 if quick else 4)
    try:
        correspond(ctx, corpus, 'corpus')
        correspond(ctx, cases, 'seeded')
        if not quick:
            for ext in (False, True):
                hs = [{'cls': 'ext' if ext else 'plain', 'stream': 'exact', 'ops': ops}
                      for ops in enum_histories(ext, 4)]
                correspond(ctx, hs, 'enum-%s' % ('ext' if ext else 'plain'))
                h5 = [{'cls': 'ext' if ext else 'plain', 'stream': 'exact', 'ops': ops}
                      for ops in enum_histories(ext, 5, reduced=True) if len(ops) == 6]
                correspond(ctx, h5, 'enum5-%s' % ('ext' if ext else 'plain'))
                ctx.extra.setdefault('small_scope', {})['ext' if ext else 'plain'] = \
                    ('all %d histories init + <=4 letters of the %d-letter alphabet; all %d histories init + 5 '
                     'letters of the 9-letter alphabet' % (len(hs), len(enum_alphabet(ext)), len(h5)))
    except core.Infra as e:
        if not ctx.broken:
            raise
        ctx.notes.append('correspondence skipped: %s' % e)
        ctx.required_branches = []
    # independent oracles on the real code
    for i, c in enumerate(corpus):
        run_oracle(ctx, c, ('corpus', i))
    for i, c in enumerate(cases[:n_hist if quick else 2500]):
        run_oracle(ctx, c, ('seeded', i))
    for i, c in enumerate(float_scen):
        run_oracle(ctx, c, ('float-scenario', i))
        note_branches(ctx, c)
    for i, c in enumerate(seeded_cases(ctx, 150 if quick else 1500, maxlen, exact=False)):
        run_oracle(ctx, c, ('float', i))
    if not quick:
        for ext in (False, True):
            for i, ops in enumerate(enum_histories(ext, 3)):
                run_oracle(ctx, {'cls': 'ext' if ext else 'plain', 'stream': 'exact', 'ops': ops}, ('enum', ext, i))


def search(ctx):
    """deeper failing-input search, used when a proof / correspondence broke"""
    for c in corpus_cases():
        run_oracle(ctx, c, ('search-corpus', c.get('name')))
    for i, c in enumerate(seeded_cases(ctx, 1500, 40)):
        run_oracle(ctx, c, ('search', i))
        if len(ctx.failures) >= 3:
            return
    for ext in (False, True):
        for i, ops in enumerate(enum_histories(ext, 3)):
            run_oracle(ctx, {'cls': 'ext' if ext else 'plain', 'stream': 'exact', 'ops': ops}, ('search-enum', ext, i))
            if len(ctx.failures) >= 3:
                return
