"""C19 — cell geometry: containment, user placement, border points, cluster layout (DESIGN.md §5 C19)."""
import cmath
import contextlib
import math

import numpy as np

from harness import core

MODULE = 'PyPhysim.Properties.C19'
DRIVER = 'drv_c19'
CLAIM = {
    'technique': 'Lean 4 theorems over ordered fields / R (Mathlib) about a scalar-polymorphic model of shapes.py, '
                 'cell.py, pointprocess.py; literal tables regenerated from the source; seeded Float correspondence '
                 'of the same model text with the code; first-principles geometric oracles on the code',
    'text': 'Kernel-checked for ALL inputs: placing a shape (rotation by a unit vector + translation) is an isometry; '
            'Hexagon vertices are the regular hexagon R*exp(j(-120+60k) deg) and Cell3Sec vertices the 12-gon with '
            'radii R, R/sqrt3, R, 2R/sqrt3, for every radius, position, rotation; the (repaired) Rectangle/CellSquare '
            'test is exactly membership in the convex hull of the four reported vertices; the Circle test is the open '
            'disc and its vertices lie on the circle; whenever the (repaired) get_border_point returns, the point is '
            'pos + ratio*(b - pos) with b on an edge of the polygon, on the ray of the requested direction, and no '
            'boundary point on that ray nearer; it returns for every direction of every polygon whose edges run '
            'counter-clockwise around the centre, which hexagons, 3-sector cells and non-degenerate rectangles in any '
            'rotation are; add_border_user accepts exactly ratios in [0,1]; for every stream of draws the placed user '
            'is the first candidate that is inside and not closer than ratio*radius (for CellSquare: inside the hull '
            'of its vertices); cluster centres have their centroid at the cluster position for every layout and '
            'pairwise distances independent of rotation/position; hexagon layouts of every size <= 19: first ring '
            'exactly two apothems from the centre cell and from ring neighbours, second ring alternating 3R / 4 '
            'apothems, all centres >= two apothems apart, every cell exactly two apothems from an earlier one, a '
            'separating line between any two cells; k x k squares: neighbours exactly one side apart, all others '
            'farther, separating lines, non-squares rejected; cells of a cluster congruent; distance matrices '
            'entrywise Euclidean; circle/rectangle point processes in range. The model is tied to the code by '
            'seeded comparison (1e-9 of the shape scale; discrete decisions exact away from ties) of vertices, '
            'containment, border points, scripted-RNG placement, cluster centres and cell vertices, distance '
            'matrices and point processes, and by regenerated literal tables (theorem source_tables). Cells as state '
            'machines: for Cell, Cell3Sec (with its three sector cells) and CellSquare (with its stored corners), after '
            'ANY history of pos / radius / rotation setter calls (radii > 0) the stored state equals that of a freshly '
            'constructed cell with the current attributes, hence so does every query (vertices, containment, border '
            'point, whole-cell and per-sector placement, sector positions / radii); CellWrap holds no derived state; '
            'tied by seeded histories of 1-6 setter calls (radii shrinking and growing) compared with the model, with '
            'a freshly constructed object and with first-principles polygons of the current attributes.',
    'note': 'Trusted additions: matplotlib.path.Path.contains_point is an oracle parameter (polygon containment of '
            'hexagon / 3-sector / wrapped cells is NOT proved; its agreement with an independent winding-number test '
            'is checked on every query, and with the even-odd reference of the model in the correspondence); '
            'np.random is an explicit stream; driver cos/sin/sqrt are binary64 libm. Partial: no-overlap of the '
            'non-convex 3-sector cells and of wrap-around cells is checked by sampling / centre distances only; '
            'almost-sure termination of rejection sampling is not a theorem; a plain (non-square) Rectangle under '
            'setters is checked by oracle only. Robustness classes: R4 (rejected call leaves the object unchanged: '
            'rejected_call_leaves_object, rejected_calls_characterised), R6 (homogeneity: border_scale_covariant, '
            'rect_contains_scale_invariant) and R7 (every mutator incl. move_by_relative_coordinate / '
            'move_by_relative_polar_coordinate: no_stale_state, users_follow_every_move, move_helpers_are_pos_setter, '
            'wrap_no_stale_state) are theorems about the model AND are checked by correspondence + oracles; R1 '
            '(element types: int/float/numpy scalars of every width, float16/32, complex64, integer / float32 arrays, '
            'lists, tuples), R2 (strided / reversed / Fortran / broadcast / read-only / 0-d / empty / N-d arguments), '
            'R3 (arguments snapshotted and compared after the call and after later calls, returned arrays overwritten, '
            'class-level cluster cache, one cell in two wraps) and R5 (rotations at exact multiples of 90 degrees, '
            'ratio 0/1/None, unit cell at the origin, cluster sizes 1..19 and squares incl. primes squared and 2^k+-1, '
            'zero counts, degenerate point processes) are covered by correspondence / oracle only: the model takes '
            'logical values and returns values, so type, layout and aliasing are facts about the tie, not the model. '
            'All comparisons are relative to the input scale (inputs multiplied by 1e-12 .. 1e12). Second list: R8 (argument '
            'forms: positional / keyword / default / explicit default / None, scalar = 0-d = length-1, constructor path = '
            'setter path, Cluster path = cell path, many = repeated single, relative = absolute add_user) is covered by '
            'theorems on the model (cluster_random_users_postcondition, cluster_requests_carry_arguments, '
            'cluster_path_is_cell_path, cell_random_users_postcondition, random_users_are_repeated_single_placements, '
            'add_user_relative_is_absolute; constructor = setter path is no_stale_state) AND by correspondence + oracles; '
            'R12 (interleaving of additions to different cells: users_by_cell_order_independent) by theorem + '
            'correspondence + oracle; R9 (cell / sector indexes and counts as every numpy integer type, np.intp, 0-d arrays, '
            'bool, ids above 256 in 17x17 clusters), R10 (per-cell lists whose elements mix python ints, floats, numpy scalars '
            'of several widths, lists next to ndarrays), R11 (queries, repr, users, plot with the Agg backend interleaved in '
            'the histories and on clusters), R13 (deepcopy / pickle of cells, wraps, clusters; cells handed out by a cluster; '
            'wraps following their cell) and R14 (257 / 258 / 300 users per cell, 65537 points, 289 / 324 cells) by '
            'correspondence / oracle only (theorems already hold for all sizes; the model has no types, object identity or '
            'serialisation). Not applicable: negative indices (not documented), save/load and to_dict/from_dict round trips '
            '(the cell package has none), *_in_dB variants, dict / set containers of results (cells and users are lists '
            'whose order IS documented). Third list: R15 (distinct values that are merely close: setter values a relative '
            '1e-6 .. 1e-7 from the current ones and, at scales 1e-9 .. 1e-15, factors 2 .. 3 apart; ratios next to 0 and 1 and '
            'just outside [0, 1]; directions 3e-9 .. 1e-6 degrees apart and adjacent doubles, compared at 1e-12; query points '
            '3e-9 .. 1e-7 of the size on either side of an edge; min_dist_ratio 0 vs 1e-300 .. 1e-6 and 1e-6 on either side of a '
            'candidate; clusters of one size built in succession with close radii / rotations / positions; thin annuli and '
            'tiny radii of the point processes) by theorems on the model (setter_takes_effect_for_every_new_value, '
            'distinct_values_distinct_cells, border_ratio_compared_exactly, cluster_cache_lookup_exact: the class-level cache '
            'Cluster._normalized_cell_positions is part of the model) AND by correspondence + first-principles oracles (border '
            'points by bisection on membership in the polygon of the definition). R16 (argument identity and buffer reuse: ONE '
            'ndarray / list / 0-d array refilled in place between 2-4 calls of calc_rotated_pos, '
            'from_complex_array_to_real_matrix, add_border_user on Cell / Cell3Sec / CellSquare, Cluster.add_border_users / '
            'add_random_users / delete_all_users, get_border_point / is_point_inside_shape; one array as angles AND ratios, as '
            'cell ids AND numbers of users; arguments overwritten right after the call; results kept and compared after later '
            'calls) by theorem for the placement histories (placement_history_depends_on_contents_only, '
            'kth_call_equals_fresh_call) AND by correspondence + oracles; the model takes values, so identity of an argument '
            'object is otherwise a fact about the tie. Not applicable to R16: Node objects handed to add_user and the cell '
            'handed to CellWrap are kept by reference by design; the point processes take no array arguments. Every oracle '
            'call has a wall-clock limit (a containment test that rejects every candidate makes the library\'s rejection loop '
            'endless: reported as `does-not-return` with the input).',
}

TOL = 1e-9


def rclose(a, b, rtol):
    """relative closeness without an absolute floor"""
    return abs(a - b) <= rtol * max(abs(a), abs(b))


# ------------------------------------------------------------------ implementation adapters
def _mods():
    from pyphysim.cell import cell, shapes
    from pyphysim.pointprocess import pointprocess
    return shapes, cell, pointprocess


def c2(z):
    return [float(z.real), float(z.imag)]


def cx(p):
    return complex(p[0], p[1])


def make_shape(spec):
    """the real object for a shape spec"""
    shapes, cell, _ = _mods()
    k = spec['kind']
    if k == 'hex':
        return cell.Cell(cx(spec['pos']), spec['R'], rotation=spec['rot'])
    if k == 'hexshape':
        return shapes.Hexagon(cx(spec['pos']), spec['R'], spec['rot'])
    if k == 'sec3':
        return cell.Cell3Sec(cx(spec['pos']), spec['R'], rotation=spec['rot'])
    if k == 'sector':
        c3 = cell.Cell3Sec(cx(spec['pos']), spec['R'], rotation=spec['rot'])
        return [c3._sec1, c3._sec2, c3._sec3][spec['k']]
    if k == 'rect':
        return shapes.Rectangle(cx(spec['first']), cx(spec['second']), spec['rot'])
    if k == 'square':
        return cell.CellSquare(cx(spec['pos']), spec['side'], rotation=spec['rot'])
    if k == 'circle':
        return shapes.Circle(cx(spec['pos']), spec['R'])
    if k == 'wrap':
        inner = make_shape(spec['inner'])
        return cell.CellWrap(cx(spec['pos']), inner)
    raise ValueError(k)


def spec_line(spec):
    """the driver's shape tokens for a spec"""
    f = core.f2s
    k = spec['kind']
    if k in ('hex', 'hexshape'):
        return 'hex %s %s %s %s' % (f(spec['R']), f(spec['rot']), f(spec['pos'][0]), f(spec['pos'][1]))
    if k == 'sec3':
        return 'sec3 %s %s %s %s' % (f(spec['R']), f(spec['rot']), f(spec['pos'][0]), f(spec['pos'][1]))
    if k == 'sector':
        return 'sector %s %s %s %s %d' % (f(spec['R']), f(spec['rot']), f(spec['pos'][0]), f(spec['pos'][1]), spec['k'])
    if k == 'rect':
        return 'rect %s %s %s %s %s' % (f(spec['first'][0]), f(spec['first'][1]), f(spec['second'][0]),
                                        f(spec['second'][1]), f(spec['rot']))
    if k == 'square':
        return 'square %s %s %s %s' % (f(spec['side']), f(spec['rot']), f(spec['pos'][0]), f(spec['pos'][1]))
    if k == 'circle':
        return 'circle %s %s %s' % (f(spec['R']), f(spec['pos'][0]), f(spec['pos'][1]))
    if k == 'wrap':      # a wrapped cell is the inner shape moved to the wrap position
        inner = dict(spec['inner'])
        inner['pos'] = spec['pos']
        return spec_line(inner)
    raise ValueError(k)


def base_kind(spec):
    return spec['inner']['kind'] if spec['kind'] == 'wrap' else spec['kind']


def spec_rot(spec):
    return spec['inner']['rot'] if spec['kind'] == 'wrap' else spec.get('rot', 0.0)


def spec_pos(spec):
    k = spec['kind']
    if k == 'rect':
        return (cx(spec['first']) + cx(spec['second'])) / 2
    return cx(spec['pos'])


def spec_scale(spec):
    """the length every comparison is RELATIVE to: the size of the shape plus 1e-3 of its distance from
    the origin (binary64 cancellation in `pos + offset` is proportional to |pos|); TOL * spec_scale =
    1e-9 * size + 1e-12 * |pos|.  No absolute floor: inputs scaled by 1e-12 .. 1e12 are compared alike."""
    if spec['kind'] == 'wrap':     # the wrapped cell's own position enters too (a CellSquare stores absolute corners)
        return shape_size(spec['inner']) + 1e-3 * (abs(cx(spec['pos'])) + abs(spec_pos(spec['inner'])))
    return shape_size(spec) + 1e-3 * abs(spec_pos(spec))


def scale_class(spec):
    """failure-class suffix of the input scale (R6)"""
    k = spec.get('scale_exp', 0) if spec['kind'] != 'wrap' else spec['inner'].get('scale_exp', 0)
    return '' if not k else ':scale=1e%+d' % k


def shape_size(spec):
    """a length characteristic of the shape (its circumradius)"""
    k = spec['kind']
    if k == 'wrap':
        return shape_size(spec['inner'])
    if k == 'rect':
        return abs(cx(spec['second']) - cx(spec['first'])) / 2
    if k == 'square':
        return spec['side'] * math.sqrt(2) / 2
    if k == 'sector':
        return spec['R'] / math.sqrt(3)
    return spec['R']


# ------------------------------------------------------------------ first-principles geometry
def cis(deg):
    return cmath.exp(1j * math.radians(deg))


def ref_vertices(spec):
    """vertices of the shape from its definition (not from the code under test)"""
    k = spec['kind']
    if k == 'wrap':
        inner = dict(spec['inner'])
        inner['pos'] = spec['pos']
        return ref_vertices(inner)
    if k in ('hex', 'hexshape'):
        p = cx(spec['pos'])
        return [p + spec['R'] * cis(spec['rot'] - 120 + 60 * i) for i in range(6)]
    if k == 'sector':
        p = cx(spec['pos'])
        r = spec['R'] / math.sqrt(3)
        c = p + r * cis(spec['rot'] + [210, 330, 90][spec['k']])
        # regular hexagon of radius r with one vertex in direction rot-30-120
        return [c + r * cis(spec['rot'] - 30 - 120 + 60 * i) for i in range(6)]
    if k == 'sec3':
        p = cx(spec['pos'])
        R = spec['R']
        radii = [R, R / math.sqrt(3), R, 2 * R / math.sqrt(3)]
        return [p + radii[i % 4] * cis(spec['rot'] - 120 + 30 * i) for i in range(12)]
    if k == 'rect':
        a, b = cx(spec['first']), cx(spec['second'])
        c = (a + b) / 2
        lo = complex(min(a.real, b.real), min(a.imag, b.imag)) - c
        hi = complex(max(a.real, b.real), max(a.imag, b.imag)) - c
        u = cis(spec['rot'])
        return [c + u * z for z in (lo, complex(hi.real, lo.imag), hi, complex(lo.real, hi.imag))]
    if k == 'square':
        p = cx(spec['pos'])
        h = spec['side'] / 2
        u = cis(spec['rot'])
        return [p + u * z for z in (complex(-h, -h), complex(h, -h), complex(h, h), complex(-h, h))]
    if k == 'circle':
        p = cx(spec['pos'])
        return [p + spec['R'] * cis(30 * i) for i in range(12)]
    raise ValueError(k)


def seg_dist(a, b, p):
    d = b - a
    L2 = abs(d) ** 2
    if L2 == 0:
        return abs(p - a)
    t = ((p - a) * d.conjugate()).real / L2
    t = min(1.0, max(0.0, t))
    return abs(p - (a + t * d))


def boundary_dist(verts, p):
    n = len(verts)
    return min(seg_dist(verts[i], verts[(i + 1) % n], p) for i in range(n))


def winding_inside(verts, p):
    """non-zero winding number by summing the signed angles subtended by the edges"""
    tot = 0.0
    n = len(verts)
    for i in range(n):
        a, b = verts[i] - p, verts[(i + 1) % n] - p
        tot += math.atan2((a.conjugate() * b).imag, (a.conjugate() * b).real)
    return abs(tot) > math.pi


def shape_contains_ref(spec, verts, p):
    """(inside?, margin) from first principles"""
    if base_kind(spec) == 'circle':
        d = abs(p - cx(spec['pos']))
        return d < spec['R'], abs(d - spec['R'])
    return winding_inside(verts, p), boundary_dist(verts, p)


def rot_class(rot):
    return 'rotation=0' if (rot % 360.0) == 0.0 else 'rotation!=0'


def rect_aspect_class(spec):
    if base_kind(spec) != 'rect':
        return ''
    a, b = cx(spec['first']), cx(spec['second'])
    w, h = abs(a.real - b.real), abs(a.imag - b.imag)
    return ':square' if abs(w - h) <= 1e-9 * max(w, h) else ':non-square'


# ------------------------------------------------------------------ scripted np.random
class StreamEnd(Exception):
    pass


class Scripted:
    def __init__(self, draws):
        self.d = list(draws)
        self.i = 0

    def __call__(self, size=None):
        if size is None:
            if self.i >= len(self.d):
                raise StreamEnd()
            v = self.d[self.i]
            self.i += 1
            return v
        n = int(np.prod(size))
        if self.i + n > len(self.d):
            raise StreamEnd()
        arr = np.array(self.d[self.i:self.i + n], dtype=float).reshape(size)
        self.i += n
        return arr


@contextlib.contextmanager
def scripted_random(draws):
    s = Scripted(draws)
    old = np.random.random_sample
    np.random.random_sample = s
    try:
        yield s
    finally:
        np.random.random_sample = old


# ------------------------------------------------------------------ oracles (property on the real code)
def o_vertices(case):
    spec = case['spec']
    sh = make_shape(spec)
    got = [complex(v) for v in np.asarray(sh.vertices)]
    ref = ref_vertices(spec)
    tol = TOL * spec_scale(spec)
    if len(got) != len(ref):
        return 'vertices:%s%s' % (base_kind(spec), scale_class(spec)), '%d vertices, expected %d' % (len(got), len(ref))
    # same polygon: same cyclic vertex sequence (the starting vertex is not part of the property)
    n = len(ref)
    for s in range(n):
        if all(abs(got[(i + s) % n] - ref[i]) <= tol for i in range(n)):
            return None
    return ('vertices:%s%s' % (base_kind(spec), scale_class(spec)),
            'vertices %s are not the %s of the definition %s' % (got[:3], spec['kind'], ref[:3]))


def o_contains(case):
    spec = case['spec']
    sh = make_shape(spec)
    verts = [complex(v) for v in np.asarray(sh.vertices)]
    sc = spec_scale(spec)
    for q in case['queries']:
        p = cx(q)
        exp, margin = shape_contains_ref(spec, verts, p)
        if margin < 1e-9 * sc:
            continue
        got = bool(sh.is_point_inside_shape(p))
        if got != exp:
            return ('contains-mismatch:%s:%s%s' % (base_kind(spec), rot_class(spec_rot(spec)), scale_class(spec)),
                    'is_point_inside_shape(%r) = %s but the point is %s the polygon of the shape\'s vertices (margin %.3g)'
                    % (p, got, 'inside' if exp else 'outside', margin))
    return None


def o_border(case):
    spec = case['spec']
    sh = make_shape(spec)
    pos = complex(sh.pos)
    verts = [complex(v) for v in np.asarray(sh.vertices)]
    sc = spec_scale(spec)
    size = shape_size(spec)
    kind = base_kind(spec)
    for ang, ratio in case['queries']:
        p = complex(sh.get_border_point(ang, ratio))
        if ratio is None:          # `None` means the border itself
            ratio = 1.0
        cls = 'border-off-boundary:%s%s%s' % (kind, rect_aspect_class(spec), scale_class(spec))
        if ratio == 0:
            if abs(p - pos) > TOL * sc:
                return cls, 'ratio 0 does not give the centre'
            continue
        b = pos + (p - pos) / ratio           # the un-scaled border point
        rel = (b - pos) * cis(-ang)           # must be a positive real
        if not (rel.real > 0 and abs(rel.imag) <= TOL * sc):
            return ('border-wrong-direction:%s%s%s' % (kind, rect_aspect_class(spec), scale_class(spec)),
                    'angle %r ratio %r: point %r is not in direction %r from the centre' % (ang, ratio, p, ang))
        if kind == 'circle':
            off = abs(abs(b - pos) - spec['R'])
        else:
            off = boundary_dist(verts, b)
        if off > 1e-9 * sc + 1e-9 * size:
            return cls, 'angle %r ratio %r: un-scaled point %r is %.3g away from the cell boundary' % (ang, ratio, b, off)
    return None


def o_border_user(case):
    """add_border_user places the users at the border points (ratio 1.0 is nudged inside by 1e-15)"""
    spec = case['spec']
    sh = make_shape(spec)
    verts = [complex(v) for v in np.asarray(sh.vertices)]
    sc = spec_scale(spec)
    angs = [a for a, _ in case['queries']]
    ratios = [float(r) for _, r in case['queries']]
    sh.add_border_user(angs, ratios)
    users = sh.users
    if len(users) != len(angs):
        return 'border-user-count:%s' % base_kind(spec), '%d users for %d angles' % (len(users), len(angs))
    pos = complex(sh.pos)
    for (ang, ratio), us in zip(case['queries'], users):
        p = complex(us.pos)
        if ratio == 0:
            continue
        b = pos + (p - pos) / ratio
        rel = (b - pos) * cis(-ang)
        if not (rel.real > 0 and abs(rel.imag) <= TOL * sc) or boundary_dist(verts, b) > 2e-9 * sc:
            return ('border-user-misplaced:%s%s' % (base_kind(spec), rect_aspect_class(spec)),
                    'angle %r ratio %r: user at %r' % (ang, ratio, p))
    return None


def o_border_user_ratio(case):
    """ratios outside [0, 1] are rejected with ValueError and no user is added"""
    spec = case['spec']
    sh = make_shape(spec)
    r = float(case['ratio'])
    try:
        sh.add_border_user(case['angle'], r)
        raised = False
    except ValueError:
        raised = True
    bad = r < 0 or r > 1
    if raised != bad:
        return ('border-user-ratio:%s' % ('accepted-out-of-range' if bad else 'rejected-in-range'),
                'ratio %r %s' % (r, 'accepted' if bad else 'rejected'))
    if raised and len(sh.users) != 0:
        return 'border-user-ratio:user-added-on-error', 'ratio %r' % r
    return None


def o_random_user(case):
    """scripted or seeded draws; the placed user must be inside the cell's polygon (the one spanned
    by the definition of the shape) and not closer to the centre than ratio*radius"""
    spec = case['spec']
    shapes, cell, _ = _mods()
    ratio = case['ratio']
    if spec['kind'] == 'sector':
        c3 = cell.Cell3Sec(cx(spec['pos']), spec['R'], rotation=spec['rot'])
        sec = [c3._sec1, c3._sec2, c3._sec3][spec['k']]
        centre, radius = complex(sec.pos), sec.radius

        def add():
            c3.add_random_user_in_sector(spec['k'] + 1, None, ratio)
            return complex(c3.users[-1].pos)
    else:
        sh = make_shape(spec)
        centre, radius = complex(sh.pos), sh.radius

        def add():
            sh.add_random_user(None, ratio)
            return complex(sh.users[-1].pos)
    ref = ref_vertices(spec)
    sc = spec_scale(spec)
    pts = []
    if case.get('draws') is not None:
        with scripted_random(case['draws']):
            try:
                for _ in range(case.get('n', 1)):
                    pts.append(add())
            except StreamEnd:
                pass
    else:
        st = np.random.get_state()
        np.random.seed(case['npseed'])
        try:
            for _ in range(case.get('n', 1)):
                pts.append(add())
        finally:
            np.random.set_state(st)
    for p in pts:
        if boundary_dist(ref, p) > 1e-9 * sc and not winding_inside(ref, p):
            return ('user-outside-cell:%s:%s%s' % (base_kind(spec), rot_class(spec_rot(spec)), scale_class(spec)),
                    'user placed at %r, %.3g outside the cell' % (p, boundary_dist(ref, p)))
        if abs(p - centre) < ratio * radius * (1 - 1e-12):
            return ('user-too-close:%s%s' % (base_kind(spec), scale_class(spec)),
                    'user at distance %.6g < %.6g' % (abs(p - centre), ratio * radius))
    return None


def o_add_user(case):
    """add_user(absolute position) accepts exactly the points of the cell"""
    spec = case['spec']
    shapes, cell, _ = _mods()
    sh = make_shape(spec)
    ref = ref_vertices(spec)
    sc = spec_scale(spec)
    for q in case['queries']:
        p = cx(q)
        if boundary_dist(ref, p) < 1e-9 * sc:
            continue
        exp = winding_inside(ref, p)
        try:
            sh.add_user(cell.Node(p), relative_pos_bool=False)
            got = True
        except ValueError:
            got = False
        if got != exp:
            return ('add-user-mismatch:%s:%s' % (base_kind(spec), rot_class(spec_rot(spec))),
                    'add_user(%r) %s but the point is %s the cell' % (p, 'accepted' if got else 'rejected',
                                                                      'inside' if exp else 'outside'))
    return None


def convex_separated(va, vb, tol):
    """separating axis test for two convex polygons: True iff some edge normal separates them"""
    for poly in (va, vb):
        n = len(poly)
        for i in range(n):
            e = poly[(i + 1) % n] - poly[i]
            nrm = complex(e.imag, -e.real)
            nrm /= abs(nrm)
            pa = [(v * nrm.conjugate()).real for v in va]
            pb = [(v * nrm.conjugate()).real for v in vb]
            if max(pa) <= min(pb) + tol or max(pb) <= min(pa) + tol:
                return True
    return False


def o_cluster(case):
    shapes, cell, _ = _mods()
    n, R, rot, ctype = case['n'], case['R'], case['rot'], case['type']
    pos = cx(case['pos'])
    cl = cell.Cluster(cell_radius=R, num_cells=n, pos=pos, cell_type=ctype, rotation=rot)
    cells = list(cl)
    sc = 6 * R + 1e-3 * abs(pos)
    tol = TOL * sc
    cls = 'cluster:%s:' % ctype
    if len(cells) != n:
        return cls + 'count', '%d cells' % len(cells)
    cen = [complex(c.pos) for c in cells]
    # centred around the cluster position
    if abs(sum(cen) / n - pos) > tol:
        return cls + 'not-centred', 'centroid %r, cluster position %r' % (sum(cen) / n, pos)
    # congruent: every cell is the first one translated
    v0 = np.asarray(cells[0].vertices) - cen[0]
    for c, z in zip(cells, cen):
        v = np.asarray(c.vertices) - z
        if v.shape != v0.shape or np.max(np.abs(v - v0)) > tol:
            return cls + 'not-congruent', 'cell %s differs from cell 1 by more than a translation' % c.id
    # the first cell is the shape of the definition, with the cluster's rotation
    spec0 = ({'kind': 'hex', 'R': R, 'rot': rot, 'pos': c2(cen[0])} if ctype == 'simple' else
             {'kind': 'sec3', 'R': R, 'rot': rot, 'pos': c2(cen[0])} if ctype == '3sec' else
             {'kind': 'square', 'side': R, 'rot': rot, 'pos': c2(cen[0])})
    ref0 = ref_vertices(spec0)
    got0 = [complex(v) for v in np.asarray(cells[0].vertices)]
    if len(ref0) != len(got0) or not any(all(abs(got0[(i + s) % len(ref0)] - ref0[i]) <= tol for i in range(len(ref0)))
                                         for s in range(len(ref0))):
        return cls + 'cell-shape', 'cell 1 is not a %s of size %r rotated by %r' % (ctype, R, rot)
    if n == 1:
        return None
    touch = R if ctype == 'square' else math.sqrt(3) * R      # one side / two apothems
    D = np.abs(np.array(cen)[:, None] - np.array(cen)[None, :])
    D[np.arange(n), np.arange(n)] = np.inf
    if D.min() < touch - tol:
        i, j = np.unravel_index(np.argmin(D), D.shape)
        return cls + 'overlap', 'cells %d and %d are %.9g apart, closer than %.9g' % (i + 1, j + 1, D.min(), touch)
    # touching: every cell has a neighbour exactly `touch` away and the touching graph is connected
    adj = np.abs(D - touch) <= tol
    if not adj.any(axis=1).all():
        i = int(np.argmin(adj.any(axis=1)))
        return cls + 'gap', 'cell %d has no neighbour at distance %.9g (nearest %.9g)' % (i + 1, touch, D[i].min())
    seen, todo = {0}, [0]
    while todo:
        i = todo.pop()
        for j in np.nonzero(adj[i])[0]:
            if int(j) not in seen:
                seen.add(int(j))
                todo.append(int(j))
    if len(seen) != n:
        return cls + 'gap', 'touching graph is not connected'
    # wrap-around (19 cells): every wrapped cell is congruent to the cell it wraps and the 19 + 42
    # centres still form a touching, non-overlapping layout
    if n == 19 and ctype != 'square' and case.get('wrap', True):
        cl.create_wrap_around_cells()
        wr = list(cl._wrapped_cells.values())
        for w in wr:
            o = w._wrapped_cell
            vw = np.asarray(w.vertices) - complex(w.pos)
            vo = np.asarray(o.vertices) - complex(o.pos)
            if vw.shape != vo.shape or np.max(np.abs(vw - vo)) > tol:
                return cls + 'wrap-not-congruent', 'wrapped cell %s differs from cell %s' % (w.id, o.id)
        allc = np.array(cen + [complex(w.pos) for w in wr])
        DW = np.abs(allc[:, None] - allc[None, :])
        DW[np.arange(len(allc)), np.arange(len(allc))] = np.inf
        if DW.min() < touch - tol:
            i, j = np.unravel_index(np.argmin(DW), DW.shape)
            return cls + 'wrap-overlap', 'centres %d and %d (cells + wrapped cells) are %.9g apart' % (i, j, DW.min())
        if not (np.abs(DW - touch) <= tol).any(axis=1).all():
            return cls + 'wrap-gap', 'a wrapped cell touches no other cell'
    # no overlap of the cells themselves
    polys = [[complex(v) for v in np.asarray(c.vertices)] for c in cells]
    if ctype in ('simple', 'square'):
        for i in range(n):
            for j in range(i + 1, n):
                if case.get('light') and D[i, j] > 1.6 * touch:      # large grids: only cells that could touch
                    continue
                if not convex_separated(polys[i], polys[j], tol):
                    return cls + 'overlap', 'cells %d and %d have no separating line' % (i + 1, j + 1)
    else:
        # non-convex: interior sample points of a cell are in no other cell
        for i in range(n):
            for k, v in enumerate(polys[i]):
                for lam in (0.999, 0.6):
                    p = cen[i] + lam * (v - cen[i])
                    pm = (p + cen[i] + lam * (polys[i][(k + 1) % 12] - cen[i])) / 2
                    for q in (p, pm):
                        if not winding_inside(polys[i], q):
                            continue
                        for j in range(n):
                            if j != i and winding_inside(polys[j], q) and boundary_dist(polys[j], q) > tol:
                                return cls + 'overlap', 'point %r is inside cells %d and %d' % (q, i + 1, j + 1)
    return None


def o_cluster_invalid(case):
    """square clusters exist only for perfect squares"""
    shapes, cell, _ = _mods()
    n = case['n']
    k = math.isqrt(n)
    try:
        cell.Cluster(cell_radius=1.0, num_cells=n, cell_type='square')
        ok = True
    except ValueError:
        ok = False
    if ok != (k * k == n):
        return 'cluster:square:accepts-non-square' if ok else 'cluster:square:rejects-square', 'n=%d' % n
    return None


def build_cluster_with_users(case):
    shapes, cell, _ = _mods()
    cl = cell.Cluster(cell_radius=case['R'], num_cells=case['n'], pos=cx(case['pos']), cell_type=case['type'],
                      rotation=case['rot'])
    st = np.random.get_state()
    np.random.seed(case['npseed'])
    try:
        for cid, k in case['random']:
            cl.add_random_users(cid, k, None, case.get('ratio', 0.0))
    finally:
        np.random.set_state(st)
    for cid, ang, ratio in case['border']:
        cl.add_border_users(cid, ang, ratio)
    return cl


def o_distmatrix(case):
    cl = build_cluster_with_users(case)
    users = [complex(u.pos) for c in cl for u in c.users]
    cells = [complex(c.pos) for c in cl]
    for name in ('calc_dist_all_users_to_each_cell', 'calc_dist_all_users_to_each_cell_no_wrap_around'):
        M = np.asarray(getattr(cl, name)())
        if not users:
            if M.size != 0:
                return 'distmatrix:shape', '%s has %d entries for a cluster without users' % (name, M.size)
            continue
        if M.shape != (len(users), len(cells)):
            return 'distmatrix:shape', '%s has shape %s for %d users and %d cells' % (name, M.shape, len(users), len(cells))
        for i, u in enumerate(users):
            for j, c in enumerate(cells):
                e = math.hypot(u.real - c.real, u.imag - c.imag)
                if abs(M[i, j] - e) > 1e-9 * (case['R'] + e) + 1e-12 * abs(u):
                    return 'distmatrix:entry', '%s[%d,%d] = %r, Euclidean distance is %r' % (name, i, j, M[i, j], e)
    # users are in their cells
    for c in cl:
        for u in c.users:
            spec = {'kind': {'simple': 'hex', '3sec': 'sec3', 'square': 'square'}[case['type']], 'R': case['R'],
                    'side': case['R'], 'rot': case['rot'], 'pos': c2(complex(c.pos))}
            ref = ref_vertices(spec)
            p = complex(u.pos)
            if boundary_dist(ref, p) > 1e-9 * case['R'] + 1e-12 * abs(p) and not winding_inside(ref, p):
                return ('user-outside-cell:%s:%s' % (spec['kind'], rot_class(case['rot'])),
                        'cluster user %r outside cell %s' % (p, c.id))
    return None


def o_pointprocess(case):
    _, _, pp = _mods()
    n = case['n']
    if case.get('draws') is not None:
        ctxm = scripted_random(case['draws'])
    else:
        ctxm = contextlib.nullcontext()
        st = np.random.get_state()
        np.random.seed(case['npseed'])
    try:
        with ctxm:
            if case['what'] == 'circle':
                pts = np.asarray(pp.generate_random_points_in_circle(n, case['rmax'], case['rmin']))
            else:
                pts = np.asarray(pp.generate_random_points_in_rectangle(n, case['w'], case['h']))
    finally:
        if case.get('draws') is None:
            np.random.set_state(st)
    if pts.shape != (n,):
        return 'pointprocess:%s:count' % case['what'], 'shape %s for %d points' % (pts.shape, n)
    if case['what'] == 'circle':
        r = np.abs(pts)
        slack = 1e-12 * case['rmax']
        if (r > case['rmax'] + slack).any() or (r < case['rmin'] - slack).any():
            return 'pointprocess:circle:out-of-range', 'radii in [%r, %r], requested [%r, %r]' % (
                r.min(), r.max(), case['rmin'], case['rmax'])
    else:
        slack = 1e-12 * max(case['w'], case['h'])
        if (np.abs(pts.real) > case['w'] / 2 + slack).any() or (np.abs(pts.imag) > case['h'] / 2 + slack).any():
            return 'pointprocess:rectangle:out-of-range', 'point outside the %r x %r rectangle' % (case['w'], case['h'])
    return None


# ------------------------------------------------------------------ histories (cells as state machines; R4, R7)
SEC_ANGLE = [210.0, 330.0, 90.0]
MOVE_OPS = ('P', 'M', 'Q')


def hist_kind(case):
    return case['init']['kind']


def hist_initial(case):
    """(pos, radius, rotation) of the freshly constructed initial cell"""
    init = case['init']
    k = init['kind']
    if k == 'rect':
        a, b = cx(init['first']), cx(init['second'])
        c = (a + b) / 2
        return c, abs(b - c), init['rot']
    if k == 'square':
        return cx(init['pos']), math.sqrt(2.0) * init['side'] / 2.0, init['rot']
    return cx(init['pos']), init['R'], init['rot']


def hist_current(case, upto=None):
    """(pos, radius, rotation, wrap position) after the accepted mutator calls, from the case alone.
    P = `pos = z`, M = move_by_relative_coordinate(d), Q = move_by_relative_polar_coordinate(r, a),
    R = `radius = r`, T = `rotation = t`, W = `wrap.pos = z`; rejected calls (X) change nothing."""
    pos, R, rot = hist_initial(case)
    wpos = cx(case['wrap']) if case.get('wrap') is not None else None
    for op in case['ops'][:upto]:
        if op[0] == 'P':
            pos = complex(op[1], op[2])
        elif op[0] == 'M':
            pos = pos + complex(op[1], op[2])
        elif op[0] == 'Q':
            pos = pos + cmath.rect(op[1], op[2])
        elif op[0] == 'R':
            R = op[1]
        elif op[0] == 'T':
            rot = op[1]
        elif op[0] == 'W':
            wpos = complex(op[1], op[2])
    return pos, R, rot, wpos


def hist_current_spec(case, upto=None, cell_only=False):
    """spec of the freshly constructed cell with the current (pos, radius, rotation)"""
    pos, R, rot, wpos = hist_current(case, upto)
    init = case['init']
    k = init['kind']
    if k in ('hex', 'sec3'):
        spec = {'kind': k, 'R': R, 'rot': rot, 'pos': c2(pos)}
    elif k == 'square':
        spec = {'kind': 'square', 'side': math.sqrt(2.0) * R, 'rot': rot, 'pos': c2(pos)}
    else:   # rect: same aspect, half diagonal R, centre pos
        a, b = cx(init['first']), cx(init['second'])
        _, R0, _ = hist_initial(case)
        half = complex(abs(a.real - b.real) / 2, abs(a.imag - b.imag) / 2) * (R / R0)
        spec = {'kind': 'rect', 'first': c2(pos - half), 'second': c2(pos + half), 'rot': rot}
    spec['scale_exp'] = init.get('scale_exp', 0)
    if wpos is not None and not cell_only:
        return {'kind': 'wrap', 'pos': c2(wpos), 'inner': spec}
    return spec


def observables(obj, wrap=None):
    """everything a caller can see of the object(s): used to show that a rejected call changed nothing"""
    out = [complex(obj.pos), float(obj.radius), complex(obj.rotation),
           tuple(complex(v) for v in np.asarray(obj.vertices))]
    if hasattr(obj, 'users'):
        out.append(tuple(complex(u.pos) for u in obj.users))
        out.append(tuple(u.cell_id for u in obj.users))
    for name in ('_sec1', '_sec2', '_sec3'):
        if hasattr(obj, name):
            sec = getattr(obj, name)
            out += [complex(sec.pos), float(sec.radius), complex(sec.rotation), len(sec.users)]
    if wrap is not None:
        out += [complex(wrap.pos), float(wrap.radius), complex(wrap.rotation),
                tuple(complex(v) for v in np.asarray(wrap.vertices))]
    return out


def rejected_call(cell_mod, obj, wrap, op, size):
    """perform a call that must be rejected; returns (exception type name or None if it was accepted,
    description of a change of the ARGUMENT object or None)"""
    what = op[1]
    node = None
    try:
        if what == 'add_user_outside':
            node = cell_mod.Node(complex(obj.pos) + 5.0 * float(obj.radius) * cis(op[2]))
            before = complex(node.pos)
            obj.add_user(node, relative_pos_bool=False)
        elif what == 'add_user_outside_relative':
            node = cell_mod.Node(3.0 * cis(op[2]))
            before = complex(node.pos)
            obj.add_user(node)
        elif what == 'add_user_not_a_node':
            obj.add_user(complex(obj.pos))
        elif what == 'border_ratio':
            obj.add_border_user(op[2], float(op[3]))
        elif what == 'border_ratio_list':
            obj.add_border_user([op[2], op[2] + 10.0], [0.5, float(op[3])])
        elif what == 'sector_index':
            obj.add_random_user_in_sector(op[2], None, 0.0)
        elif what == 'wrap_radius':
            wrap.radius = 2.0 * size
        elif what == 'wrap_rotation':
            wrap.rotation = 33.0
        else:
            raise KeyError(what)
    except (ValueError, TypeError, RuntimeError, AttributeError) as e:
        arg = None
        if node is not None and complex(node.pos) != before:
            arg = 'the rejected Node was left at %r (it was handed in at %r)' % (complex(node.pos), before)
        return type(e).__name__, arg
    return None, None


EXPECTED_ERROR = {'add_user_outside': 'ValueError', 'add_user_outside_relative': 'ValueError',
                  'add_user_not_a_node': 'TypeError', 'border_ratio': 'ValueError', 'border_ratio_list': 'ValueError',
                  'sector_index': 'RuntimeError', 'wrap_radius': 'AttributeError', 'wrap_rotation': 'AttributeError'}


def hist_build(case, check=None):
    """the real objects: construct, then apply the calls of the history.
    Returns (obj, wrap, tracked) where `tracked` is the first-principles expectation of the users' positions:
    a user is recorded where it was put and is shifted by every later move of its cell.
    `check(kind, detail)` is called for violations found on the way (rejected calls that change something)."""
    shapes, cell, _ = _mods()
    obj = make_shape(case['init'])
    wrap = cell.CellWrap(cx(case['wrap']), obj) if case.get('wrap') is not None else None
    tracked = []
    size0 = shape_size(case['init'])
    for i, op in enumerate(case['ops']):
        t = op[0]
        pos_before = complex(obj.pos)
        if t == 'P':
            obj.pos = complex(op[1], op[2])
        elif t == 'M':
            obj.move_by_relative_coordinate(complex(op[1], op[2]))
        elif t == 'Q':
            obj.move_by_relative_polar_coordinate(op[1], op[2])
        elif t == 'R':
            obj.radius = op[1]
        elif t == 'T':
            obj.rotation = op[1]
        elif t == 'W':
            wrap.pos = complex(op[1], op[2])
        elif t == 'U':      # add_user at an absolute position inside the current cell
            _, R, rot, _ = hist_current(case, i)
            cspec = hist_current_spec(case, i, cell_only=True)
            p = complex(obj.pos) + op[1] * inradius(cspec) * cis(op[2])
            obj.add_user(cell.Node(p), relative_pos_bool=False)
            tracked.append(complex(obj.users[-1].pos))
        elif t == 'B':      # add_border_user(angle, ratio)
            obj.add_border_user(op[1], float(op[2]))
            tracked.append(complex(obj.users[-1].pos))
        elif t == 'S':      # one random user in sector k (scripted draws)
            with scripted_random(op[2]):
                try:
                    obj.add_random_user_in_sector(op[1] + 1, None, 0.0)
                    tracked.append(complex(obj.users[-1].pos))
                except StreamEnd:
                    pass
        elif t == 'D':
            obj.delete_all_users()
            tracked = []
        elif t == 'N':      # a batch of queries / representations / plots: nothing may change
            target = wrap if wrap is not None else obj
            before = [geom_observables(obj)] + ([geom_observables(wrap)] if wrap is not None else [])
            for qname, fn in query_batch(target, obj, op[1]):
                fn()
                after = [geom_observables(obj)] + ([geom_observables(wrap)] if wrap is not None else [])
                if after != before and check is not None:
                    check('nonmutating:' + qname, 'calling %s changed the object' % qname)
                    break
        elif t == 'X':
            before = observables(obj, wrap)
            got, argchange = rejected_call(cell, obj, wrap, op, size0)
            after = observables(obj, wrap)
            if check is not None and argchange is not None:
                check('rejected:%s:argument-changed' % op[1], argchange)
            if check is not None:
                if got != EXPECTED_ERROR[op[1]] and not (op[1] == 'add_user_not_a_node' and got == 'AttributeError'):
                    check('rejected:%s:not-rejected' % op[1], 'call %r gave %r, expected %s' % (op, got, EXPECTED_ERROR[op[1]]))
                elif before != after:
                    k = [j for j, (x, y) in enumerate(zip(before, after)) if x != y]
                    check('rejected:%s:object-changed' % op[1],
                          'the rejected call %r changed the object (observable %s: %r -> %r)' % (
                              op, k[:1], before[k[0]] if k else None, after[k[0]] if k else None))
        if t in MOVE_OPS:
            d = complex(obj.pos) - pos_before
            tracked = [u + d for u in tracked]
    return obj, wrap, tracked


def query_batch(target, obj, with_plot):
    """calls that are not documented as mutators"""
    out = [('vertices', lambda: target.vertices), ('_get_vertex_positions', lambda: target._get_vertex_positions()),
           ('is_point_inside_shape', lambda: target.is_point_inside_shape(complex(target.pos))),
           ('get_border_point', lambda: target.get_border_point(21.0, 0.5)), ('calc_dist', lambda: target.calc_dist(obj)),
           ('repr', lambda: repr(target)), ('users', lambda: list(getattr(target, 'users', []))),
           ('num_users', lambda: getattr(target, 'num_users', 0))]
    if with_plot:
        def plot():
            import matplotlib
            matplotlib.use('Agg')
            import matplotlib.pyplot as plt
            fig, ax = plt.subplots()
            try:
                target.plot(ax)
            finally:
                plt.close(fig)
        out.append(('plot', plot))
    return out


def inradius(spec):
    """radius of a disc around the centre that is inside the shape"""
    k = spec['kind']
    if k == 'hex':
        return spec['R'] * math.sqrt(3) / 2
    if k == 'sec3':
        return spec['R'] / math.sqrt(3)
    if k == 'square':
        return spec['side'] / 2
    if k == 'rect':
        a, b = cx(spec['first']), cx(spec['second'])
        return min(abs(a.real - b.real), abs(a.imag - b.imag)) / 2
    raise ValueError(k)


def cyc_close(got, ref, tol):
    n = len(ref)
    return len(got) == n and any(all(abs(got[(i + s) % n] - ref[i]) <= tol for i in range(n)) for s in range(n))


def hist_ops_class(case):
    """which mutators the history used (part of the failure class: computed from the input)"""
    kinds = sorted({op[0] for op in case['ops'] if op[0] in 'PMQRTW'})
    return '+'.join(kinds) if kinds else 'none'


def o_history(case):
    """after ANY history of mutator calls (setters, move_by_* helpers, user additions / deletions, rejected
    calls) a cell answers every query like a freshly constructed cell with the current attributes; its users
    have followed every move; rejected calls changed nothing; users placed afterwards (whole cell and per
    sector) are inside the CURRENT cell / sector and respect the minimum distance"""
    shapes, cell, _ = _mods()
    kind = hist_kind(case)
    found = []
    obj, wrap, tracked = hist_build(case, check=lambda c, d: found.append((c, d)))
    name = ('wrap:' if wrap is not None else '') + kind
    if found:
        return 'history:%s:%s' % (name, found[0][0]), found[0][1]
    pos, R, rot, wpos = hist_current(case)
    tspec = hist_current_spec(case)
    cspec = tspec['inner'] if tspec['kind'] == 'wrap' else tspec
    target = wrap if wrap is not None else obj
    sc = spec_scale(tspec)
    tol = TOL * sc
    sfx = ':after=' + hist_ops_class(case) + scale_class(tspec)

    def cls(what):
        return 'history:%s:%s%s' % (name, what, sfx)

    # stored attributes are the ones written last
    if abs(complex(obj.pos) - pos) > tol or abs(obj.radius - R) > 1e-12 * R or \
            abs(complex(obj.rotation).real - rot) > 1e-12 * abs(rot):
        return cls('attributes'), 'pos/radius/rotation read back %r %r %r, expected %r %r %r' % (
            obj.pos, obj.radius, obj.rotation, pos, R, rot)
    # a wrap reads radius and rotation from the cell it wraps, whatever happened to that cell since
    if wrap is not None and (abs(float(wrap.radius) - R) > 1e-12 * R or abs(complex(wrap.rotation).real - rot) > 1e-12 * abs(rot)
                             or abs(complex(wrap.pos) - wpos) > tol):
        return cls('wrap-attributes'), 'the CellWrap reports pos/radius/rotation %r %r %r, the wrapped cell has radius %r rotation %r' % (
            wrap.pos, wrap.radius, wrap.rotation, R, rot)
    # the users have followed every move of the cell
    if kind != 'rect':
        got_users = [complex(u.pos) for u in obj.users]
        if len(got_users) != len(tracked) or any(abs(a - b) > tol for a, b in zip(got_users, tracked)):
            return cls('users-did-not-follow'), 'users at %s, expected %s (every user moves with its cell)' % (
                got_users[:3], tracked[:3])
    fresh = make_shape(tspec)
    # vertices: the polygon of the definition with the current attributes, and the fresh object's
    ref = ref_vertices(tspec)
    got = [complex(v) for v in np.asarray(target.vertices)]
    if not cyc_close(got, ref, tol):
        return cls('vertices'), 'vertices %s are not those of a %s with the current attributes %s' % (got[:3], name, ref[:3])
    if not cyc_close(got, [complex(v) for v in np.asarray(fresh.vertices)], tol):
        return cls('vertices'), 'vertices differ from a freshly constructed object'
    # sector cells of a Cell3Sec
    if kind == 'sec3':
        fsec = make_shape(cspec)
        for k, (sec, fs) in enumerate(zip([obj._sec1, obj._sec2, obj._sec3], [fsec._sec1, fsec._sec2, fsec._sec3])):
            sspec = {'kind': 'sector', 'R': R, 'rot': rot, 'pos': c2(pos), 'k': k}
            centre = pos + R / math.sqrt(3) * cis(rot + SEC_ANGLE[k])
            if abs(sec.radius - R / math.sqrt(3)) > 1e-9 * R:
                return cls('sector-radius'), 'sector %d has radius %r, the cell radius %r gives %r' % (
                    k + 1, sec.radius, R, R / math.sqrt(3))
            if abs(complex(sec.pos) - centre) > tol:
                return cls('sector-position'), 'sector %d at %r, expected %r' % (k + 1, sec.pos, centre)
            if not cyc_close([complex(v) for v in np.asarray(sec.vertices)], ref_vertices(sspec), tol):
                return cls('sector-vertices'), 'sector %d is not the sector hexagon of the current cell' % (k + 1)
            if abs(complex(sec.pos) - complex(fs.pos)) > tol or abs(sec.radius - fs.radius) > 1e-9 * R:
                return cls('sector-position'), 'sector %d differs from a freshly constructed cell' % (k + 1)
    # containment
    for q in case['queries']:
        p = cx(q)
        exp, margin = shape_contains_ref(tspec, ref, p)
        if margin < 1e-9 * sc:
            continue
        g = bool(target.is_point_inside_shape(p))
        if g != exp or g != bool(fresh.is_point_inside_shape(p)):
            return cls('contains'), 'is_point_inside_shape(%r) = %s, the point is %s the current polygon' % (
                p, g, 'inside' if exp else 'outside')
    # border points
    tpos = complex(target.pos)
    for ang, ratio in case['angles']:
        if ratio == 0:
            continue
        bp = complex(target.get_border_point(ang, ratio))
        b = tpos + (bp - tpos) / ratio
        rel = (b - tpos) * cis(-ang)
        if not (rel.real > 0 and abs(rel.imag) <= tol) or boundary_dist(ref, b) > tol:
            return cls('border'), 'angle %r ratio %r: border point %r is not on the current boundary in that direction' % (ang, ratio, bp)
        if abs(bp - complex(fresh.get_border_point(ang, ratio))) > tol:
            return cls('border'), 'angle %r: border point differs from a freshly constructed object' % ang
    if kind == 'rect' or wrap is not None:
        return None
    # random users, whole cell
    ratio = case['ratio']
    cref = ref_vertices(cspec)
    with scripted_random(case['draws']):
        try:
            for _ in range(2):
                n0 = len(obj.users)
                obj.add_random_user(None, ratio)
                p = complex(obj.users[-1].pos)
                if len(obj.users) != n0 + 1:
                    return cls('user-count'), 'add_random_user added %d users' % (len(obj.users) - n0)
                if boundary_dist(cref, p) > 1e-9 * sc and not winding_inside(cref, p):
                    return cls('user-outside-cell'), 'user placed at %r, %.3g outside the current cell' % (p, boundary_dist(cref, p))
                if abs(p - pos) < ratio * R * (1 - 1e-12):
                    return cls('user-too-close'), 'user at distance %.6g < %.6g' % (abs(p - pos), ratio * R)
        except StreamEnd:
            pass
    # random users, per sector
    if kind == 'sec3':
        for k in range(3):
            sref = ref_vertices({'kind': 'sector', 'R': R, 'rot': rot, 'pos': c2(pos), 'k': k})
            centre = pos + R / math.sqrt(3) * cis(rot + SEC_ANGLE[k])
            with scripted_random(case['sector_draws'][k]):
                try:
                    for use_many in (False, True):
                        n0 = len(obj.users)
                        if use_many:
                            obj.add_random_users_in_sector(2, k + 1, None, ratio)
                        else:
                            obj.add_random_user_in_sector(k + 1, None, ratio)
                        for us in obj.users[n0:]:
                            p = complex(us.pos)
                            if boundary_dist(sref, p) > 1e-9 * sc and not winding_inside(sref, p):
                                return cls('sector-user-outside'), ('user of sector %d placed at %r, %.3g outside the current '
                                                                    'sector (%.3g cell radii from the centre)'
                                                                    % (k + 1, p, boundary_dist(sref, p), abs(p - pos) / R))
                            if boundary_dist(cref, p) > 1e-9 * sc and not winding_inside(cref, p):
                                return cls('sector-user-outside'), 'user of sector %d at %r is outside the cell' % (k + 1, p)
                            if abs(p - centre) < ratio * R / math.sqrt(3) * (1 - 1e-12):
                                return cls('sector-user-too-close'), 'sector user at distance %.6g from the sector centre' % abs(p - centre)
                except StreamEnd:
                    pass
    return None


# ------------------------------------------------------------------ R1 element types, R2 layout, R3 aliasing
NP_TYPES = {'int8': np.int8, 'uint8': np.uint8, 'int16': np.int16, 'uint16': np.uint16, 'int32': np.int32,
            'int64': np.int64, 'float16': np.float16, 'float32': np.float32, 'float64': np.float64,
            'complex64': np.complex64, 'complex128': np.complex128}
INT_TYPES = ['int', 'int8', 'uint8', 'int16', 'uint16', 'int32', 'int64']
REAL_TYPES = INT_TYPES + ['float', 'float16', 'float32', 'float64']
TYPE_EPS = {'float16': 4e-3, 'float32': 2e-6, 'complex64': 2e-6}


def fits(v, t):
    """can the value be stored exactly in the type?"""
    if isinstance(v, complex) and t not in ('complex', 'complex64', 'complex128'):
        if v.imag != 0:
            return False
        v = v.real
    if t in ('complex', 'complex64', 'complex128', 'float', 'float64'):
        return True
    if t == 'int':
        return float(v) == int(v)
    if t in ('float16', 'float32'):
        return float(NP_TYPES[t](v)) == float(v)
    info = np.iinfo(NP_TYPES[t])
    return float(v) == int(v) and info.min <= int(v) <= info.max


def cast(v, t):
    """the same VALUE as another element type"""
    if t == 'float':
        return float(v.real if isinstance(v, complex) else v)
    if t == 'int':
        return int(v.real if isinstance(v, complex) else v)
    if t == 'complex':
        return complex(v)
    if t in ('complex64', 'complex128'):
        return NP_TYPES[t](v)
    return NP_TYPES[t](v.real if isinstance(v, complex) else v)


def cast_seq(vals, t):
    """`arr:<dtype>`, `list`, `tuple` containers of the same values"""
    if t == 'list':
        return list(vals)
    if t == 'tuple':
        return tuple(vals)
    return np.array(vals, dtype=NP_TYPES[t[4:]])


def type_tol(t):
    t = t[4:] if t.startswith('arr:') else t
    return TYPE_EPS.get(t, TOL)


def gen_int_spec(rng, kind):
    """a shape whose numbers are small integers, so that every element type can hold them"""
    pos = [float(rng.randint(0, 100)), 0.0] if rng.chance(0.5) else [float(rng.randint(-100, 100)), float(rng.randint(-100, 100))]
    R = float(rng.choice([1, 2, 3, 5, 10, 100, 120, 200]))
    rot = float(rng.choice([0, 15, 20, 30, 45, 90, 100, 120, -15, -30, -90, -120, 180, 200, 250, 360, -720]))
    if kind in ('hex', 'sec3', 'hexshape'):
        return {'kind': kind, 'R': R, 'rot': rot, 'pos': pos}
    if kind == 'square':
        return {'kind': kind, 'side': R, 'rot': rot, 'pos': pos}
    if kind == 'circle':
        return {'kind': kind, 'R': R, 'pos': pos}
    raise ValueError(kind)


def make_shape_typed(spec, param, t):
    """the real object with ONE constructor argument given as another element type"""
    shapes, cell, _ = _mods()
    k = spec['kind']
    pos = cx(spec['pos'])
    size = spec['side'] if k == 'square' else spec['R']
    rot = spec.get('rot', 0.0)
    if param == 'pos':
        pos = cast(pos, t)
    elif param == 'size':
        size = cast(size, t)
    elif param == 'rot':
        rot = cast(rot, t)
    if k == 'hex':
        return cell.Cell(pos, size, rotation=rot)
    if k == 'hexshape':
        return shapes.Hexagon(pos, size, rot)
    if k == 'sec3':
        return cell.Cell3Sec(pos, size, rotation=rot)
    if k == 'square':
        return cell.CellSquare(pos, size, rotation=rot)
    if k == 'circle':
        return shapes.Circle(pos, size)
    raise ValueError(k)


def quiet():
    import warnings
    c = warnings.catch_warnings()
    c.__enter__()
    warnings.simplefilter('ignore')
    return c


def o_types(case):
    """R1: the same VALUES as another element type give the same cell: vertices, sector cells, containment,
    border points, users, cluster centres, point processes, rotated positions; float results are never
    truncated to an integer type"""
    shapes, cell, pp = _mods()
    w = quiet()
    try:
        return _o_types(case, shapes, cell, pp)
    except StreamEnd:
        return None
    except Exception as e:
        return ('types:%s:%s=%s:raises:%s' % (case['api'], case['param'], case['type'], type(e).__name__), repr(e)[:200])
    finally:
        w.__exit__(None, None, None)


def _o_types(case, shapes, cell, pp):
    api, param, t = case['api'], case['param'], case['type']
    cls = 'types:%s:%s=%s' % (api, param, t)
    eps = type_tol(t)
    if api in ('shape', 'setter'):
        spec = case['spec']
        sc = shape_size(spec) + abs(cx(spec['pos']))
        tol = eps * sc
        twin = make_shape(spec)
        if api == 'shape':
            obj = make_shape_typed(spec, param, t) if param in ('pos', 'size', 'rot') else make_shape(spec)
        else:   # the attribute is written through the setter / move helper with the other type
            start = dict(spec)
            if param == 'pos':
                start['pos'] = [spec['pos'][0] + 7.0, spec['pos'][1]]
            elif param in ('move', 'polar'):
                start['pos'] = [spec['pos'][0] - 4.0, spec['pos'][1]]
            elif param == 'size':
                start['side' if spec['kind'] == 'square' else 'R'] = (spec['side'] if spec['kind'] == 'square' else spec['R']) * 3.0
            elif param == 'rot':
                start['rot'] = spec['rot'] + 50.0
            obj = make_shape(start)
            if param == 'pos':
                obj.pos = cast(cx(spec['pos']), t)
            elif param == 'move':
                obj.move_by_relative_coordinate(cast(complex(4.0), t))
            elif param == 'polar':
                obj.move_by_relative_polar_coordinate(cast(4.0, t), 0 if t in INT_TYPES else cast(0.0, t))
            elif param == 'size':
                if spec['kind'] == 'square':       # the radius of a square is its half diagonal: write 5 into both
                    obj = make_shape(spec)
                    twin.radius = 5.0
                    obj.radius = cast(5.0, t)
                else:
                    obj.radius = cast(spec['R'], t)
            elif param == 'rot':
                obj.rotation = cast(spec['rot'], t)
        v1 = np.asarray(obj.vertices)
        v0 = np.asarray(twin.vertices)
        if not np.iscomplexobj(v1) or v1.dtype != np.complex128:
            return cls, 'vertices have dtype %s' % v1.dtype
        if v1.shape != v0.shape or np.max(np.abs(v1 - v0)) > tol:
            return cls, 'vertices %s differ from those of the float64 twin %s' % (v1[:3], v0[:3])
        if spec['kind'] == 'sec3':
            for a, b in zip((obj._sec1, obj._sec2, obj._sec3), (twin._sec1, twin._sec2, twin._sec3)):
                if abs(complex(a.pos) - complex(b.pos)) > tol or abs(float(a.radius) - float(b.radius)) > tol or \
                        not np.allclose(np.asarray(a.vertices), np.asarray(b.vertices), rtol=0, atol=tol):
                    return cls, 'sector cell (pos %r, radius %r, rotation %r) differs from the twin\'s (%r, %r, %r)' % (
                        a.pos, a.radius, a.rotation, b.pos, b.radius, b.rotation)
        ref = [complex(z) for z in v0]
        for q in case['queries']:
            p = cx(q)
            pq = cast(p, t) if param == 'q' else p
            if base_kind(spec) == 'circle':
                margin = abs(abs(p - cx(spec['pos'])) - spec['R'])
            else:
                margin = boundary_dist(ref, p)
            if margin < 10 * tol:
                continue
            if bool(obj.is_point_inside_shape(pq)) != bool(twin.is_point_inside_shape(p)):
                return cls, 'is_point_inside_shape(%r) differs from the float64 twin' % (pq,)
        for ang, ratio in case['angles']:
            a = cast(ang, t) if param == 'angle' else ang
            r = cast(ratio, t) if param == 'ratio' else ratio
            b1 = complex(obj.get_border_point(a, r))
            b0 = complex(twin.get_border_point(ang, ratio))
            if abs(b1 - b0) > tol:
                return cls, 'get_border_point(%r, %r) = %r, the float64 twin gives %r' % (a, r, b1, b0)
        if spec['kind'] in ('hex', 'sec3', 'square'):
            md = cast(case['ratio_md'], t) if param == 'min_dist' else case['ratio_md']
            with scripted_random(case['draws']):
                try:
                    obj.add_random_user(None, md)
                    u1 = complex(obj.users[-1].pos)
                except StreamEnd:
                    u1 = None
            with scripted_random(case['draws']):
                try:
                    twin.add_random_user(None, case['ratio_md'])
                    u0 = complex(twin.users[-1].pos)
                except StreamEnd:
                    u0 = None
            if eps == TOL and ((u1 is None) != (u0 is None) or (u1 is not None and abs(u1 - u0) > tol)):
                return cls, 'add_random_user placed the user at %r, the float64 twin at %r' % (u1, u0)
        return None
    if api == 'border_user':
        spec = case['spec']
        sc = shape_size(spec) + abs(cx(spec['pos']))
        tol = eps * sc
        obj, twin = make_shape(spec), make_shape(spec)
        angs = [a for a, _ in case['angles']]
        rats = [float(r) for _, r in case['angles']]
        twin.add_border_user(angs, rats)
        if param == 'angles':
            obj.add_border_user(cast_seq(angs, t), rats)
        elif param == 'ratios':
            obj.add_border_user(angs, cast_seq(rats, t))
        elif param == 'angle':       # scalar angle and scalar ratio, one call per user
            for a, r in zip(angs, rats):
                obj.add_border_user(cast(a, t), r)
        elif param == 'ratio':
            for a, r in zip(angs, rats):
                obj.add_border_user(a, cast(r, t))
        u1 = [complex(u.pos) for u in obj.users]
        u0 = [complex(u.pos) for u in twin.users]
        if len(u1) != len(u0) or any(abs(a - b) > tol for a, b in zip(u1, u0)):
            return cls, 'border users at %s, the float64 twin has them at %s' % (u1[:3], u0[:3])
        return None
    if api == 'cluster':
        n, R, rot, ctype = case['n'], case['R'], case['rot'], case['ctype']
        pos = cx(case['pos'])
        tol = eps * (6 * R + abs(pos))
        twin = cell.Cluster(cell_radius=R, num_cells=n, pos=pos, cell_type=ctype, rotation=rot)
        kw = {'cell_radius': R, 'num_cells': n, 'pos': pos, 'rotation': rot}
        if param in kw:
            kw[param] = cast(kw[param], t)
        obj = cell.Cluster(cell_type=ctype, **kw)
        c1 = [complex(c.pos) for c in obj]
        c0 = [complex(c.pos) for c in twin]
        if len(c1) != len(c0) or any(abs(a - b) > tol for a, b in zip(c1, c0)):
            return cls, 'cell centres %s, the float64 twin has %s' % (c1[:3], c0[:3])
        for a, b in zip(obj, twin):
            if not np.allclose(np.asarray(a.vertices), np.asarray(b.vertices), rtol=0, atol=tol):
                return cls, 'cell %s has vertices %s, the twin\'s cell %s' % (a.id, np.asarray(a.vertices)[:2], np.asarray(b.vertices)[:2])
            if ctype == '3sec' and not np.allclose(np.asarray(a._sec1.vertices), np.asarray(b._sec1.vertices), rtol=0, atol=tol):
                return cls, 'sector of cell %s (rotation %r) differs from the twin\'s (rotation %r)' % (
                    a.id, a._sec1.rotation, b._sec1.rotation)
        ids = case['ids']
        st = np.random.get_state()
        try:
            np.random.seed(case['npseed'])
            twin.add_random_users(ids, case['num_users'], None, case['min_dist'])
            twin.add_border_users(ids, case['angle'], case['bratio'])
            np.random.seed(case['npseed'])
            a_ids, a_num, a_md, a_ang, a_br = ids, case['num_users'], case['min_dist'], case['angle'], case['bratio']
            if param == 'cell_ids':
                a_ids = cast_seq(ids, t) if t.startswith('arr:') or t in ('list', 'tuple') else cast(ids[0], t)
                if not (t.startswith('arr:') or t in ('list', 'tuple')):
                    np.random.seed(case['npseed'])
                    twin = cell.Cluster(cell_radius=R, num_cells=n, pos=pos, cell_type=ctype, rotation=rot)
                    twin.add_random_users(ids[0], case['num_users'], None, case['min_dist'])
                    twin.add_border_users(ids[0], case['angle'], case['bratio'])
                    np.random.seed(case['npseed'])
            elif param == 'num_users':
                a_num = cast(case['num_users'], t)
            elif param == 'min_dist':
                a_md = cast(case['min_dist'], t)
            elif param == 'angle':
                a_ang = cast(case['angle'], t)
            elif param == 'bratio':
                a_br = cast(case['bratio'], t)
            obj.add_random_users(a_ids, a_num, None, a_md)
            obj.add_border_users(a_ids, a_ang, a_br)
        finally:
            np.random.set_state(st)
        u1 = [complex(u.pos) for c in obj for u in c.users]
        u0 = [complex(u.pos) for c in twin for u in c.users]
        if len(u1) != len(u0) or any(abs(a - b) > tol for a, b in zip(u1, u0)):
            return cls, '%d users at %s, the float64 twin has %d at %s' % (len(u1), u1[:2], len(u0), u0[:2])
        M1 = np.asarray(obj.calc_dist_all_users_to_each_cell())
        if u1 and (M1.dtype.kind != 'f' or M1.shape != (len(u1), n)):
            return cls, 'distance matrix dtype %s shape %s' % (M1.dtype, M1.shape)
        return None
    if api == 'pointprocess':
        n = case['n']
        draws = case['draws']
        if case['what'] == 'circle':
            args0 = [n, case['rmax'], case['rmin']]
            f = pp.generate_random_points_in_circle
            names = ['num_points', 'max_radius', 'min_radius']
            sc = case['rmax']
        else:
            args0 = [n, case['w'], case['h']]
            f = pp.generate_random_points_in_rectangle
            names = ['num_points', 'width', 'height']
            sc = max(case['w'], case['h'])
        args1 = list(args0)
        args1[names.index(param)] = cast(args0[names.index(param)], t)
        with scripted_random(draws):
            p0 = np.asarray(f(*args0))
        with scripted_random(draws):
            p1 = np.asarray(f(*args1))
        if p1.shape != p0.shape or not np.iscomplexobj(p1) or (p0.size and np.max(np.abs(p1 - p0)) > eps * sc):
            return cls, 'points %s (dtype %s), the float64 twin gives %s' % (p1[:3], p1.dtype, p0[:3])
        return None
    if api == 'rotated':
        vals = case['values']
        ang = case['angle']
        twin = np.asarray(shapes.Shape.calc_rotated_pos(np.array(vals, dtype=complex), float(ang)))
        if param == 'cur_pos':
            arg = cast_seq([v.real for v in map(complex, vals)] if not t.endswith(('complex64', 'complex128')) else vals, t)
            before = np.array(arg, copy=True)
            out = np.asarray(shapes.Shape.calc_rotated_pos(arg, float(ang)))
            twin = np.asarray(shapes.Shape.calc_rotated_pos(np.array(before, dtype=complex), float(ang)))
            if not np.array_equal(np.asarray(arg), before) or np.asarray(arg).dtype != before.dtype:
                return cls, 'calc_rotated_pos changed its input'
        else:
            out = np.asarray(shapes.Shape.calc_rotated_pos(np.array(vals, dtype=complex), cast(ang, t)))
        if out.shape != twin.shape or not np.iscomplexobj(out) or np.max(np.abs(out - twin)) > eps * max(1e-300, np.max(np.abs(twin))):
            return cls, 'rotated positions %s (dtype %s), the complex128 twin gives %s' % (out[:3], out.dtype, twin[:3])
        return None
    raise KeyError(api)


def gen_types_case(rng, api=None, param=None, t=None, kind=None):
    api = api or rng.choice(['shape', 'shape', 'setter', 'border_user', 'cluster', 'pointprocess', 'rotated'])
    for _ in range(200):
        case = _gen_types_case(rng, api, param, t, kind)
        if case is not None:
            return case
    raise RuntimeError('no representable case for %s %s %s' % (api, param, t))


def _gen_types_case(rng, api, param, t, kind=None):
    if api in ('shape', 'setter'):
        kind = kind or rng.choice(['hex', 'sec3', 'sec3', 'square', 'circle'] if api == 'shape' else ['hex', 'sec3', 'sec3', 'square'])
        spec = gen_int_spec(rng, kind)
        params = (['pos', 'size', 'rot', 'q', 'angle', 'ratio', 'min_dist'] if api == 'shape' else
                  ['pos', 'size', 'rot', 'move', 'polar'])
        if kind == 'circle':
            params = ['pos', 'size', 'q', 'angle', 'ratio']
        param = param or rng.choice(params)
        if param in ('pos', 'q', 'move'):
            t = t or rng.choice(['complex', 'complex64', 'complex128', 'int', 'float', 'uint8', 'int8', 'int16', 'float32', 'int64'])
        elif param == 'ratio':
            t = t or rng.choice(['int', 'float32', 'float16', 'float64', 'uint8', 'int64'])
        else:
            t = t or rng.choice(REAL_TYPES)
        size = spec['side'] if kind == 'square' else spec['R']
        angles = [[float(rng.choice([0, 30, 45, 60, 90, 100, 120, 200, 250, -30, -120])), rng.choice([1.0, 0.5, 0.0])]
                  for _ in range(4)]
        if param == 'ratio':
            angles = [[a, rng.choice([0.0, 1.0] if t in INT_TYPES else [0.5, 0.25, 1.0, 0.0])] for a, _ in angles]
        if param == 'q' and t not in ('complex', 'complex64', 'complex128'):
            spec['pos'] = [spec['pos'][0], 0.0]          # real query points for the real element types
            queries = [[spec['pos'][0] + rng.randint(-6, 6) * size / 4, 0.0] for _ in range(6)]
        else:
            queries = [c2(cx(spec['pos']) + complex(rng.randint(-2, 2) * size, rng.randint(-2, 2) * size) / 2) for _ in range(6)]
        md = rng.choice([0.0, 0.5]) if param != 'min_dist' or t not in INT_TYPES else 0.0
        vals = {'pos': cx(spec['pos']), 'size': size, 'rot': spec.get('rot', 0.0), 'move': 4.0, 'polar': 4.0, 'min_dist': md}
        if param in vals and not fits(vals[param], t):
            return None
        if param == 'q' and not all(fits(cx(q), t) for q in queries):
            return None
        if param == 'angle' and not all(fits(a, t) for a, _ in angles):
            return None
        if param == 'ratio' and not all(fits(r, t) for _, r in angles):
            return None
        return {'api': api, 'param': param, 'type': t, 'spec': spec, 'queries': queries, 'angles': angles,
                'ratio_md': md, 'draws': gen_draws(rng, 40)}
    if api == 'border_user':
        spec = gen_int_spec(rng, kind or rng.choice(['hex', 'sec3', 'square']))
        param = param or rng.choice(['angles', 'ratios', 'angle', 'ratio'])
        if param == 'angles':
            t = t or rng.choice(['list', 'tuple', 'arr:int16', 'arr:int32', 'arr:int64', 'arr:uint8', 'arr:float32', 'arr:float64'])
        elif param == 'ratios':
            t = t or rng.choice(['list', 'tuple', 'arr:float32', 'arr:float64', 'arr:float16'])
        elif param == 'angle':
            t = t or rng.choice(REAL_TYPES)
        else:
            t = t or rng.choice(['int', 'float', 'float16', 'float32', 'float64', 'uint8', 'int32'])
        ratios = [0.0, 1.0] if (t in INT_TYPES and param == 'ratio') else [0.5, 0.25, 1.0, 0.0]
        angles = [[float(rng.choice([0, 30, 45, 60, 90, 100, 120, 200, 250])), rng.choice(ratios)] for _ in range(3)]
        if param == 'angle' and not all(fits(a, t) for a, _ in angles):
            return None
        if param == 'angles' and t.startswith('arr:') and not all(fits(a, t[4:]) for a, _ in angles):
            return None
        return {'api': api, 'param': param, 'type': t, 'spec': spec, 'angles': angles}
    if api == 'cluster':
        ctype = kind or rng.choice(['simple', '3sec', 'square'])
        n = rng.choice([1, 4, 9]) if ctype == 'square' else rng.choice([1, 3, 7, 19])
        param = param or rng.choice(['cell_radius', 'num_cells', 'pos', 'rotation', 'cell_ids', 'num_users', 'min_dist', 'angle', 'bratio'])
        case = {'api': api, 'param': param, 'ctype': ctype, 'n': n, 'R': float(rng.choice([1, 2, 5, 100])),
                'rot': float(rng.choice([0, 20, 30, 90, 100, 200, -30, -120])),
                'pos': [float(rng.randint(0, 50)), 0.0] if rng.chance(0.6) else [float(rng.randint(-50, 50)), float(rng.randint(-50, 50))],
                'ids': sorted({rng.randint(1, n) for _ in range(2)}), 'num_users': rng.randint(0, 2),
                'min_dist': rng.choice([0.0, 0.5]), 'angle': float(rng.choice([0, 30, 90, 100, 200])),
                'bratio': rng.choice([0.5, 0.25, 1.0]), 'npseed': rng.below(2 ** 31)}
        if param == 'cell_ids':
            t = t or rng.choice(['list', 'tuple', 'arr:int16', 'arr:int64', 'arr:uint8', 'int', 'int8', 'uint8', 'int16', 'int64'])
        elif param == 'num_cells' or param == 'num_users':
            t = t or rng.choice(INT_TYPES)
        elif param == 'pos':
            t = t or rng.choice(['complex', 'complex64', 'int', 'float', 'uint8', 'int16', 'float32'])
        elif param == 'bratio':
            t = t or rng.choice(['float', 'float32', 'float64', 'int', 'uint8'])
            if t in INT_TYPES:
                case['bratio'] = 1.0
        elif param == 'min_dist':
            t = t or rng.choice(['float', 'int', 'float32', 'float64', 'uint8'])
            if t in INT_TYPES:
                case['min_dist'] = 0.0
        else:
            t = t or rng.choice(REAL_TYPES)
        case['type'] = t
        key = {'cell_radius': 'R', 'num_cells': 'n', 'pos': 'pos', 'rotation': 'rot', 'num_users': 'num_users',
               'min_dist': 'min_dist', 'angle': 'angle', 'bratio': 'bratio'}.get(param)
        if key is not None:
            v = cx(case[key]) if key == 'pos' else case[key]
            if not fits(v, t):
                return None
        return case
    if api == 'pointprocess':
        what = ('circle' if param in ('max_radius', 'min_radius') else 'rectangle' if param in ('width', 'height')
                else rng.choice(['circle', 'rectangle']))
        n = rng.randint(0, 6)
        case = {'api': api, 'what': what, 'n': n, 'draws': [rng.uniform() for _ in range(2 * n)]}
        if what == 'circle':
            case.update(rmax=float(rng.choice([2, 5, 100])), rmin=float(rng.choice([0, 1])))
            param = param or rng.choice(['num_points', 'max_radius', 'min_radius'])
        else:
            case.update(w=float(rng.choice([1, 4, 100])), h=float(rng.choice([1, 2, 50])))
            param = param or rng.choice(['num_points', 'width', 'height'])
        t = t or (rng.choice(INT_TYPES) if param == 'num_points' else rng.choice(REAL_TYPES))
        case.update(param=param, type=t)
        return case
    if api == 'rotated':
        param = param or rng.choice(['cur_pos', 'angle'])
        if param == 'cur_pos':
            t = t or rng.choice(['arr:int16', 'arr:int32', 'arr:int64', 'arr:uint8', 'arr:float32', 'arr:complex64', 'arr:complex128'])
        else:
            t = t or rng.choice(REAL_TYPES)
        lo = 0 if 'uint' in t else -100
        vals = [complex(rng.randint(lo, 100), rng.randint(lo, 100) if t.endswith(('complex64', 'complex128')) or param == 'angle' else 0)
                for _ in range(rng.randint(1, 5))]
        ang = float(rng.choice([0, 30, 90, 100, 120, 180, 200, 250] + ([] if 'uint' in t else [-30, -90, -120])))
        if param == 'angle' and not fits(ang, t):
            return None
        return {'api': api, 'param': param, 'type': t, 'values': vals, 'angle': ang}
    raise KeyError(api)


def json_types_case(case):
    """complex values are stored as pairs in replay files"""
    c = dict(case)
    if 'values' in c:
        c['values'] = [[v.real, v.imag] if isinstance(v, complex) else v for v in c['values']]
    return c


def o_types_replayable(case):
    c = dict(case)
    if 'values' in c:
        c['values'] = [complex(v[0], v[1]) if isinstance(v, (list, tuple)) else v for v in c['values']]
    return o_types(c)


def layout_variants(a):
    """views / containers with the same logical content as the 1-D array `a` (R2)"""
    a = np.asarray(a)
    out = {}
    big = np.empty(2 * a.size + 1, dtype=a.dtype)
    big[:] = 77
    big[0:2 * a.size:2] = a
    out['strided'] = big[0:2 * a.size:2]
    out['reversed'] = a[::-1].copy()[::-1]
    two = np.zeros((max(a.size, 1), 3), dtype=a.dtype, order='C')
    two[:a.size, 1] = a
    out['column-of-2d'] = two[:a.size, 1]
    f2 = np.asfortranarray(np.tile(a.reshape(1, -1), (2, 1)))
    out['row-of-fortran'] = f2[1, :]
    if a.size and np.all(a == a.flat[0]):
        out['broadcast'] = np.broadcast_to(a.flat[0], a.shape)
    ro = a.copy()
    ro.setflags(write=False)
    out['read-only'] = ro
    return out


def o_layout(case):
    """R2/R3: non-contiguous, reversed, broadcast, read-only, 0-d, empty and N-d array arguments give the results
    of their C-contiguous copies, position by position, and the arguments are left untouched"""
    shapes, cell, pp = _mods()
    w = quiet()
    try:
        return _o_layout(case, shapes, cell, pp)
    except Exception as e:
        return 'layout:%s:%s:raises:%s' % (case['api'], case['variant'], type(e).__name__), repr(e)[:200]
    finally:
        w.__exit__(None, None, None)


def _o_layout(case, shapes, cell, pp):
    api, variant = case['api'], case['variant']
    cls = 'layout:%s:%s' % (api, variant)

    def snap(x):
        return (np.array(x, copy=True), np.asarray(x).dtype, np.asarray(x).shape)

    def same(x, s):
        return np.asarray(x).dtype == s[1] and np.asarray(x).shape == s[2] and np.array_equal(np.asarray(x), s[0])

    if api == 'add_border_user':
        spec = case['spec']
        tol = TOL * spec_scale(spec)
        angs = np.array([a for a, _ in case['angles']], dtype=float)
        rats = np.array([r for _, r in case['angles']], dtype=float)
        twin = make_shape(spec)
        obj = make_shape(spec)
        if variant == 'empty':
            obj.add_border_user(np.array([]), np.array([]))
            return None if len(obj.users) == 0 else (cls, 'users added for an empty angle array')
        if variant == '0-d':
            twin.add_border_user(float(angs[0]), float(rats[0]))
            obj.add_border_user(np.array(angs[0]), float(rats[0]))
        else:
            twin.add_border_user(angs.copy(), rats.copy())
            which = case.get('which', 'angles')
            va = layout_variants(angs if which == 'angles' else rats).get(variant)
            if va is None:
                return None
            s0 = snap(va)
            if which == 'angles':
                obj.add_border_user(va, rats.copy())
            else:
                obj.add_border_user(angs.copy(), va)
            if not same(va, s0):
                return 'aliasing:add_border_user:input-changed:' + variant, 'the %s array was modified' % which
        u1 = [complex(u.pos) for u in obj.users]
        u0 = [complex(u.pos) for u in twin.users]
        if len(u1) != len(u0) or any(abs(a - b) > tol for a, b in zip(u1, u0)):
            return cls, 'users at %s, the contiguous copy gives %s' % (u1[:3], u0[:3])
        return None
    if api == 'calc_rotated_pos':
        A = np.array([complex(*v) for v in case['values']], dtype=complex).reshape(case['shape'])
        ang = case['angle']
        ref = np.asarray(shapes.Shape.calc_rotated_pos(np.ascontiguousarray(A).copy(), ang))
        if variant == 'fortran':
            arg = np.asfortranarray(A)
        elif variant == 'transposed':
            arg = np.ascontiguousarray(A.T).T
        elif variant == 'strided':
            big = np.zeros(A.shape[:-1] + (2 * A.shape[-1],), dtype=complex) if A.ndim else None
            if big is None:
                return None
            big[..., ::2] = A
            arg = big[..., ::2]
        elif variant == 'reversed':
            arg = A[..., ::-1].copy()[..., ::-1] if A.ndim else A
        elif variant == 'read-only':
            arg = A.copy()
            arg.setflags(write=False)
        elif variant == '0-d':
            arg = np.array(A.flat[0])
            ref = np.asarray(shapes.Shape.calc_rotated_pos(complex(A.flat[0]), ang))
        elif variant == 'empty':
            arg = np.zeros((0,) + A.shape[1:], dtype=complex)
            ref = arg.copy()
        else:
            arg = A
        s0 = snap(arg)
        out = np.asarray(shapes.Shape.calc_rotated_pos(arg, ang))
        if not same(arg, s0):
            return 'aliasing:calc_rotated_pos:input-changed:' + variant, 'the input array was modified'
        if out.shape != ref.shape or (out.size and np.max(np.abs(out - ref)) > 1e-12 * np.max(np.abs(ref))):
            return cls, 'shape %s values %s, contiguous copy gives shape %s values %s' % (out.shape, out.ravel()[:3], ref.shape, ref.ravel()[:3])
        if out.size and np.shares_memory(out, arg):
            return 'aliasing:calc_rotated_pos:output-aliases-input:' + variant, 'the result shares memory with the argument'
        return None
    if api == 'from_complex_array_to_real_matrix':
        a = np.array([complex(*v) for v in case['values']], dtype=complex)
        ref = np.column_stack([a.real, a.imag]) if a.size else np.zeros((0, 2))
        arg = layout_variants(a).get(variant, a.copy()) if variant != 'contiguous' else a.copy()
        if variant == 'complex64':
            arg = a.astype(np.complex64)
        s0 = snap(arg)
        out = np.asarray(shapes.from_complex_array_to_real_matrix(arg))
        if not same(arg, s0):
            return ('aliasing:from_complex_array_to_real_matrix:input-changed:' + variant,
                    'the argument is now %s %s (it was complex with shape %s)' % (np.asarray(arg).dtype, np.asarray(arg).shape, s0[2]))
        if out.shape != ref.shape or (out.size and np.max(np.abs(out - ref)) > 1e-6 * np.max(np.abs(ref))):
            return cls, 'result %s, expected %s' % (out[:2], ref[:2])
        return None
    if api == 'cluster_ids':
        n = case['n']
        ids = np.array(case['ids'], dtype=int)
        nums = np.array(case['nums'], dtype=int)
        tw = cell.Cluster(1.5, n, cell_type=case['ctype'])
        ob = cell.Cluster(1.5, n, cell_type=case['ctype'])
        st = np.random.get_state()
        try:
            np.random.seed(case['npseed'])
            tw.add_random_users(ids.copy(), nums.copy())
            tw.add_border_users(ids.copy(), 30.0, 0.5)
            np.random.seed(case['npseed'])
            which = case.get('which', 'ids')
            va = layout_variants(ids if which == 'ids' else nums).get(variant)
            if va is None:
                return None
            s0 = snap(va)
            ob.add_random_users(va if which == 'ids' else ids.copy(), nums.copy() if which == 'ids' else va)
            ob.add_border_users(va if which == 'ids' else ids.copy(), 30.0, 0.5)
        finally:
            np.random.set_state(st)
        if not same(va, s0):
            return 'aliasing:Cluster.add_random_users:input-changed:' + variant, 'the %s array was modified' % which
        u1 = [[complex(u.pos) for u in c.users] for c in ob]
        u0 = [[complex(u.pos) for u in c.users] for c in tw]
        if [len(x) for x in u1] != [len(x) for x in u0] or any(abs(a - b) > 1e-9 for x, y in zip(u1, u0) for a, b in zip(x, y)):
            return cls, 'users per cell %s, the contiguous copy gives %s' % ([len(x) for x in u1], [len(x) for x in u0])
        return None
    raise KeyError(api)


def gen_layout_case(rng, api=None, variant=None):
    api = api or rng.choice(['add_border_user', 'calc_rotated_pos', 'calc_rotated_pos', 'from_complex_array_to_real_matrix', 'cluster_ids'])
    if api == 'add_border_user':
        spec = gen_spec(rng, ['hex', 'sec3', 'square'], 0)
        same_val = rng.chance(0.3)
        n = rng.randint(1, 5)
        a0 = float(rng.randint(-24, 24) * 15)
        angles = [[a0 if same_val else float(rng.randint(-24, 24) * 15 + rng.choice([0, 7])), rng.choice([0.5, 1.0, 0.25])]
                  for _ in range(n)]
        if same_val:
            angles = [[a0, 0.5] for _ in range(n)]
        variant = variant or rng.choice(['strided', 'reversed', 'column-of-2d', 'row-of-fortran', 'read-only', '0-d', 'empty']
                                        + (['broadcast'] if same_val else []))
        return {'api': api, 'variant': variant, 'spec': spec, 'angles': angles, 'which': rng.choice(['angles', 'ratios'])}
    if api == 'calc_rotated_pos':
        shape = rng.choice([[4], [3, 1], [1, 3], [2, 3], [2, 2, 2], [1], [5]])
        n = int(np.prod(shape))
        variant = variant or rng.choice(['fortran', 'transposed', 'strided', 'reversed', 'read-only', '0-d', 'empty', 'contiguous'])
        return {'api': api, 'variant': variant, 'shape': shape, 'angle': gen_rot(rng),
                'values': [[round(rng.uniform(-9, 9), 3), round(rng.uniform(-9, 9), 3)] for _ in range(n)]}
    if api == 'from_complex_array_to_real_matrix':
        n = rng.randint(0, 6)
        variant = variant or rng.choice(['contiguous', 'strided', 'reversed', 'column-of-2d', 'row-of-fortran', 'complex64', 'read-only'])
        return {'api': api, 'variant': variant,
                'values': [[float(rng.randint(-9, 9)), float(rng.randint(-9, 9))] for _ in range(n)]}
    ctype = rng.choice(['simple', '3sec', 'square'])
    n = 9 if ctype == 'square' else 7
    k = rng.randint(1, 4)
    ids = [rng.randint(1, n) for _ in range(k)]
    same_val = rng.chance(0.3)
    nums = [1] * k if same_val else [rng.randint(0, 2) for _ in range(k)]
    variant = variant or rng.choice(['strided', 'reversed', 'column-of-2d', 'row-of-fortran', 'read-only']
                                    + (['broadcast'] if same_val else []))
    which = 'nums' if variant == 'broadcast' else rng.choice(['ids', 'nums'])
    return {'api': api, 'variant': variant, 'ctype': ctype, 'n': n, 'ids': ids, 'nums': nums, 'which': which,
            'npseed': rng.below(2 ** 31)}


def o_aliasing(case):
    """R3: arrays handed out earlier stay as they were when later calls are made, writing into them does not
    reach the object, and clusters of the same size do not share their (cached) positions"""
    shapes, cell, _ = _mods()
    what = case['what']
    if what == 'vertices':
        case2 = dict(case['history'])
        obj, wrap, _ = hist_build(dict(case2, ops=[]))
        target = wrap if wrap is not None else obj
        v1 = target.vertices
        b1 = target._get_vertex_positions()
        keep, keepb = np.array(v1, copy=True), np.array(b1, copy=True)
        obj2, wrap2, _ = hist_build(case2)          # an identical object goes through the history
        # later calls on the SAME object
        for op in case2['ops']:
            if op[0] == 'P':
                obj.pos = complex(op[1], op[2])
            elif op[0] == 'R':
                obj.radius = op[1]
            elif op[0] == 'T':
                obj.rotation = op[1]
            elif op[0] == 'M':
                obj.move_by_relative_coordinate(complex(op[1], op[2]))
        target.get_border_point(10.0, 0.5)
        target.is_point_inside_shape(complex(target.pos))
        if not np.array_equal(np.asarray(v1), keep) or not np.array_equal(np.asarray(b1), keepb):
            return 'aliasing:vertices:changed-by-later-calls', 'an array returned by `vertices` changed after later calls'
        v2 = target.vertices
        expect = np.array(v2, copy=True)
        v2[...] = 1e300
        target._get_vertex_positions()[...] = -1e300
        v3 = np.asarray(target.vertices)
        if not np.array_equal(v3, expect):
            return 'aliasing:vertices:writable-internal-buffer', 'writing into the returned vertices changed the object'
        return None
    if what == 'cluster':
        n, ctype = case['n'], case['ctype']
        A = cell.Cluster(case['R1'], n, pos=cx(case['pos1']), cell_type=ctype, rotation=case['rot1'])
        a0 = [complex(c.pos) for c in A]
        va = [np.array(c.vertices, copy=True) for c in A]
        B = cell.Cluster(case['R2'], n, pos=cx(case['pos2']), cell_type=ctype, rotation=case['rot2'])
        B.add_random_users(1, 1)
        if n == 19 and ctype != 'square':
            B.create_wrap_around_cells()
            B.create_wrap_around_cells()
            if len(B._wrapped_cells) != 42:
                return 'aliasing:cluster:wrap-repeated', '%d wrapped cells after calling create_wrap_around_cells twice' % len(B._wrapped_cells)
        if [complex(c.pos) for c in A] != a0 or any(not np.array_equal(np.asarray(c.vertices), v) for c, v in zip(A, va)):
            return 'aliasing:cluster:shared-positions', 'building a second cluster changed the cells of the first'
        A2 = cell.Cluster(case['R1'], n, pos=cx(case['pos1']), cell_type=ctype, rotation=case['rot1'])
        if any(abs(x - y) > 1e-12 * (abs(x) + case['R1']) for x, y in zip([complex(c.pos) for c in A2], a0)):
            return 'aliasing:cluster:order-dependent', 'a cluster built after another one differs from the one built before'
        st = np.random.get_state()
        np.random.seed(case['npseed'])
        try:
            A.add_random_users(None, 1)
        finally:
            np.random.set_state(st)
        M1 = A.calc_dist_all_users_to_each_cell()
        keep = np.array(M1, copy=True)
        A.add_border_users(1, 30.0, 0.5)
        M2 = A.calc_dist_all_users_to_each_cell()
        if not np.array_equal(M1, keep):
            return 'aliasing:distmatrix:changed-by-later-calls', 'an earlier distance matrix changed'
        e2 = np.array(M2, copy=True)
        M2[...] = -1.0
        if not np.array_equal(np.asarray(A.calc_dist_all_users_to_each_cell()), e2):
            return 'aliasing:distmatrix:writable-internal-buffer', 'writing into the returned matrix changed later results'
        return None
    if what == 'wrap-shared':
        # one cell wrapped twice: the wraps and the cell do not influence each other
        inner = make_shape(case['spec'])
        w1 = cell.CellWrap(cx(case['w1']), inner)
        w2 = cell.CellWrap(cx(case['w2']), inner)
        i0 = observables(inner)
        v2 = np.array(w2.vertices, copy=True)
        w1.pos = cx(case['w3'])
        w1.move_by_relative_coordinate(1.0 + 2.0j)
        try:
            w1.radius = 3.0
        except AttributeError:
            pass
        if observables(inner) != i0:
            return 'aliasing:wrap:wrapped-cell-changed', 'moving a CellWrap changed the wrapped cell'
        if not np.array_equal(np.asarray(w2.vertices), v2):
            return 'aliasing:wrap:other-wrap-changed', 'moving one CellWrap changed another wrap of the same cell'
        return None
    raise KeyError(what)



FIXED_TYPES = [('shape', 'rot', 'uint8', 'square'), ('shape', 'rot', 'uint8', 'sec3'), ('shape', 'rot', 'uint8', 'hex'),
               ('shape', 'rot', 'int8', 'sec3'), ('shape', 'rot', 'uint16', 'square'), ('shape', 'size', 'uint8', 'hex'),
               ('shape', 'size', 'uint8', 'sec3'), ('shape', 'size', 'uint8', 'square'), ('shape', 'size', 'uint16', 'hex'),
               ('setter', 'rot', 'uint8', 'sec3'), ('setter', 'rot', 'uint8', 'square'), ('setter', 'rot', 'int8', 'sec3'),
               ('setter', 'size', 'uint8', 'hex'), ('setter', 'size', 'uint8', 'square'), ('shape', 'pos', 'uint8', 'square'),
               ('cluster', 'rotation', 'uint8', '3sec'), ('cluster', 'rotation', 'uint8', 'square'),
               ('cluster', 'cell_radius', 'uint8', 'simple'), ('cluster', 'cell_radius', 'uint8', 'square'),
               ('shape', 'rot', 'uint8'), ('shape', 'rot', 'int8'), ('shape', 'rot', 'int16'), ('shape', 'rot', 'float32'),
               ('shape', 'size', 'uint8'), ('shape', 'size', 'int8'), ('shape', 'size', 'uint16'), ('shape', 'size', 'float16'),
               ('shape', 'size', 'float32'), ('shape', 'size', 'int'), ('shape', 'pos', 'complex64'), ('shape', 'pos', 'int'),
               ('shape', 'pos', 'uint8'), ('shape', 'q', 'float32'), ('shape', 'q', 'int'), ('shape', 'angle', 'int8'),
               ('shape', 'angle', 'uint8'), ('shape', 'angle', 'float16'), ('shape', 'ratio', 'int'), ('shape', 'ratio', 'float32'),
               ('shape', 'min_dist', 'int'), ('setter', 'rot', 'uint8'), ('setter', 'rot', 'int8'), ('setter', 'size', 'uint8'),
               ('setter', 'pos', 'complex64'), ('setter', 'move', 'int8'), ('setter', 'polar', 'float32'),
               ('border_user', 'ratio', 'int'), ('border_user', 'ratio', 'float32'), ('border_user', 'ratio', 'float16'),
               ('border_user', 'ratio', 'float64'), ('border_user', 'angle', 'int16'), ('border_user', 'angle', 'uint8'),
               ('border_user', 'angles', 'arr:int16'), ('border_user', 'angles', 'list'), ('border_user', 'angles', 'tuple'),
               ('border_user', 'ratios', 'arr:float32'), ('border_user', 'ratios', 'tuple'),
               ('cluster', 'num_cells', 'uint8'), ('cluster', 'num_cells', 'int64'), ('cluster', 'cell_radius', 'int8'),
               ('cluster', 'cell_radius', 'float32'), ('cluster', 'rotation', 'uint8'), ('cluster', 'rotation', 'int8'),
               ('cluster', 'pos', 'complex64'), ('cluster', 'cell_ids', 'arr:int16'), ('cluster', 'cell_ids', 'uint8'),
               ('cluster', 'cell_ids', 'tuple'), ('cluster', 'num_users', 'int64'), ('cluster', 'num_users', 'uint8'),
               ('cluster', 'min_dist', 'int'), ('cluster', 'min_dist', 'float32'), ('cluster', 'bratio', 'int'),
               ('cluster', 'bratio', 'float32'), ('cluster', 'angle', 'int16'),
               ('pointprocess', 'num_points', 'uint8'), ('pointprocess', 'num_points', 'int64'),
               ('pointprocess', 'max_radius', 'int8'), ('pointprocess', 'min_radius', 'uint8'), ('pointprocess', 'width', 'float32'),
               ('rotated', 'cur_pos', 'arr:int16'), ('rotated', 'cur_pos', 'arr:uint8'), ('rotated', 'cur_pos', 'arr:complex64'),
               ('rotated', 'cur_pos', 'arr:float32'), ('rotated', 'angle', 'int8'), ('rotated', 'angle', 'float16')]
FIXED_LAYOUTS = [('add_border_user', v) for v in ('strided', 'reversed', 'column-of-2d', 'row-of-fortran', 'read-only', '0-d',
                                                  'empty', 'broadcast')] + \
                [('calc_rotated_pos', v) for v in ('fortran', 'transposed', 'strided', 'reversed', 'read-only', '0-d', 'empty')] + \
                [('from_complex_array_to_real_matrix', v) for v in ('contiguous', 'strided', 'reversed', 'complex64', 'read-only')] + \
                [('cluster_ids', v) for v in ('strided', 'reversed', 'read-only', 'broadcast')]
ROT90 = [0.0, 90.0, -90.0, 180.0, -180.0, 270.0, 360.0, -360.0, 450.0, 720.0, -720.0]


def robust_oracles(ctx, n):
    """R1, R2, R3, R5, R6 on the real code (R4 and R7 are part of the histories)"""
    rng = ctx.rng
    # R1 element types
    for ft in FIXED_TYPES:
        a, p_, t_ = ft[:3]
        case = gen_types_case(rng, a, p_, t_, ft[3] if len(ft) > 3 else None)
        run_oracle(ctx, 'element_types', json_types_case(case), key=('types-fixed',) + tuple(ft))
        ctx.branch('R1:' + ('narrow-int' if t_.replace('arr:', '') in INT_TYPES[1:] else
                            'python-int' if t_ == 'int' else 'container' if t_ in ('list', 'tuple') else
                            'narrow-float' if '16' in t_ or '32' in t_ or t_ == 'complex64' else 'float64'))
    for _ in range(n):
        case = gen_types_case(rng)
        run_oracle(ctx, 'element_types', json_types_case(case), key=('types', repr(json_types_case(case))[:300]))
    # R2 layouts (the arguments are snapshotted: R3 input immutability)
    for a, v in FIXED_LAYOUTS:
        for _ in range(40):
            case = gen_layout_case(rng, a, v)
            if v != 'broadcast' or a != 'add_border_user' or len({tuple(x) for x in case['angles']}) == 1:
                break
        run_oracle(ctx, 'array_layout', case, key=('layout-fixed', a, v))
        ctx.branch('R2:' + v)
    for _ in range(n):
        case = gen_layout_case(rng)
        run_oracle(ctx, 'array_layout', case, key=('layout', repr(case)[:300]))
    # R3 output independence
    for _ in range(max(6, n // 3)):
        h = gen_history(rng, rng.choice(['hex', 'sec3', 'square', 'rect', 'wrap:hex', 'wrap:square']), scale=0)
        h['ops'] = [op for op in h['ops'] if op[0] in 'PRTM']
        run_oracle(ctx, 'aliasing', {'what': 'vertices', 'history': h}, key=('alias-v', repr(h['init']), repr(h['ops'])))
        ctx.branch('R3:returned-arrays')
    for ctype, n_ in (('simple', 7), ('simple', 19), ('3sec', 19), ('3sec', 3), ('square', 9), ('simple', 13)):
        case = {'what': 'cluster', 'ctype': ctype, 'n': n_, 'R1': gen_radius(rng), 'R2': gen_radius(rng), 'rot1': gen_rot(rng),
                'rot2': gen_rot(rng), 'pos1': gen_pos(rng), 'pos2': gen_pos(rng), 'npseed': rng.below(2 ** 31)}
        run_oracle(ctx, 'aliasing', case, key=('alias-c', ctype, n_))
        ctx.branch('R7:shared-class-cache')
    for _ in range(4):
        run_oracle(ctx, 'aliasing', {'what': 'wrap-shared', 'spec': gen_spec(rng, ['hex', 'sec3', 'square'], 0),
                                     'w1': gen_pos(rng), 'w2': gen_pos(rng), 'w3': gen_pos(rng)})
        ctx.branch('R7:shared-wrapped-cell')
    # R5 boundary and degenerate values
    tag = 'R5:rotation-multiple-of-90'
    for kind in ('rect', 'rect', 'square', 'hex', 'sec3', 'wrap', 'sector'):
        for rot in ROT90:
            spec = gen_spec(rng, [kind], 0)
            if kind == 'wrap':
                spec['inner']['rot'] = rot
            else:
                spec['rot'] = rot
            run_oracle(ctx, 'vertices', {'spec': spec, 'tag': tag}, key=('r5v', kind, rot))
            run_oracle(ctx, 'is_point_inside_shape', {'spec': spec, 'queries': gen_queries(rng, spec, 8), 'tag': tag}, key=('r5c', kind, rot))
            run_oracle(ctx, 'get_border_point', {'spec': spec, 'tag': tag,
                                                 'queries': [[a, r] for a in ROT90 + [rot + 45.0] for r in (1.0, 0.5)]},
                       key=('r5b', kind, rot))
    tag = 'R5:ratio-0-1-None'
    for kind in ('hex', 'sec3', 'square', 'rect', 'circle'):
        spec = gen_spec(rng, [kind], 0)
        run_oracle(ctx, 'get_border_point', {'spec': spec, 'tag': tag,
                                             'queries': [[a, r] for a in (0.0, 33.0, 90.0, -120.0) for r in (0.0, 1.0, None, 0, 1)]},
                   key=('r5r', kind))
    tag = 'R5:unit-cell-at-origin'
    for kind in ('hex', 'sec3', 'square', 'circle'):
        spec = {'kind': kind, 'R': 1.0, 'side': 1.0, 'rot': 0.0, 'pos': [0.0, 0.0]}
        run_oracle(ctx, 'vertices', {'spec': spec, 'tag': tag}, key=('r5u', kind))
        run_oracle(ctx, 'is_point_inside_shape', {'spec': spec, 'queries': gen_queries(rng, spec, 8), 'tag': tag}, key=('r5uc', kind))
        if kind != 'circle':
            run_oracle(ctx, 'add_random_user', {'spec': spec, 'ratio': 0, 'draws': gen_draws(rng, 40), 'n': 2, 'tag': tag}, key=('r5uu', kind))
    tag = 'R5:size-boundary'
    for n_ in (1, 2, 3, 4, 5, 7, 8, 9, 15, 16, 17, 19):
        for ctype in ('simple', '3sec'):
            run_oracle(ctx, 'Cluster', {'type': ctype, 'n': n_, 'R': gen_radius(rng), 'rot': rng.choice(ROT90), 'pos': gen_pos(rng),
                                        'tag': tag}, key=('r5n', ctype, n_))
    for n_ in (1, 4, 9, 16, 25, 49, 64):
        run_oracle(ctx, 'Cluster', {'type': 'square', 'n': n_, 'R': gen_radius(rng), 'rot': rng.choice(ROT90), 'pos': gen_pos(rng),
                                    'tag': tag}, key=('r5s', n_))
    for n_ in (2, 3, 5, 8, 15, 17, 24, 26, 48, 50, 63, 65):
        run_oracle(ctx, 'Cluster.square.invalid', {'n': n_, 'tag': tag}, key=('r5i', n_), nontrivial=False)
    tag = 'R5:zero-counts'
    for ctype, n_ in (('simple', 3), ('square', 4), ('3sec', 1)):
        case = {'type': ctype, 'n': n_, 'R': gen_radius(rng), 'rot': gen_rot(rng), 'pos': gen_pos(rng), 'npseed': 1,
                'random': [[1, 0]], 'border': [], 'tag': tag}
        run_oracle(ctx, 'calc_dist_all_users_to_each_cell', case, key=('r5z', ctype))
    for case in ({'what': 'circle', 'n': 0, 'rmax': 2.0, 'rmin': 0.0}, {'what': 'circle', 'n': 1, 'rmax': 2.0, 'rmin': 2.0},
                 {'what': 'circle', 'n': 5, 'rmax': 3.0, 'rmin': 3.0}, {'what': 'circle', 'n': 4, 'rmax': 0.0, 'rmin': 0.0},
                 {'what': 'rectangle', 'n': 0, 'w': 1.0, 'h': 1.0}, {'what': 'rectangle', 'n': 1, 'w': 0.0, 'h': 2.0},
                 {'what': 'rectangle', 'n': 3, 'w': 2.0, 'h': 0.0}):
        c = dict(case, draws=[rng.choice([0.0, 1.0 - 2.0 ** -53, rng.uniform()]) for _ in range(2 * case['n'])], tag=tag)
        run_oracle(ctx, 'pointprocess', c, key=('r5p', repr(case)))
    # R6 scale: every kind at every scale, plus the cluster outline
    for k in SCALE_EXPS:
        tag = 'R6:scale:1e%+d' % k
        for kind in ('hex', 'sec3', 'square', 'rect', 'circle', 'wrap', 'sector'):
            spec = gen_spec(rng, [kind], k)
            run_oracle(ctx, 'vertices', {'spec': spec, 'tag': tag}, key=('r6v', kind, k))
            run_oracle(ctx, 'is_point_inside_shape', {'spec': spec, 'queries': gen_queries(rng, spec, 10), 'tag': tag}, key=('r6c', kind, k))
            run_oracle(ctx, 'get_border_point', {'spec': spec, 'queries': gen_angles(rng, spec, 10), 'tag': tag}, key=('r6b', kind, k))
            if kind in ('hex', 'sec3', 'square', 'sector'):
                run_oracle(ctx, 'add_random_user', {'spec': spec, 'ratio': rng.choice([0.0, 0.4]), 'draws': gen_draws(rng, 60),
                                                    'n': 2, 'tag': tag}, key=('r6u', kind, k))
        f = 10.0 ** k
        for ctype, n_ in (('simple', 7), ('3sec', 3), ('square', 4), ('simple', 19)):
            p_ = gen_pos(rng)
            case = {'type': ctype, 'n': n_, 'R': gen_radius(rng) * f, 'rot': gen_rot(rng), 'pos': [p_[0] * f, p_[1] * f], 'tag': tag}
            run_oracle(ctx, 'Cluster', case, key=('r6cl', ctype, n_, k))
            dc = dict(case, npseed=rng.below(2 ** 31), ratio=0.3, random=[[1, 2]], border=[[1, 45.0, 0.5]])
            run_oracle(ctx, 'calc_dist_all_users_to_each_cell', dc, key=('r6d', ctype, n_, k))
            run_oracle(ctx, 'Cluster.outline', dict(case), key=('r6o', ctype, n_, k))
        h = gen_history(rng, rng.choice(['hex', 'sec3', 'square', 'wrap:sec3']), scale=k)
        h['tag'] = tag
        run_oracle(ctx, 'setter_history', h, key=('r6h', k))
        c = {'what': 'circle', 'n': 20, 'rmax': 3.0 * f, 'rmin': 1.0 * f, 'draws': None, 'npseed': 7, 'tag': tag}
        run_oracle(ctx, 'pointprocess', c, key=('r6p', k))


def o_cluster_outline(case):
    """R6: the outer vertices of a cluster (`Cluster.vertices`) are the same polygon at every scale: as many
    vertices as for the unit-radius twin at the origin, each on a cell vertex"""
    shapes, cell, _ = _mods()
    n, R, rot, ctype = case['n'], case['R'], case['rot'], case['type']
    if ctype == 'square':
        return None
    pos = cx(case['pos'])
    cl = cell.Cluster(cell_radius=R, num_cells=n, pos=pos, cell_type=ctype, rotation=rot)
    tw = cell.Cluster(cell_radius=1.0, num_cells=n, pos=0j, cell_type=ctype, rotation=rot)
    v1 = np.asarray(cl.vertices)
    v0 = np.asarray(tw.vertices)
    k = int(round(math.log10(R))) if R > 0 else 0
    if len(v1) != len(v0):
        return ('cluster-outline:%s:vertex-count:scale~1e%+d' % (ctype, 3 * int(round(k / 3.0))),
                'the outline of the cluster has %d vertices, the unit-radius twin has %d' % (len(v1), len(v0)))
    return None



def o_wrap_readonly(case):
    """radius and rotation of a CellWrap cannot be set (they are the wrapped cell's)"""
    shapes, cell, _ = _mods()
    w = make_shape({'kind': 'wrap', 'pos': case['wrap'], 'inner': case['init']})
    for attr, val in (('radius', 2.0), ('rotation', 30.0)):
        try:
            setattr(w, attr, val)
            return 'history:wrap:%s-settable' % attr, 'CellWrap.%s was set' % attr
        except AttributeError:
            pass
    return None



ORACLES = {'vertices': o_vertices, 'is_point_inside_shape': o_contains, 'get_border_point': o_border,
           'add_border_user': o_border_user, 'add_border_user.ratio': o_border_user_ratio, 'add_random_user': o_random_user, 'add_user': o_add_user,
           'Cluster': o_cluster, 'Cluster.square.invalid': o_cluster_invalid,
           'calc_dist_all_users_to_each_cell': o_distmatrix, 'pointprocess': o_pointprocess,
           'setter_history': o_history, 'CellWrap.readonly': o_wrap_readonly,
           'element_types': o_types_replayable, 'array_layout': o_layout, 'aliasing': o_aliasing,
           'Cluster.outline': o_cluster_outline}


class Runaway(Exception):
    """a call of the library did not return (rejection sampling that never accepts, …)"""


@contextlib.contextmanager
def time_limit(seconds):
    """wall-clock limit for ONE oracle / correspondence group: the library's rejection loop `while not inside …`
    draws from the global numpy generator in the seeded cases and never ends when a containment test is broken
    in a way that rejects every candidate; such a run must end with the failing input, not hang"""
    import signal

    def handler(signum, frame):
        raise Runaway('no result after %d s' % seconds)
    try:
        old = signal.signal(signal.SIGALRM, handler)
    except ValueError:          # not in the main thread: no limit
        yield
        return
    signal.alarm(seconds)
    try:
        yield
    finally:
        signal.alarm(0)
        signal.signal(signal.SIGALRM, old)


ORACLE_TIME_LIMIT = 60


def run_oracle(ctx, call, case, key=None, nontrivial=True):
    """`case['tag']` (the robustness class the input was generated for, e.g. `R5:rotation-multiple-of-90`) becomes
    part of the failure class"""
    ctx.count((call, key if key is not None else repr(case)), nontrivial)
    try:
        with time_limit(ORACLE_TIME_LIMIT):
            r = ORACLES[call](case)
    except StreamEnd:
        r = None
    except Runaway as e:
        r = ('does-not-return', 'the call did not return: %s' % e)
    except Exception as e:
        r = ('exception:' + type(e).__name__, repr(e)[:300])
    if r is not None and isinstance(case, dict) and case.get('tag'):
        r = (r[0] + ':' + case['tag'], r[1])
    if r is not None:
        ctx.fail(call, r[0], case, r[1])
        ctx.branch('oracle-fail:' + call)
    else:
        ctx.branch('oracle-ok:' + call)
    if isinstance(case, dict) and case.get('tag'):
        ctx.branch(case['tag'])
    return r


def _r1516():
    """the helper module with the classes R15 (close values) and R16 (argument identity / buffer reuse)"""
    from harness.props import c19_r1516
    for k_, v_ in c19_r1516.ORACLES.items():
        ORACLES.setdefault(k_, v_)
    return c19_r1516


def replay(ctx, rep):
    _r1516()
    try:
        with time_limit(ORACLE_TIME_LIMIT):
            return ORACLES[rep['call']](rep['case']) is not None
    except StreamEnd:
        return False
    except Exception:
        return True


# ------------------------------------------------------------------ generators
SPECIAL_ROT = [0.0, 30.0, -30.0, 45.0, 60.0, 90.0, -90.0, 180.0, 270.0, 360.0, -360.0, 720.0, -720.0, 15.0, 1.0]


def gen_rot(rng):
    if rng.chance(0.3):
        return rng.choice(SPECIAL_ROT)
    return round(rng.uniform(-720.0, 720.0), rng.randint(0, 6))


def gen_pos(rng):
    m = rng.choice([0.0, 1.0, 10.0, 1000.0])
    if m == 0.0:
        return [0.0, 0.0]
    return [round(rng.uniform(-m, m), 4), round(rng.uniform(-m, m), 4)]


def gen_radius(rng):
    if rng.chance(0.25):       # round sizes make vertices fall exactly on the axes (exact zero cross products)
        return rng.choice([1.0, 2.0, 0.5, 10.0, 3.0])
    return round(10.0 ** rng.uniform(-2, 2), 6)


SCALE_EXPS = [-12, -9, -6, -3, 3, 6, 9, 12]


def gen_spec(rng, kinds, scale=None):
    """a shape spec; with probability 0.3 the whole input (position and size) is multiplied by 1e-12 .. 1e12"""
    spec = gen_spec_unit(rng, kinds)
    if scale is None:
        scale = rng.choice(SCALE_EXPS) if rng.chance(0.3) else 0
    return scale_spec(spec, scale)


def scale_spec(spec, k):
    if not k:
        return spec
    f = 10.0 ** k
    out = dict(spec)
    if spec['kind'] == 'wrap':
        out['pos'] = [spec['pos'][0] * f, spec['pos'][1] * f]
        out['inner'] = scale_spec(spec['inner'], k)
        return out
    for key in ('pos', 'first', 'second'):
        if key in out:
            out[key] = [out[key][0] * f, out[key][1] * f]
    for key in ('R', 'side'):
        if key in out:
            out[key] = out[key] * f
    out['scale_exp'] = k
    return out


def gen_spec_unit(rng, kinds):
    k = rng.choice(kinds)
    if k in ('hex', 'hexshape', 'sec3'):
        return {'kind': k, 'R': gen_radius(rng), 'rot': gen_rot(rng), 'pos': gen_pos(rng)}
    if k == 'sector':
        return {'kind': k, 'R': gen_radius(rng), 'rot': gen_rot(rng), 'pos': gen_pos(rng), 'k': rng.below(3)}
    if k == 'circle':
        return {'kind': k, 'R': gen_radius(rng), 'pos': gen_pos(rng)}
    if k == 'square':
        return {'kind': k, 'side': gen_radius(rng), 'rot': gen_rot(rng), 'pos': gen_pos(rng)}
    if k == 'rect':
        a = gen_pos(rng)
        w = gen_radius(rng)
        h = w if rng.chance(0.2) else w * round(10.0 ** rng.uniform(-1.2, 1.2), 3)
        b = [a[0] + w, a[1] + h]
        if rng.chance(0.5):          # the two corners may be given in any order
            a, b = [a[0], b[1]], [b[0], a[1]]
        if rng.chance(0.5):
            a, b = b, a
        return {'kind': k, 'first': a, 'second': b, 'rot': gen_rot(rng)}
    if k == 'wrap':
        inner = gen_spec_unit(rng, ['hex', 'sec3', 'square'])
        return {'kind': 'wrap', 'pos': gen_pos(rng), 'inner': inner}
    raise ValueError(k)


def branch_scale(ctx, spec):
    k = spec.get('scale_exp', 0) if spec['kind'] != 'wrap' else spec['inner'].get('scale_exp', 0)
    if k:
        ctx.branch('R6:scale:1e%+d' % k)
        ctx.branch('R6:scaled-input')


def gen_queries(rng, spec, n):
    """query points placed relative to the polygon of the definition: both sides of edges with margins
    1e-1..1e-7 of the size, near vertices, uniform in the bounding box, far away"""
    ref = ref_vertices(spec)
    size = shape_size(spec)
    centre = sum(ref) / len(ref)
    out = []
    for _ in range(n):
        mode = rng.choice(['edge', 'edge', 'vertex', 'uniform', 'uniform', 'far'])
        if base_kind(spec) == 'circle':
            c = cx(spec['pos'])
            if mode in ('edge', 'vertex'):
                rr = spec['R'] * (1 + rng.choice([-1, 1]) * 10.0 ** (-rng.randint(1, 7)))
            elif mode == 'uniform':
                rr = spec['R'] * rng.uniform(0, 1.5)
            else:
                rr = spec['R'] * rng.uniform(2, 50)
            p = c + rr * cis(rng.uniform(0, 360))
        elif mode == 'edge':
            i = rng.below(len(ref))
            a, b = ref[i], ref[(i + 1) % len(ref)]
            s = rng.uniform(0.05, 0.95)
            nrm = (b - a) * (-1j) / abs(b - a)
            p = a + s * (b - a) + nrm * size * rng.choice([-1, 1]) * 10.0 ** (-rng.randint(1, 7))
        elif mode == 'vertex':
            v = ref[rng.below(len(ref))]
            p = centre + (v - centre) * (1 + rng.choice([-1, 1]) * 10.0 ** (-rng.randint(1, 7)))
        elif mode == 'uniform':
            p = centre + size * 1.5 * complex(rng.uniform(-1, 1), rng.uniform(-1, 1))
        else:
            p = centre + size * rng.uniform(2, 50) * cis(rng.uniform(0, 360))
        out.append(c2(p))
    return out


def gen_angles(rng, spec, n):
    out = []
    rot = spec_rot(spec)
    for _ in range(n):
        m = rng.below(4)
        if m == 0:
            ang = round(rng.uniform(-720.0, 720.0), rng.randint(0, 5))
        elif m == 1:      # vertex / edge-normal directions of the shape
            ang = rot + 15.0 * rng.randint(-48, 48)
        elif m == 2:
            ang = float(rng.randint(-24, 24) * 30)
        else:
            ang = rot + 15.0 * rng.randint(-48, 48) + rng.choice([-1, 1]) * 10.0 ** (-rng.randint(1, 6))
        ratio = rng.choice([1.0, 1.0, 0.5, 0.9, 0.0, round(rng.uniform(0.01, 1.0), 3)])
        out.append([ang, ratio])
    return out


def gen_draws(rng, n):
    return [rng.uniform() for _ in range(2 * n)]


def load_corpus():
    """corpus/c19/*.json: minimised past failures and boundary cases, run first on every seed"""
    import glob
    import json
    import os
    out = []
    for fn in sorted(glob.glob(os.path.join(core.VERIF, 'corpus', 'c19', '*.json'))):
        with open(fn) as f:
            d = json.load(f)
        out.append((os.path.basename(fn), d['call'], d['case']))
    return out


# ------------------------------------------------------------------ correspondence with the Lean model
def fpts(s):
    v = [core.s2f(t) for t in s.split(',')] if s else []
    return [complex(v[i], v[i + 1]) for i in range(0, len(v), 2)]


def qline(pts):
    return ','.join(core.f2s(x) for p in pts for x in p) if pts else '-'


def pts_close(a, b, tol):
    return len(a) == len(b) and all(abs(x - y) <= tol for x, y in zip(a, b))


def corr_shapes(ctx, drv, kinds, nshapes, nq):
    shapes, cell, _ = _mods()
    for _ in range(nshapes):
        spec = gen_spec(ctx.rng, kinds)
        branch_scale(ctx, spec)
        kind = base_kind(spec)
        sh = make_shape(spec)
        sl = spec_line(spec)
        sc = spec_scale(spec)
        tol = TOL * sc
        verts = [complex(v) for v in np.asarray(sh.vertices)]
        qs = gen_queries(ctx.rng, spec, nq)
        ang = gen_angles(ctx.rng, spec, nq)
        lines = ['verts ' + sl, 'inside %s %s' % (sl, qline(qs))]
        lines += ['border %s %s %s' % (sl, core.f2s(a), core.f2s(r)) for a, r in ang]
        out = drv.ask(lines)
        # vertices
        mv = fpts(out[0])
        ok = pts_close(verts, mv, tol)
        ctx.corr('vertices.' + spec['kind'], spec, 'match' if ok else repr(verts[:4]), 'match' if ok else repr(mv[:4]),
                 key=('verts', repr(spec)))
        ctx.branch('vertices:' + spec['kind'])
        # containment (away from the boundary)
        mi = out[1].split(',')
        for q, m in zip(qs, mi):
            p = cx(q)
            _, margin = shape_contains_ref(spec, verts, p)
            if margin < 1e-9 * sc:
                ctx.branch('inside:near-boundary-skipped')
                continue
            got = '1' if sh.is_point_inside_shape(p) else '0'
            ctx.corr('is_point_inside_shape.' + spec['kind'], {'spec': spec, 'q': q}, got, m,
                     key=('inside', repr(spec), repr(q)))
            ctx.branch('inside:%s:%s' % (kind, 'in' if got == '1' else 'out'))
        # border points
        for (a, r), m in zip(ang, out[2:]):
            try:
                p = complex(sh.get_border_point(a, r))
                impl = None
            except ValueError:
                impl = 'error:ValueError'
            if impl is None and not m.startswith('error'):
                mp = fpts(m)[0]
                ok = abs(p - mp) <= tol + 1e-9 * shape_size(spec)
                ctx.corr('get_border_point.' + spec['kind'], {'spec': spec, 'angle': a, 'ratio': r},
                         'match' if ok else repr(p), 'match' if ok else repr(mp), key=('border', repr(spec), a, r))
            else:
                ctx.corr('get_border_point.' + spec['kind'], {'spec': spec, 'angle': a, 'ratio': r},
                         impl if impl is not None else repr(p), m, key=('border', repr(spec), a, r))
            ctx.branch('border:' + kind)
        # add_border_user: ratio validation + the same border point
        if spec['kind'] in ('hex', 'sec3', 'square'):
            for _ in range(3):
                a = gen_angles(ctx.rng, spec, 1)[0][0]
                r = ctx.rng.choice([1.0, 0.5, 0.0, -0.1, 1.5, 1.0 + 2.0 ** -52, round(ctx.rng.uniform(-0.5, 1.5), 3)])
                sh2 = make_shape(spec)
                try:
                    sh2.add_border_user(a, float(r))
                    p = complex(sh2.users[-1].pos)
                    impl = None
                except ValueError:
                    impl = 'error:ValueError'
                m = drv.ask(['borderuser %s %s %s' % (sl, core.f2s(a), core.f2s(r))])[0]
                if impl is None and not m.startswith('error'):
                    mp = fpts(m)[0]
                    ok = abs(p - mp) <= tol + 1e-9 * shape_size(spec)
                    ctx.corr('add_border_user.' + spec['kind'], {'spec': spec, 'angle': a, 'ratio': r},
                             'match' if ok else repr(p), 'match' if ok else repr(mp), key=('buser', repr(spec), a, r))
                    ctx.branch('borderuser:placed')
                else:
                    ctx.corr('add_border_user.' + spec['kind'], {'spec': spec, 'angle': a, 'ratio': r},
                             impl if impl is not None else 'placed', m if m.startswith('error') else 'placed',
                             key=('buser', repr(spec), a, r))
                    ctx.branch('borderuser:rejected')


def corr_users(ctx, drv, nshapes, ndraw):
    shapes, cell, _ = _mods()
    todo = []
    # fixed streams: a corner candidate (rejected by every shape), a candidate at the centre (rejected when a
    # minimum distance is requested), then seeded draws
    for kind in ('hex', 'sec3', 'square', 'sector'):
        for ratio in (0.0, 0.4):
            spec = gen_spec(ctx.rng, [kind])
            if kind == 'square':
                spec['rot'] = 0.0
            todo.append((spec, ratio, [0.999, 0.999, 0.5, 0.5] + gen_draws(ctx.rng, ndraw - 2)))
    for _ in range(nshapes):
        spec = gen_spec(ctx.rng, ['hex', 'sec3', 'square', 'sector'])
        ratio = ctx.rng.choice([0.0, 0.0, 0.1, 0.3, 0.5, 0.7, round(ctx.rng.uniform(0, 0.8), 3)])
        todo.append((spec, ratio, gen_draws(ctx.rng, ndraw)))
    for spec, ratio, draws in todo:
        sc = spec_scale(spec)
        if spec['kind'] == 'sector':
            c3 = cell.Cell3Sec(cx(spec['pos']), spec['R'], rotation=spec['rot'])
            sec = [c3._sec1, c3._sec2, c3._sec3][spec['k']]
            centre, radius = complex(sec.pos), sec.radius
        else:
            sh = make_shape(spec)
            centre, radius = complex(sh.pos), sh.radius
        ref = ref_vertices(spec)
        with scripted_random(draws) as s:
            try:
                if spec['kind'] == 'sector':
                    c3.add_random_user_in_sector(spec['k'] + 1, None, ratio)
                    p = complex(c3.users[-1].pos)
                else:
                    sh.add_random_user(None, ratio)
                    p = complex(sh.users[-1].pos)
                impl = (p, s.i // 2)
            except StreamEnd:
                impl = None
        # margins of every candidate that was examined (discrete decisions are compared away from ties)
        used = (impl[1] if impl else ndraw)
        tie = False
        for k in range(used):
            c = centre + complex(2 * (draws[2 * k] - 0.5) * radius, 2 * (draws[2 * k + 1] - 0.5) * radius)
            if boundary_dist(ref, c) < 1e-9 * sc or (ratio > 0 and abs(abs(c - centre) - ratio * radius) < 1e-9 * sc):
                tie = True
        if tie:
            ctx.branch('randuser:near-tie-skipped')
            continue
        m = drv.ask(['randuser %s %s %s' % (spec_line(spec), core.f2s(ratio), ','.join(core.f2s(d) for d in draws))])[0]
        case = {'spec': spec, 'ratio': ratio, 'draws': draws}
        if impl is None or m == 'none':
            ctx.corr('add_random_user.' + spec['kind'], case, 'none' if impl is None else 'placed', 'none' if m == 'none' else 'placed',
                     key=('randuser', repr(spec), ratio))
            ctx.branch('randuser:stream-exhausted')
            continue
        mp, mn = m.split()
        mp = fpts(mp)[0]
        ok = abs(mp - impl[0]) <= TOL * sc and int(mn) == impl[1]
        ctx.corr('add_random_user.' + spec['kind'], case, 'match' if ok else repr(impl), 'match' if ok else repr((mp, int(mn))),
                 key=('randuser', repr(spec), ratio))
        ctx.branch('randuser:%s:%s' % (spec['kind'], 'first-draw' if impl[1] == 1 else 'after-rejections'))
        if ratio > 0:
            ctx.branch('randuser:min-dist')
    # add_user(absolute position)
    for _ in range(nshapes):
        spec = gen_spec(ctx.rng, ['hex', 'sec3', 'square'])
        sh = make_shape(spec)
        ref = ref_vertices(spec)
        sc = spec_scale(spec)
        for q in gen_queries(ctx.rng, spec, 4):
            p = cx(q)
            if boundary_dist(ref, p) < 1e-9 * sc:
                continue
            try:
                sh.add_user(cell.Node(p), relative_pos_bool=False)
                impl = 'ok'
            except ValueError:
                impl = 'error:ValueError'
            m = drv.ask(['adduser %s %s' % (spec_line(spec), qline([q]))])[0]
            ctx.corr('add_user.' + spec['kind'], {'spec': spec, 'q': q}, impl, 'ok' if not m.startswith('error') else m,
                     key=('adduser', repr(spec), repr(q)))
            ctx.branch('adduser:' + impl)


CLUSTER_SIZES = [1, 3, 4, 7, 13, 19]


def gen_cluster_case(rng, sizes=None, types=('simple', '3sec', 'square')):
    ctype = rng.choice(list(types))
    if ctype == 'square':
        n = rng.choice([1, 4, 9, 16, 25])
    else:
        n = rng.choice(sizes or CLUSTER_SIZES)
    return {'type': ctype, 'n': n, 'R': gen_radius(rng), 'rot': gen_rot(rng), 'pos': gen_pos(rng)}


def corr_clusters(ctx, drv, cases):
    shapes, cell, _ = _mods()
    for case in cases:
        n, R, rot, ctype = case['n'], case['R'], case['rot'], case['type']
        pos = cx(case['pos'])
        sc = 6 * R + 1e-3 * abs(pos)
        tol = TOL * sc
        line = 'cluster %s %d %s %s %s %s' % ('square' if ctype == 'square' else 'hex', n, core.f2s(R), core.f2s(rot),
                                              core.f2s(pos.real), core.f2s(pos.imag))
        try:
            cl = cell.Cluster(cell_radius=R, num_cells=n, pos=pos, cell_type=ctype, rotation=rot)
            impl = [complex(c.pos) for c in cl]
        except ValueError:
            impl = 'error:ValueError'
        m = drv.ask([line])[0]
        if isinstance(impl, str) or m.startswith('error'):
            ctx.corr('Cluster.positions.' + ctype, case, impl if isinstance(impl, str) else 'ok', m if m.startswith('error') else 'ok',
                     key=('cluster', repr(case)))
            ctx.branch('cluster:error')
            continue
        mc = fpts(m)
        ok = pts_close(impl, mc, tol)
        ctx.corr('Cluster.positions.' + ctype, case, 'match' if ok else repr(impl[:4]), 'match' if ok else repr(mc[:4]),
                 key=('cluster', repr(case)))
        ctx.branch('cluster:%s:%d' % (ctype, n))
        # every cell is the model's cell shape at the model's centre
        kind = {'simple': 'hex', '3sec': 'sec3', 'square': 'square'}[ctype]
        lines = []
        for z in mc:
            spec = {'kind': kind, 'R': R, 'side': R, 'rot': rot, 'pos': c2(z)}
            lines.append('verts ' + spec_line(spec))
        outs = drv.ask(lines)
        okv = True
        for c, o in zip(cl, outs):
            if not pts_close([complex(v) for v in np.asarray(c.vertices)], fpts(o), tol):
                okv = False
        ctx.corr('Cluster.cell_vertices.' + ctype, case, 'match' if okv else 'differs', 'match', key=('clusterv', repr(case)))


def corr_distm(ctx, drv, ncases):
    for _ in range(ncases):
        case = gen_cluster_case(ctx.rng)
        case['npseed'] = ctx.rng.below(2 ** 31)
        n = case['n']
        case['random'] = [[ctx.rng.randint(1, n), ctx.rng.randint(0, 3)] for _ in range(ctx.rng.randint(0, 4))]
        case['border'] = [[ctx.rng.randint(1, n), float(ctx.rng.randint(-12, 12) * 30 + ctx.rng.uniform(-10, 10)),
                           round(ctx.rng.uniform(0.05, 0.95), 3)] for _ in range(ctx.rng.randint(0, 3))]
        cl = build_cluster_with_users(case)
        users = [complex(u.pos) for c in cl for u in c.users]
        cells = [complex(c.pos) for c in cl]
        if not users:
            ctx.branch('distm:no-users')
            continue
        M = np.asarray(cl.calc_dist_all_users_to_each_cell())
        M2 = np.asarray(cl.calc_dist_all_users_to_each_cell_no_wrap_around())
        m = drv.ask(['distm %s %s' % (qline([c2(u) for u in users]), qline([c2(c) for c in cells]))])[0]
        rows = [[core.s2f(t) for t in r.split(',')] for r in m.split(';')]
        ok = (M.shape == (len(users), len(cells)) and M2.shape == M.shape and
              all(rclose(M[i, j], rows[i][j], 1e-12) and rclose(M2[i, j], rows[i][j], 1e-12)
                  for i in range(len(users)) for j in range(len(cells))))
        ctx.corr('calc_dist_all_users_to_each_cell', case, 'match' if ok else repr(M.tolist())[:300], 'match' if ok else repr(rows)[:300],
                 key=('distm', repr(case)))
        ctx.branch('distm:users')


def corr_pp(ctx, drv, ncases):
    _, _, pp = _mods()
    for _ in range(ncases):
        n = ctx.rng.randint(1, 12)
        us = [ctx.rng.choice([0.0, ctx.rng.uniform(), ctx.rng.uniform(), 1.0 - 2.0 ** -53]) for _ in range(n)]
        vs = [ctx.rng.choice([0.0, ctx.rng.uniform(), ctx.rng.uniform(), 1.0 - 2.0 ** -53]) for _ in range(n)]
        if ctx.rng.chance(0.5):
            rmax = gen_radius(ctx.rng)
            rmin = ctx.rng.choice([0.0, rmax * round(ctx.rng.uniform(0, 1), 3)])
            with scripted_random(us + vs):
                pts = [complex(z) for z in pp.generate_random_points_in_circle(n, rmax, rmin)]
            m = drv.ask(['ppcircle %s %s %s %s' % (core.f2s(rmax), core.f2s(rmin), ','.join(map(core.f2s, us)),
                                                  ','.join(map(core.f2s, vs)))])[0]
            ok = pts_close(pts, fpts(m), 1e-12 * rmax)
            ctx.corr('generate_random_points_in_circle', {'rmax': rmax, 'rmin': rmin, 'u': us, 'v': vs},
                     'match' if ok else repr(pts), 'match' if ok else repr(fpts(m)), key=('ppc', rmax, rmin, tuple(us)))
            ctx.branch('pp:circle')
        else:
            w, h = gen_radius(ctx.rng), gen_radius(ctx.rng)
            with scripted_random(us + vs):
                pts = [complex(z) for z in pp.generate_random_points_in_rectangle(n, w, h)]
            m = drv.ask(['pprect %s %s %s %s' % (core.f2s(w), core.f2s(h), ','.join(map(core.f2s, us)),
                                                ','.join(map(core.f2s, vs)))])[0]
            ok = pts_close(pts, fpts(m), 1e-12 * max(w, h))
            ctx.corr('generate_random_points_in_rectangle', {'w': w, 'h': h, 'u': us, 'v': vs},
                     'match' if ok else repr(pts), 'match' if ok else repr(fpts(m)), key=('ppr', w, h, tuple(us)))
            ctx.branch('pp:rectangle')


def corr_corpus(ctx, drv):
    """the border-point corpus cases (vertex directions with exactly vanishing cross products) against the model"""
    for name, call, case in load_corpus():
        if call != 'get_border_point':
            continue
        spec = case['spec']
        sh = make_shape(spec)
        sl = spec_line(spec)
        tol = TOL * spec_scale(spec)
        out = drv.ask(['border %s %s %s' % (sl, core.f2s(a), core.f2s(r)) for a, r in case['queries']])
        for (a, r), m in zip(case['queries'], out):
            try:
                p = complex(sh.get_border_point(a, r))
                impl = None
            except ValueError:
                impl = 'error:ValueError'
            if impl is None and not m.startswith('error'):
                mp = fpts(m)[0]
                ok = abs(p - mp) <= tol + 1e-9 * shape_size(spec)
                ctx.corr('get_border_point.corpus', {'spec': spec, 'angle': a, 'ratio': r}, 'match' if ok else repr(p),
                         'match' if ok else repr(mp), key=('cborder', name, a, r))
            else:
                ctx.corr('get_border_point.corpus', {'spec': spec, 'angle': a, 'ratio': r},
                         impl if impl is not None else repr(p), m, key=('cborder', name, a, r))
            ctx.branch('border:corpus')


def gen_history(rng, kind=None, nq=6, scale=None, must=()):
    """a freshly constructed cell and 1-8 calls: every public mutator (`pos`, `radius` x0.05..x10 growing AND
    shrinking, `rotation` in [-720, 720], move_by_relative_coordinate, move_by_relative_polar_coordinate, for
    wrapped cells also moves of the wrap), user additions / deletions in between, and calls that must be
    rejected; then the queries.  `must` lists op kinds that have to occur."""
    kind = kind or rng.choice(['hex', 'sec3', 'sec3', 'sec3', 'square', 'square', 'rect', 'wrap:hex', 'wrap:sec3', 'wrap:square'])
    wrapped = kind.startswith('wrap:')
    base = kind[5:] if wrapped else kind
    init = gen_spec(rng, [base], scale)
    f = 10.0 ** init.get('scale_exp', 0)

    def spos():
        p = gen_pos(rng)
        return [p[0] * f, p[1] * f]

    case = {'init': init, 'wrap': spos() if wrapped else None, 'ops': []}
    _, R0, _ = hist_initial(case)
    R = R0
    size0 = shape_size(init)
    menu = ['P', 'M', 'Q', 'R', 'R', 'T', 'N'] + (['W'] if wrapped else [])
    if base != 'rect':
        menu += ['U', 'B', 'D', 'X']
    if base == 'sec3':
        menu += ['S']
    todo = list(must) + [rng.choice(menu) for _ in range(rng.randint(1, 8))]
    rng.shuffle(todo)
    for t in todo:
        if t in ('P', 'W'):
            case['ops'].append([t] + spos())
        elif t == 'M':
            d = spos() if rng.chance(0.5) else c2(size0 * rng.uniform(0.1, 5) * cis(rng.uniform(0, 360)))
            case['ops'].append(['M'] + d)
        elif t == 'Q':
            case['ops'].append(['Q', size0 * rng.choice([0.5, 1.0, 3.0, 10.0]), rng.choice(
                [0.0, math.pi / 2, math.pi, rng.uniform(-7, 7)])])
        elif t == 'T':
            case['ops'].append(['T', gen_rot(rng)])
        elif t == 'R':
            R = min(1e3 * R0, max(1e-3 * R0, R * rng.choice([0.05, 0.1, 0.2, 0.5, 0.9, 1.5, 3.0, 10.0])))
            case['ops'].append(['R', R])
        elif t == 'U':
            case['ops'].append(['U', rng.choice([0.0, 0.3, 0.6, 0.9]), rng.uniform(0, 360)])
        elif t == 'B':
            case['ops'].append(['B', float(rng.randint(-24, 24) * 15 + rng.choice([0, 7])), rng.choice([1.0, 0.5, 0.25, 0.9])])
        elif t == 'S':
            case['ops'].append(['S', rng.below(3), gen_draws(rng, 40)])
        elif t == 'D':
            case['ops'].append(['D'])
        elif t == 'N':
            case['ops'].append(['N', rng.chance(0.15)])
        elif t == 'X':
            what = rng.choice(['add_user_outside', 'add_user_outside_relative', 'add_user_not_a_node', 'border_ratio',
                               'border_ratio_list'] + (['sector_index'] if base == 'sec3' else [])
                              + (['wrap_radius', 'wrap_rotation'] if wrapped else []))
            if what.startswith('add_user'):
                case['ops'].append(['X', what, rng.uniform(0, 360)])
            elif what.startswith('border_ratio'):
                case['ops'].append(['X', what, float(rng.randint(-12, 12) * 30), rng.choice([-0.5, 1.5, 2.0, -1e-9, 1.0 + 1e-9])])
            elif what == 'sector_index':
                case['ops'].append(['X', what, rng.choice([0, 4, 7, -1])])
            else:
                case['ops'].append(['X', what])
    tspec = hist_current_spec(case)
    case['queries'] = gen_queries(rng, tspec, nq)
    case['angles'] = gen_angles(rng, tspec, nq)
    case['ratio'] = rng.choice([0.0, 0.0, 0.3, 0.6])
    case['draws'] = gen_draws(rng, 40)
    case['sector_draws'] = [gen_draws(rng, 40) for _ in range(3)]
    return case


def hist_line(case):
    """driver tokens `cellhist [wrap wx wy] kind px py size rot ops`; returns None when the history contains a
    call the model does not take (scripted sector placement, type / index / wrap-attribute rejections)"""
    init = case['init']
    f = core.f2s
    if init['kind'] == 'rect':
        return None
    size = init['side'] if init['kind'] == 'square' else init['R']
    toks = []
    for i, op in enumerate(case['ops']):
        t = op[0]
        if t in ('P', 'W', 'M'):
            toks.append('%s:%s:%s' % (t, f(op[1]), f(op[2])))
        elif t in ('R', 'T'):
            toks.append('%s:%s' % (t, f(op[1])))
        elif t == 'Q':
            toks.append('Q:%s:%s' % (f(op[1]), f(op[2])))
        elif t == 'D':
            toks.append('D')
        elif t == 'N':
            continue            # queries are not steps of the model: its functions cannot change a state
        elif t == 'B':
            toks.append('B:%s:%s' % (f(op[1]), f(op[2])))
        elif t == 'U':
            pos, _, _, _ = hist_current(case, i)
            cspec = hist_current_spec(case, i, cell_only=True)
            p = pos + op[1] * inradius(cspec) * cis(op[2])
            toks.append('U:%s:%s' % (f(p.real), f(p.imag)))
        elif t == 'X' and op[1] == 'add_user_outside':
            pos, Rc, _, _ = hist_current(case, i)
            p = pos + 5.0 * Rc * cis(op[2])
            toks.append('U:%s:%s' % (f(p.real), f(p.imag)))
        elif t == 'X' and op[1] == 'border_ratio':
            toks.append('B:%s:%s' % (f(op[2]), f(op[3])))
        elif t == 'X':
            continue            # rejected before the geometry is consulted: not a step of the model
        else:
            return None
    head = 'cellhist '
    if case.get('wrap') is not None:
        head += 'wrap %s %s ' % (f(case['wrap'][0]), f(case['wrap'][1]))
    return head + '%s %s %s %s %s %s' % (init['kind'], f(init['pos'][0]), f(init['pos'][1]), f(size), f(init['rot']),
                                         ','.join(toks) if toks else '-')


def hist_branches(ctx, case):
    name = ('wrap:' if case.get('wrap') is not None else '') + hist_kind(case)
    ctx.branch('history:' + name)
    _, R0, _ = hist_initial(case)
    for op in case['ops']:
        ctx.branch('history-op:' + op[0])
        if op[0] == 'R':
            ctx.branch('history-radius:' + ('shrink' if op[1] < R0 else 'grow'))
            R0 = op[1]
        if op[0] == 'X':
            ctx.branch('R4:rejected:' + op[1])
        if op[0] in ('M', 'Q'):
            ctx.branch('R7:move-helper')
        if op[0] == 'N':
            ctx.branch('R11:queries-in-history')
    branch_scale(ctx, case['init'])


def fixed_histories(rng):
    """every kind through a shrinking and a growing radius, each move helper, and each rejected call"""
    out = []
    for kind in ('hex', 'sec3', 'square', 'rect', 'wrap:hex', 'wrap:sec3', 'wrap:square'):
        for must in (['R'], ['M'], ['Q'], ['M', 'U'], ['Q', 'U', 'R'], ['P', 'B'], ['R', 'N', 'T']):
            if kind == 'rect' and ('U' in must or 'B' in must):
                continue
            c = gen_history(rng, kind, must=must)
            out.append(c)
        for f in (0.05, 5.0):
            c = gen_history(rng, kind)
            _, R0, _ = hist_initial(c)
            c['ops'] = [['R', R0 * f]] + [op for op in c['ops'] if op[0] != 'R'][:3]
            t = hist_current_spec(c)
            c['queries'] = gen_queries(rng, t, 6)
            c['angles'] = gen_angles(rng, t, 6)
            out.append(c)
    for kind, whats in (('hex', ['add_user_outside', 'add_user_outside_relative', 'add_user_not_a_node', 'border_ratio',
                                 'border_ratio_list']),
                        ('square', ['add_user_outside', 'add_user_outside_relative', 'border_ratio']),
                        ('sec3', ['sector_index', 'add_user_outside_relative', 'border_ratio_list']),
                        ('wrap:hex', ['wrap_radius', 'wrap_rotation'])):
        for what in whats:
            c = gen_history(rng, kind, must=['U', 'M'])
            if what.startswith('add_user'):
                x = ['X', what, rng.uniform(0, 360)]
            elif what.startswith('border_ratio'):
                x = ['X', what, 30.0, 1.5]
            elif what == 'sector_index':
                x = ['X', what, 4]
            else:
                x = ['X', what]
            c['ops'].insert(rng.randint(1, len(c['ops'])), x)
            t = hist_current_spec(c)
            c['queries'] = gen_queries(rng, t, 6)
            c['angles'] = gen_angles(rng, t, 6)
            out.append(c)
    return out


def corr_history(ctx, drv, ncases):
    """the state-machine model against the real objects after the same calls"""
    shapes, cell, _ = _mods()
    for case in fixed_histories(ctx.rng) + [gen_history(ctx.rng) for _ in range(ncases)]:
        kind = hist_kind(case)
        hist_branches(ctx, case)
        hl = hist_line(case)
        if kind == 'rect' or hl is None:
            continue
        name = ('wrap:' if case.get('wrap') is not None else '') + kind
        ckey = (repr(case['init']), repr(case['ops']), repr(case.get('wrap')))
        try:
            obj, wrap, tracked = hist_build(case)
        except StreamEnd:
            continue
        except Exception as e:      # the model accepts this history; an exception of the code is a disagreement
            ctx.corr('history.calls.' + name, case, 'exception:%s:%s' % (type(e).__name__, str(e)[:80]), 'accepted',
                     key=('hexc',) + ckey)
            continue
        target = wrap if wrap is not None else obj
        tspec = hist_current_spec(case)
        sc = spec_scale(tspec)
        tol = TOL * sc
        verts = [complex(v) for v in np.asarray(target.vertices)]
        lines = [hl + ' verts', hl + ' inside ' + qline(case['queries'])]
        lines += ['%s border %s %s' % (hl, core.f2s(a), core.f2s(r)) for a, r in case['angles']]
        out = drv.ask(lines)
        mv = fpts(out[0])
        ok = pts_close(verts, mv, tol)
        ctx.corr('history.vertices.' + name, case, 'match' if ok else repr(verts[:4]), 'match' if ok else repr(mv[:4]),
                 key=('hverts',) + ckey)
        ref = ref_vertices(tspec)
        for q, m in zip(case['queries'], out[1].split(',')):
            p = cx(q)
            _, margin = shape_contains_ref(tspec, ref, p)
            if margin < 1e-9 * sc:
                continue
            ctx.corr('history.inside.' + name, {'case': case, 'q': q}, '1' if target.is_point_inside_shape(p) else '0', m,
                     key=('hinside', repr(q)) + ckey)
        for (a, r), m in zip(case['angles'], out[2:]):
            try:
                p = complex(target.get_border_point(a, r))
                mp = fpts(m)[0] if not m.startswith('error') else None
                ok = mp is not None and abs(p - mp) <= tol
                ctx.corr('history.border.' + name, {'case': case, 'angle': a, 'ratio': r}, 'match' if ok else repr(p),
                         'match' if ok else m, key=('hborder', a, r) + ckey)
            except ValueError:
                ctx.corr('history.border.' + name, {'case': case, 'angle': a, 'ratio': r}, 'error:ValueError', m,
                         key=('hborder', a, r) + ckey)
        if wrap is not None:
            continue
        # stored attributes, users and sector cells
        m = drv.ask([hl + ' state', hl + ' users'])
        mu = fpts(m[1]) if m[1] != '-' else []
        m = m[0].split()
        mpos = fpts(m[0])[0]
        ok = (abs(mpos - complex(obj.pos)) <= tol and rclose(core.s2f(m[1]), float(obj.radius), 1e-12)
              and rclose(core.s2f(m[2]), float(complex(obj.rotation).real), 1e-12))
        ctx.corr('history.attributes.' + name, case, 'match' if ok else repr((obj.pos, obj.radius, obj.rotation)),
                 'match' if ok else repr(m), key=('hstate',) + ckey)
        users = [complex(u.pos) for u in obj.users]
        ok = pts_close(users, mu, tol)
        ctx.corr('history.users.' + name, case, 'match' if ok else repr(users[:4]), 'match' if ok else repr(mu[:4]),
                 key=('husers',) + ckey)
        if users:
            ctx.branch('history:users-tracked')
        if kind == 'sec3':
            m = drv.ask([hl + ' secinfo'])[0].split(';')
            ok = len(m) == 3
            for sec, t in zip([obj._sec1, obj._sec2, obj._sec3], m):
                v = [core.s2f(x) for x in t.split(',')]
                ok = ok and abs(complex(v[0], v[1]) - complex(sec.pos)) <= tol and rclose(v[2], float(sec.radius), 1e-12) \
                    and rclose(v[3], float(complex(sec.rotation).real), 1e-12)
            ctx.corr('history.sectors', case, 'match' if ok else repr([(s_.pos, s_.radius, s_.rotation) for s_ in
                                                                        (obj._sec1, obj._sec2, obj._sec3)]),
                     'match' if ok else repr(m), key=('hsec',) + ckey)
            ctx.branch('history:sectors')
        # scripted placement: whole cell, then per sector
        pos, R, rot, _ = hist_current(case)
        jobs = [('cell', None, case['draws'], complex(obj.pos), obj.radius, ref_vertices(tspec))]
        if kind == 'sec3':
            for k, sec in enumerate([obj._sec1, obj._sec2, obj._sec3]):
                jobs.append(('sector', k, case['sector_draws'][k], complex(sec.pos), sec.radius,
                             ref_vertices({'kind': 'sector', 'R': R, 'rot': rot, 'pos': c2(pos), 'k': k})))
        for what, k, draws, centre, radius, pref in jobs:
            with scripted_random(draws) as sr:
                try:
                    if what == 'cell':
                        obj.add_random_user(None, case['ratio'])
                    else:
                        obj.add_random_user_in_sector(k + 1, None, case['ratio'])
                    impl = (complex(obj.users[-1].pos), sr.i // 2)
                except StreamEnd:
                    impl = None
            used = impl[1] if impl else len(draws) // 2
            tie = False
            for j in range(used):
                c = centre + complex(2 * (draws[2 * j] - 0.5) * radius, 2 * (draws[2 * j + 1] - 0.5) * radius)
                if boundary_dist(pref, c) < 1e-9 * sc or (case['ratio'] > 0 and
                                                           abs(abs(c - centre) - case['ratio'] * radius) < 1e-9 * sc):
                    tie = True
            if tie:
                ctx.branch('history-randuser:near-tie-skipped')
                continue
            q = ('randuser %s %s' if what == 'cell' else 'sector %d randuser %%s %%s' % k) % (
                core.f2s(case['ratio']), ','.join(core.f2s(d) for d in draws))
            m = drv.ask([hl + ' ' + q])[0]
            rkey = ('hru', what, k) + ckey
            if impl is None or m == 'none':
                ctx.corr('history.add_random_user.' + what, case, 'none' if impl is None else 'placed',
                         'none' if m == 'none' else 'placed', key=rkey)
                continue
            mp, mn = m.split()
            ok = abs(fpts(mp)[0] - impl[0]) <= tol and int(mn) == impl[1]
            ctx.corr('history.add_random_user.' + what, case, 'match' if ok else repr(impl), 'match' if ok else m, key=rkey)
            ctx.branch('history-randuser:' + what)


def corr_robust(ctx, drv, n):
    """R1 / R2 / R3 against the model: the code is given another element type, another memory layout, or has had
    its returned arrays overwritten; the model is given the logical values"""
    shapes, cell, pp = _mods()
    w = quiet()
    try:
        # R1: typed constructor / setter arguments
        fixed = [('shape', 'rot', 'uint8'), ('shape', 'rot', 'int8'), ('shape', 'size', 'uint8'), ('shape', 'size', 'float32'),
                 ('shape', 'pos', 'complex64'), ('shape', 'pos', 'int'), ('setter', 'rot', 'uint8'), ('setter', 'size', 'int16'),
                 ('setter', 'move', 'int8'), ('shape', 'size', 'float16')]
        todo = [gen_types_case(ctx.rng, a, p_, t_) for a, p_, t_ in fixed]
        todo += [gen_types_case(ctx.rng, ctx.rng.choice(['shape', 'setter'])) for _ in range(n)]
        for case in todo:
            if case['param'] not in ('pos', 'size', 'rot', 'move', 'polar'):
                continue
            spec, param, t = case['spec'], case['param'], case['type']
            sc = shape_size(spec) + abs(cx(spec['pos']))
            tol = type_tol(t) * sc
            key = ('ctype', case['api'], param, t, repr(spec))
            name = 'types.%s.%s' % (case['api'], param)
            try:
                if case['api'] == 'shape':
                    obj = make_shape_typed(spec, param, t)
                    mspec = spec
                else:
                    obj = make_shape(spec)
                    mspec = dict(spec)
                    if param == 'pos':
                        obj.pos = cast(cx(spec['pos']) + 3, t) if fits(cx(spec['pos']) + 3, t) else cx(spec['pos']) + 3
                        mspec['pos'] = [spec['pos'][0] + 3.0, spec['pos'][1]]
                    elif param == 'move':
                        obj.move_by_relative_coordinate(cast(complex(4.0), t))
                        mspec['pos'] = [spec['pos'][0] + 4.0, spec['pos'][1]]
                    elif param == 'polar':
                        obj.move_by_relative_polar_coordinate(cast(4.0, t), 0)
                        mspec['pos'] = [spec['pos'][0] + 4.0, spec['pos'][1]]
                    elif param == 'rot':
                        obj.rotation = cast(30.0, t)
                        mspec['rot'] = 30.0
                    elif param == 'size':
                        if spec['kind'] == 'square':
                            continue
                        obj.radius = cast(7.0, t)
                        mspec['R'] = 7.0
                verts = [complex(v) for v in np.asarray(obj.vertices)]
                bps = [complex(obj.get_border_point(a, 1.0)) for a, _ in case['angles']]
            except Exception as e:
                ctx.corr(name, json_types_case(case), 'exception:' + type(e).__name__, 'ok', key=key)
                continue
            sl = spec_line(mspec)
            out = drv.ask(['verts ' + sl] + ['border %s %s %s' % (sl, core.f2s(a), core.f2s(1.0)) for a, _ in case['angles']])
            ok = pts_close(verts, fpts(out[0]), tol) and all(abs(b - fpts(m)[0]) <= tol for b, m in zip(bps, out[1:]))
            ctx.corr(name, json_types_case(case), 'match' if ok else repr(verts[:3]), 'match' if ok else repr(fpts(out[0])[:3]), key=key)
            ctx.branch('R1:corr:' + ('narrow-int' if t in INT_TYPES else t))
            if mspec['kind'] == 'sec3':
                secs = [obj._sec1, obj._sec2, obj._sec3]
                mk = drv.ask(['verts ' + spec_line({'kind': 'sector', 'R': mspec['R'], 'rot': mspec['rot'], 'pos': mspec['pos'], 'k': k})
                              for k in range(3)])
                ok = all(pts_close([complex(v) for v in np.asarray(sec.vertices)], fpts(m), tol) for sec, m in zip(secs, mk))
                ctx.corr('types.sectors.' + param, json_types_case(case), 'match' if ok else repr([s_.rotation for s_ in secs]),
                         'match', key=key + ('sec',))
        # R2: array layouts of add_border_user / calc_rotated_pos
        for turn in range(n):
            # the first two cases are the required 'strided' layouts (a required branch must not depend on the seed)
            case = gen_layout_case(ctx.rng, ctx.rng.choice(['add_border_user', 'calc_rotated_pos'])) if turn >= 2 else \
                gen_layout_case(ctx.rng, ['add_border_user', 'calc_rotated_pos'][turn], 'strided')
            key = ('clayout', repr(case))
            if case['api'] == 'add_border_user':
                if case['variant'] in ('empty',):
                    continue
                spec = case['spec']
                angs = np.array([a for a, _ in case['angles']], dtype=float)
                rats = np.array([r for _, r in case['angles']], dtype=float)
                obj = make_shape(spec)
                try:
                    if case['variant'] == '0-d':
                        obj.add_border_user(np.array(angs[0]), float(rats[0]))
                        pairs = [(angs[0], rats[0])]
                    else:
                        va = layout_variants(angs if case['which'] == 'angles' else rats).get(case['variant'])
                        if va is None:
                            continue
                        obj.add_border_user(va if case['which'] == 'angles' else angs, rats if case['which'] == 'angles' else va)
                        pairs = list(zip(angs, rats))
                    users = [complex(u.pos) for u in obj.users]
                except Exception as e:
                    ctx.corr('layout.add_border_user', case, 'exception:' + type(e).__name__, 'ok', key=key)
                    continue
                sl = spec_line(spec)
                out = drv.ask(['borderuser %s %s %s' % (sl, core.f2s(a), core.f2s(r)) for a, r in pairs])
                ok = len(users) == len(out) and all(abs(u - fpts(m)[0]) <= TOL * spec_scale(spec) for u, m in zip(users, out))
                ctx.corr('layout.add_border_user', case, 'match' if ok else repr(users[:3]), 'match' if ok else repr(out[:3]), key=key)
            else:
                A = np.array([complex(*v) for v in case['values']], dtype=complex).reshape(case['shape'])
                if case['variant'] in ('empty', '0-d'):
                    continue
                arg = {'fortran': np.asfortranarray(A), 'transposed': np.ascontiguousarray(A.T).T,
                       'reversed': A[..., ::-1].copy()[..., ::-1]}.get(case['variant'], A)
                out = np.asarray(shapes.Shape.calc_rotated_pos(arg, case['angle']))
                m = drv.ask(['rotpts %s %s' % (core.f2s(case['angle']), qline([c2(z) for z in A.ravel()]))])[0]
                mp = np.array(fpts(m)).reshape(A.shape)
                ok = out.shape == A.shape and np.max(np.abs(out - mp)) <= 1e-12 * np.max(np.abs(A))
                ctx.corr('layout.calc_rotated_pos', case, 'match' if ok else repr(out.ravel()[:3]), 'match' if ok else repr(mp.ravel()[:3]), key=key)
            ctx.branch('R2:corr:' + case['variant'])
        # R3: after the returned arrays were overwritten the object still answers like the model
        for _ in range(max(4, n // 4)):
            spec = gen_spec(ctx.rng, ['hex', 'sec3', 'square', 'rect'])
            obj = make_shape(spec)
            v = obj.vertices
            v[...] = 0
            obj._get_vertex_positions()[...] = 0
            verts = [complex(z) for z in np.asarray(obj.vertices)]
            m = drv.ask(['verts ' + spec_line(spec)])[0]
            ok = pts_close(verts, fpts(m), TOL * spec_scale(spec))
            ctx.corr('aliasing.vertices', spec, 'match' if ok else repr(verts[:3]), 'match' if ok else repr(fpts(m)[:3]),
                     key=('calias', repr(spec)))
            ctx.branch('R3:corr:overwritten-output')
    finally:
        w.__exit__(None, None, None)




# ------------------------------------------------------------------ user-placement entry points and their arguments
CELL_KIND = {'simple': 'hex', '3sec': 'sec3', 'square': 'square'}
COLORS = ['b', 'g', 'k', 'y', 'm', 'c']
DEFAULT_COLOR = 'r'


def cell_spec(ctype, R, rot, centre):
    return {'kind': CELL_KIND[ctype], 'R': R, 'side': R, 'rot': rot, 'pos': c2(centre)}


def as_form(vals, form):
    """the same ids as int list / tuple / numpy array / range"""
    if form == 'list':
        return list(vals)
    if form == 'tuple':
        return tuple(vals)
    if form == 'array':
        return np.array(vals, dtype=int)
    if form == 'range':
        return range(vals[0], vals[-1] + 1)
    raise ValueError(form)


def placement_requests(case, n):
    """the (cell id, number of users, colour, ratio) requests the documented call stands for"""
    ids = case['ids']
    if case['ids_form'] == 'none':
        ids = list(range(1, n + 1))
    elif case['ids_form'] == 'int':
        ids = [ids]
    k = len(ids)

    def per_cell(v):
        return list(v) if isinstance(v, list) else [v] * k

    return list(zip(ids, per_cell(case['nums']), per_cell(case['colors']), per_cell(case['ratios'])))


def placement_class(case, what):
    forms = 'ids=%s:num=%s:color=%s:ratio=%s' % (
        case.get('ids_form', '-'), 'list' if isinstance(case.get('nums'), list) else 'scalar',
        'list' if isinstance(case.get('colors'), list) else ('none' if case.get('colors') is None else 'scalar'),
        'list' if isinstance(case.get('ratios'), list) else 'scalar')
    return 'placement:%s:%s:%s' % (case['entry'], what, forms)


def check_user(cell_mod, us, cref, centre, radius, ratio, color, cell_id, sc):
    """postcondition of ONE placed user; returns (what, detail) or None"""
    p = complex(us.pos)
    if boundary_dist(cref, p) > 1e-9 * sc and not winding_inside(cref, p):
        return 'user-outside-cell', 'user at %r is %.3g outside its cell' % (p, boundary_dist(cref, p))
    if abs(p - centre) < ratio * radius * (1 - 1e-12):
        return 'min-dist-ignored', ('user at relative distance %.6g from the centre of cell %s, min_dist_ratio %.6g was requested'
                                    % (abs(p - centre) / radius, cell_id, ratio))
    want = DEFAULT_COLOR if color is None else color
    if us.marker_color != want:
        return 'colour', 'user of cell %s has marker colour %r, requested %r' % (cell_id, us.marker_color, want)
    if us.cell_id != cell_id:
        return 'cell-id', 'user placed in cell %s carries cell_id %r' % (cell_id, us.cell_id)
    return None


@contextlib.contextmanager
def random_source(case):
    """scripted draws (`draws`) or a seeded numpy generator (`npseed`); the global state is restored"""
    if case.get('draws') is not None:
        with scripted_random(case['draws']) as s_:
            yield s_
    else:
        st = np.random.get_state()
        np.random.seed(case['npseed'])
        try:
            yield None
        finally:
            np.random.set_state(st)


def o_placement(case):
    """every documented argument of every user-placement entry point has its documented effect: the users
    are in the requested cells, as many as requested, inside their cell, not closer to its centre than the
    requested min_dist_ratio, with the requested colour — for every form of the arguments — and placing
    through the cluster is the same as placing directly in the cell"""
    shapes, cell, _ = _mods()
    w = quiet()
    try:
        return _o_placement(case, shapes, cell)
    except StreamEnd:
        return None
    except Exception as e:
        return placement_class(case, 'raises:' + type(e).__name__), repr(e)[:200]
    finally:
        w.__exit__(None, None, None)


def _o_placement(case, shapes, cell):
    entry = case['entry']
    ctype, n, R, rot = case['type'], case['n'], case['R'], case['rot']
    pos = cx(case['pos'])
    sc = 6 * R + 1e-3 * abs(pos)

    def cluster():
        return cell.Cluster(cell_radius=R, num_cells=n, pos=pos, cell_type=ctype, rotation=rot)

    def cls(what):
        return placement_class(case, what)

    if entry == 'Cluster.add_random_users':
        cl, tw = cluster(), cluster()
        reqs = placement_requests(case, n)
        ids = None if case['ids_form'] == 'none' else (case['ids'] if case['ids_form'] == 'int' else as_form(case['ids'], case['ids_form']))
        args = [ids, case['nums']]
        # optional trailing arguments are left out when they have their default value (documented defaults)
        if case['colors'] is not None or case['ratios'] != 0.0 or case.get('explicit_defaults'):
            args.append(case['colors'])
            if case['ratios'] != 0.0 or case.get('explicit_defaults'):
                args.append(case['ratios'])
        with random_source(case):
            if case.get('keywords'):
                cl.add_random_users(cell_ids=ids, num_users=case['nums'], user_color=case['colors'], min_dist_ratio=case['ratios'])
            else:
                cl.add_random_users(*args)
        with random_source(case):          # the cell path: the cells themselves place the users, same draws
            for cid, num, col, rat in reqs:
                tw.get_cell_by_id(cid).add_random_users(num, col, rat)
        # counts per cell
        for c in cl:
            want = sum(num for cid, num, _, _ in reqs if cid == c.id)
            if c.num_users != want:
                return cls('count'), 'cell %s has %d users, %d were requested' % (c.id, c.num_users, want)
        if cl.num_users != sum(num for _, num, _, _ in reqs):
            return cls('count'), 'the cluster has %d users, %d were requested' % (cl.num_users, sum(r[1] for r in reqs))
        # every user against the request it belongs to (requests of one cell are served in order)
        taken = {}
        for cid, num, col, rat in reqs:
            c = cl.get_cell_by_id(cid)
            cref = ref_vertices(cell_spec(ctype, R, rot, complex(c.pos)))
            k0 = taken.get(cid, 0)
            for us in c.users[k0:k0 + num]:
                r = check_user(cell, us, cref, complex(c.pos), float(c.radius), rat, col, c.id, sc)
                if r is not None:
                    return cls(r[0]), r[1]
            taken[cid] = k0 + num
        for a, b in zip(cl, tw):
            pa, pb = [complex(u.pos) for u in a.users], [complex(u.pos) for u in b.users]
            if len(pa) != len(pb) or any(abs(x - y) > 1e-12 * sc for x, y in zip(pa, pb)):
                return cls('cluster-path-differs-from-cell-path'), (
                    'cell %s: users %s through Cluster.add_random_users, %s through the cell\'s add_random_users with the '
                    'same arguments and draws' % (a.id, pa[:2], pb[:2]))
        return None
    if entry == 'Cluster.add_border_users':
        cl, tw = cluster(), cluster()
        ids = case['ids'] if case['ids_form'] == 'int' else as_form(case['ids'], case['ids_form'])
        idl = [case['ids']] if case['ids_form'] == 'int' else list(case['ids'])
        angles, ratios, colors = case['angles'], case['ratios'], case['colors']
        if colors is None and not case.get('explicit_defaults'):
            cl.add_border_users(ids, angles, ratios)
        else:
            cl.add_border_users(ids, angles, ratios, colors)
        # what the call stands for: per cell the angle(s), the ratio and the colour
        k = len(idl)
        if case['ids_form'] == 'int':
            per = [(idl[0], angles, ratios, colors)]
        else:
            ang_l = angles if isinstance(angles, list) else [angles] * k
            rat_l = ratios if isinstance(ratios, list) else [ratios] * k
            col_l = colors if isinstance(colors, list) else [colors] * k
            per = list(zip(idl, ang_l, rat_l, col_l))
        for cid, ang, rat, col in per:
            tw.get_cell_by_id(cid).add_border_user(ang, rat, col)
        for cid, ang, rat, col in per:
            c = cl.get_cell_by_id(cid)
            centre = complex(c.pos)
            cref = ref_vertices(cell_spec(ctype, R, rot, centre))
            al = ang if isinstance(ang, list) else [ang]
            rl = rat if isinstance(rat, list) else [rat] * len(al)
            cols = col if isinstance(col, list) else [col] * len(al)
            want = sum(len(a_ if isinstance(a_, list) else [a_]) for i_, a_, _, _ in per if i_ == cid)
            if c.num_users != want:
                return cls('count'), 'cell %s has %d border users, %d were requested' % (cid, c.num_users, want)
            k0 = sum(len(a_ if isinstance(a_, list) else [a_]) for i_, a_, _, _ in per[:per.index((cid, ang, rat, col))] if i_ == cid)
            for j, (a_, r_, co_) in enumerate(zip(al, rl, cols)):
                us = c.users[k0 + j]
                p = complex(us.pos)
                r_eff = 1.0 if r_ is None else float(r_)
                b = centre + (p - centre) / r_eff
                rel = (b - centre) * cis(-a_)
                if not (rel.real > 0 and abs(rel.imag) <= TOL * sc) or boundary_dist(cref, b) > 2e-9 * sc:
                    return cls('border-user-misplaced'), ('cell %s angle %r ratio %r: user at %r is not at ratio x border point '
                                                          'in that direction' % (cid, a_, r_, p))
                want_c = DEFAULT_COLOR if co_ is None else co_
                if us.marker_color != want_c:
                    return cls('colour'), 'border user of cell %s has colour %r, requested %r' % (cid, us.marker_color, want_c)
        for a, b in zip(cl, tw):
            pa, pb = [complex(u.pos) for u in a.users], [complex(u.pos) for u in b.users]
            if len(pa) != len(pb) or any(abs(x - y) > 1e-12 * sc for x, y in zip(pa, pb)):
                return cls('cluster-path-differs-from-cell-path'), 'cell %s: %s through the cluster, %s through the cell' % (a.id, pa[:2], pb[:2])
        return None
    if entry == 'Cluster.delete_all_users':
        cl = cluster()
        with random_source(case):
            cl.add_random_users(None, 2)
        ids = case['ids']
        arg = None if case['ids_form'] == 'none' else (ids if case['ids_form'] == 'int' else as_form(ids, case['ids_form']))
        if case['ids_form'] == 'none' and not case.get('explicit_defaults'):
            cl.delete_all_users()
        else:
            cl.delete_all_users(arg)
        gone = set(range(1, n + 1)) if case['ids_form'] == 'none' else ({ids} if case['ids_form'] == 'int' else set(ids))
        for c in cl:
            want = 0 if c.id in gone else 2
            if c.num_users != want:
                return cls('count'), 'after delete_all_users(%r) cell %s has %d users, expected %d' % (arg, c.id, c.num_users, want)
        return None
    # cell-level entry points
    kind = CELL_KIND[ctype]
    spec = cell_spec(ctype, R, rot, pos)
    c = make_shape(spec)
    cref = ref_vertices(spec)
    num, col, rat = case['nums'], case['colors'], case['ratios']
    if entry in ('Cell.add_random_users', 'Cell.add_random_user'):
        with random_source(case):
            if entry == 'Cell.add_random_user':
                num = 1
                if case.get('keywords'):
                    c.add_random_user(user_color=col, min_dist_ratio=rat)
                else:
                    c.add_random_user(col, rat)
            elif case.get('keywords'):
                c.add_random_users(num_users=num, user_color=col, min_dist_ratio=rat)
            else:
                c.add_random_users(num, col, rat)
        if c.num_users != num:
            return cls('count'), '%d users, %d requested' % (c.num_users, num)
        for us in c.users:
            r = check_user(cell, us, cref, pos, float(c.radius), rat, col, c.id, sc)
            if r is not None:
                return cls(r[0]), r[1]
        return None
    if entry == 'Cell3Sec.add_random_users_in_sector':
        k = case['sector']
        with random_source(case):
            if num == 1 and case.get('single'):
                c.add_random_user_in_sector(k + 1, col, rat)
            else:
                c.add_random_users_in_sector(num, k + 1, col, rat)
        if c.num_users != num:
            return cls('count'), '%d users, %d requested' % (c.num_users, num)
        sref = ref_vertices({'kind': 'sector', 'R': R, 'rot': rot, 'pos': c2(pos), 'k': k})
        centre = pos + R / math.sqrt(3) * cis(rot + SEC_ANGLE[k])
        for us in c.users:
            r = check_user(cell, us, sref, centre, R / math.sqrt(3), rat, col, None, sc)
            if r is not None:
                return cls(r[0] + ':sector'), r[1]
        return None
    if entry == 'Cell.add_border_user':
        angles = case['angles']
        c.add_border_user(angles, rat, col) if col is not None or case.get('explicit_defaults') else c.add_border_user(angles, rat)
        al = angles if isinstance(angles, list) else [angles]
        rl = rat if isinstance(rat, list) else [rat] * len(al)
        cols = col if isinstance(col, list) else [col] * len(al)
        if c.num_users != len(al):
            return cls('count'), '%d users for %d angles' % (c.num_users, len(al))
        for us, a_, r_, co_ in zip(c.users, al, rl, cols):
            p = complex(us.pos)
            r_eff = 1.0 if r_ is None else float(r_)
            b = pos + (p - pos) / r_eff
            rel = (b - pos) * cis(-a_)
            if not (rel.real > 0 and abs(rel.imag) <= TOL * sc) or boundary_dist(cref, b) > 2e-9 * sc:
                return cls('border-user-misplaced'), 'angle %r ratio %r: user at %r' % (a_, r_, p)
            if us.marker_color != (DEFAULT_COLOR if co_ is None else co_):
                return cls('colour'), 'border user has colour %r, requested %r' % (us.marker_color, co_)
        return None
    raise KeyError(entry)


ORACLES['user_placement'] = o_placement


def gen_placement_case(rng, entry=None, ids_form=None, per_cell=None):
    """per_cell: set of argument names given as per-cell lists"""
    entry = entry or rng.choice(['Cluster.add_random_users'] * 4 + ['Cluster.add_border_users'] * 2 +
                                ['Cell.add_random_users', 'Cell.add_random_user', 'Cell3Sec.add_random_users_in_sector',
                                 'Cell.add_border_user', 'Cluster.delete_all_users'])
    ctype = '3sec' if entry.startswith('Cell3Sec') else rng.choice(['simple', '3sec', 'square'])
    n = rng.choice([1, 4, 9]) if ctype == 'square' else rng.choice([1, 3, 7, 19])
    k_ = rng.choice(SCALE_EXPS) if rng.chance(0.15) else 0
    f = 10.0 ** k_
    p_ = gen_pos(rng)
    case = {'entry': entry, 'type': ctype, 'n': n, 'R': gen_radius(rng) * f, 'rot': gen_rot(rng), 'pos': [p_[0] * f, p_[1] * f]}
    maxr = 0.45 if ctype == 'square' else 0.7      # ratios for which rejection sampling still accepts often enough

    def ratio():
        return rng.choice([0.0, 0.2, 0.4, maxr, round(rng.uniform(0.05, maxr), 3)])

    def color():
        return rng.choice(COLORS)

    if entry.startswith('Cluster.'):
        form = ids_form or rng.choice(['int', 'list', 'list', 'tuple', 'array', 'range', 'none'] if entry != 'Cluster.add_border_users'
                                      else ['int', 'list', 'list', 'tuple', 'array'])
        if form == 'int':
            ids = rng.randint(1, n)
            k = 1
        elif form == 'none':
            ids, k = None, n
        elif form == 'range':
            a = rng.randint(1, n)
            b = rng.randint(a, n)
            ids, k = list(range(a, b + 1)), b - a + 1
        else:
            k = rng.randint(1, min(n, 5))
            ids = [rng.randint(1, n) for _ in range(k)]       # repeated ids are allowed
        case.update(ids=ids, ids_form=form)
        pc = per_cell if per_cell is not None else {a for a in ('nums', 'colors', 'ratios') if rng.chance(0.4)}
        if form == 'int':
            pc = set()
        if entry == 'Cluster.add_random_users':
            case['nums'] = [rng.randint(0, 3) for _ in range(k)] if 'nums' in pc else rng.randint(0, 3)
            case['colors'] = [color() for _ in range(k)] if 'colors' in pc else rng.choice([None, None, color()])
            case['ratios'] = [ratio() for _ in range(k)] if 'ratios' in pc else ratio()
            case['keywords'] = rng.chance(0.2)
            case['explicit_defaults'] = rng.chance(0.3)
        elif entry == 'Cluster.add_border_users':
            def ang():
                return float(rng.randint(-24, 24) * 15 + rng.choice([0, 7]))

            def bratio():
                return rng.choice([1.0, 0.5, 0.25, 0.9, round(rng.uniform(0.05, 1.0), 3)])
            if form == 'int':
                many = rng.chance(0.5)
                case['angles'] = [ang() for _ in range(rng.randint(1, 3))] if many else ang()
                case['ratios'] = [bratio() for _ in case['angles']] if many and rng.chance(0.5) else bratio()
                case['colors'] = rng.choice([None, color()])
            else:
                nested = rng.chance(0.3)
                if nested:
                    case['angles'] = [[ang() for _ in range(rng.randint(1, 3))] for _ in range(k)]
                else:
                    case['angles'] = [ang() for _ in range(k)] if rng.chance(0.6) else ang()
                case['ratios'] = [bratio() for _ in range(k)] if 'ratios' in pc else bratio()
                case['colors'] = [color() for _ in range(k)] if 'colors' in pc else rng.choice([None, color()])
            case['nums'] = 0
            case['explicit_defaults'] = rng.chance(0.3)
        else:
            case.update(nums=2, colors=None, ratios=0.0, explicit_defaults=rng.chance(0.5))
    else:
        case.update(ids=None, ids_form='-', nums=rng.randint(0, 4), colors=rng.choice([None, color()]), ratios=ratio(),
                    keywords=rng.chance(0.3))
        if entry == 'Cell3Sec.add_random_users_in_sector':
            case['sector'] = rng.below(3)
            case['single'] = rng.chance(0.3)
            if case['single']:
                case['nums'] = 1
        if entry == 'Cell.add_border_user':
            m = rng.randint(1, 4)
            many = rng.chance(0.7)
            case['angles'] = [float(rng.randint(-24, 24) * 15) for _ in range(m)] if many else float(rng.randint(-24, 24) * 15)
            case['ratios'] = ([rng.choice([1.0, 0.5, 0.25]) for _ in range(m)] if many and rng.chance(0.5) else rng.choice([1.0, 0.5, 0.9]))
            case['colors'] = ([color() for _ in range(m)] if many and rng.chance(0.5) else rng.choice([None, color()]))
            case['explicit_defaults'] = rng.chance(0.3)
    if rng.chance(0.5):
        case['draws'] = [rng.uniform() for _ in range(1600)]
    else:
        case['draws'] = None
        case['npseed'] = rng.below(2 ** 31)
    return case


FIXED_PLACEMENTS = [('Cluster.add_random_users', f, pc) for f in ('int', 'list', 'tuple', 'array', 'range', 'none')
                    for pc in ([], ['ratios'], ['nums', 'colors', 'ratios'])] + \
                   [('Cluster.add_border_users', f, pc) for f in ('int', 'list', 'array') for pc in ([], ['ratios', 'colors'])] + \
                   [(e, None, None) for e in ('Cell.add_random_users', 'Cell.add_random_user', 'Cell3Sec.add_random_users_in_sector',
                                              'Cell.add_border_user', 'Cluster.delete_all_users')]


def force_positive_ratio(case, rng):
    """make sure a minimum distance is actually requested (and users are placed)"""
    if case['entry'] not in ('Cluster.add_random_users', 'Cell.add_random_users', 'Cell.add_random_user',
                             'Cell3Sec.add_random_users_in_sector'):
        return case
    hi = 0.45 if case['type'] == 'square' else 0.7
    if isinstance(case['ratios'], list):      # per-cell ratios that differ from cell to cell, the first one is 0
        case['ratios'] = [0.0 if j % 2 == 0 else hi for j in range(len(case['ratios']))]
    else:
        case['ratios'] = hi
    if isinstance(case['nums'], list):
        case['nums'] = [max(2, v) for v in case['nums']]
    elif not case.get('single'):
        case['nums'] = max(3, case['nums'])
    return case


def placement_oracles(ctx, n):
    for entry, form, pc in FIXED_PLACEMENTS:
        for _ in range(50):
            case = force_positive_ratio(gen_placement_case(ctx.rng, entry, form, set(pc) if pc is not None else None), ctx.rng)
            if not pc or not isinstance(case.get('ratios'), list) or len(case['ratios']) >= 2:
                break
        run_oracle(ctx, 'user_placement', case, key=('place-fixed', entry, form, repr(pc)))
        ctx.branch('placement:' + entry)
        if form:
            ctx.branch('placement:ids=' + form)
        if pc:
            ctx.branch('placement:per-cell-arguments')
    for _ in range(n):
        case = gen_placement_case(ctx.rng)
        run_oracle(ctx, 'user_placement', case, key=('place', repr({k: v for k, v in case.items() if k != 'draws'})))
        ctx.branch('placement:' + case['entry'])


def simulate_placement(case, cells_geo):
    """first-principles replay of the rejection sampling of Cluster.add_random_users on scripted draws; returns
    (list of (cell index, position), any candidate closer than 1e-9 to a decision boundary?)"""
    draws = case['draws']
    i = 0
    out, tie = [], False
    for cid, num, _, rat in placement_requests(case, case['n']):
        centre, radius, cref, sc = cells_geo[cid - 1]
        for _ in range(num):
            while True:
                if i + 2 > len(draws):
                    return None, tie
                c = centre + complex(2 * (draws[i] - 0.5) * radius, 2 * (draws[i + 1] - 0.5) * radius)
                i += 2
                bd = boundary_dist(cref, c)
                if bd < 1e-9 * sc or (rat > 0 and abs(abs(c - centre) - rat * radius) < 1e-9 * sc):
                    tie = True
                if winding_inside(cref, c) and not abs(c - centre) < rat * radius:
                    out.append((cid - 1, c))
                    break
    return out, tie


def corr_placement(ctx, drv, ncases):
    """Cluster.add_random_users on scripted draws against the model's `clusterAddRandomUsers`"""
    shapes, cell, _ = _mods()
    todo = [force_positive_ratio(gen_placement_case(ctx.rng, 'Cluster.add_random_users', f, set(pc)), ctx.rng)
            for f in ('int', 'list', 'none', 'array') for pc in ([], ['ratios'], ['nums', 'ratios'])]
    todo += [gen_placement_case(ctx.rng, 'Cluster.add_random_users') for _ in range(ncases)]
    for case in todo:
        case['draws'] = case['draws'] or [ctx.rng.uniform() for _ in range(1600)]
        ctype, n, R, rot = case['type'], case['n'], case['R'], case['rot']
        pos = cx(case['pos'])
        sc = 6 * R + 1e-3 * abs(pos)
        key = ('cplace', repr({k: v for k, v in case.items() if k != 'draws'}), case['draws'][0])
        cl = cell.Cluster(cell_radius=R, num_cells=n, pos=pos, cell_type=ctype, rotation=rot)
        geo = [(complex(c.pos), float(c.radius), ref_vertices(cell_spec(ctype, R, rot, complex(c.pos))), sc) for c in cl]
        sim, tie = simulate_placement(case, geo)
        if tie or sim is None:
            ctx.branch('placement-corr:near-tie-or-exhausted-skipped')
            continue
        ids = None if case['ids_form'] == 'none' else (case['ids'] if case['ids_form'] == 'int' else as_form(case['ids'], case['ids_form']))
        try:
            with scripted_random(case['draws']):
                cl.add_random_users(ids, case['nums'], case['colors'], case['ratios'])
            impl = sorted([(c.id - 1, complex(u.pos)) for c in cl for u in c.users], key=lambda t: t[0])
        except Exception as e:
            ctx.corr('Cluster.add_random_users', case, 'exception:' + type(e).__name__, 'placed', key=key)
            continue
        f = core.f2s
        idtok = '-' if case['ids_form'] == 'none' else ','.join(str(i) for i in ([case['ids']] if case['ids_form'] == 'int' else case['ids']))
        if case['ids_form'] == 'int':       # the scalar call is one request
            numtok, rattok = 's:%d' % case['nums'], 's:' + f(case['ratios'])
        else:
            numtok = ('l:' + ','.join(str(v) for v in case['nums'])) if isinstance(case['nums'], list) else 's:%d' % case['nums']
            rattok = ('l:' + ','.join(f(v) for v in case['ratios'])) if isinstance(case['ratios'], list) else 's:' + f(case['ratios'])
        line = 'clusterusers %s %d %s %s %s %s %s %s %s %s' % (ctype, n, f(R), f(rot), f(pos.real), f(pos.imag), idtok, numtok,
                                                            rattok, ','.join(f(d) for d in case['draws']))
        m = drv.ask([line])[0]
        if m in ('none', 'bad-op') or m.startswith('error'):
            ctx.corr('Cluster.add_random_users', case, 'placed', m, key=key)
            continue
        model = [] if m == '-' else [(int(t.split(':')[0]), fpts(t.split(':')[1])[0]) for t in m.split(';')]
        model.sort(key=lambda t: t[0])
        ok = len(model) == len(impl) and all(a[0] == b[0] and abs(a[1] - b[1]) <= TOL * sc for a, b in zip(impl, model))
        ctx.corr('Cluster.add_random_users', case, 'match' if ok else repr(impl[:3]), 'match' if ok else repr(model[:3]), key=key)
        ctx.branch('placement-corr:ids=' + case['ids_form'])
        if isinstance(case['ratios'], list):
            ctx.branch('placement-corr:per-cell-ratio')


# ------------------------------------------------------------------ R8 - R14
def _guard(fn, cls_of):
    """library exceptions inside an oracle are failing inputs with an input-derived class"""
    def wrapped(case):
        w = quiet()
        try:
            return fn(case)
        except StreamEnd:
            return None
        except Exception as e:
            return cls_of(case) + ':raises:' + type(e).__name__, repr(e)[:200]
        finally:
            w.__exit__(None, None, None)
    return wrapped


def same_pts(a, b, tol):
    return len(a) == len(b) and all(abs(x - y) <= tol for x, y in zip(a, b))


def geom_observables(obj):
    """attributes and results of a cell / shape that no query may change"""
    out = observables(obj)
    for name in ('fill_face_bool', 'fill_color', 'fill_opacity', 'id', 'cell_id', 'marker_color', 'plot_marker'):
        if hasattr(obj, name):
            out.append((name, getattr(obj, name)))
    return out


def cluster_observables(cl):
    out = [complex(cl.pos), float(cl.radius), float(cl.external_radius), complex(cl.rotation).real, cl.num_cells, cl.num_users,
           float(cl.cell_radius), float(cl.cell_height), cl.cluster_id]
    for c in cl:
        out.append(observables(c))
    out.append(tuple(sorted(cl._wrapped_cells)))
    return out


def o_forms(case):
    """R8: positional / keyword / default / explicit-default forms of every entry point agree, scalar = 0-d =
    length-1 array, constructor path = setter path, documented-equivalent entry points agree"""
    shapes, cell, pp = _mods()
    what = case['what']
    cls = 'forms:' + what
    if what == 'get_border_point':
        spec = case['spec']
        tol = TOL * spec_scale(spec)
        sh = make_shape(spec)
        for a, r in case['angles']:
            if r == 1.0:
                vals = [sh.get_border_point(a), sh.get_border_point(a, None), sh.get_border_point(a, 1.0), sh.get_border_point(angle=a),
                        sh.get_border_point(angle=a, ratio=None), sh.get_border_point(a, ratio=1.0)]
            else:
                vals = [sh.get_border_point(a, r), sh.get_border_point(a, ratio=r), sh.get_border_point(angle=a, ratio=r),
                        sh.get_border_point(ratio=r, angle=a)]
            if any(abs(complex(v) - complex(vals[0])) > tol for v in vals):
                return cls + ':' + base_kind(spec), 'angle %r ratio %r: the argument forms give %s' % (a, r, [complex(v) for v in vals])
        return None
    if what == 'constructor':
        spec = case['spec']
        k = spec['kind']
        tol = TOL * spec_scale(spec)
        pos, rot = cx(spec['pos']), spec['rot']
        size = spec['side'] if k == 'square' else spec['R']
        C = {'hex': cell.Cell, 'sec3': cell.Cell3Sec, 'square': cell.CellSquare, 'hexshape': shapes.Hexagon}[k]
        sizekw = 'side_length' if k == 'square' else 'radius'
        objs = [C(pos, size, rotation=rot), C(**{'pos': pos, sizekw: size, 'rotation': rot}), C(rotation=rot, **{sizekw: size, 'pos': pos})]
        if k != 'hexshape':
            objs += [C(pos, size, None, rot), C(pos, size, cell_id=None, rotation=rot)]
        else:
            objs.append(C(pos, size, rot))
        # the setter path: a default cell configured afterwards
        o = C(0j, 1.0)
        o.rotation = rot
        o.pos = pos
        if k == 'square':
            o.radius = math.sqrt(2.0) * size / 2.0
        else:
            o.radius = size
        objs.append(o)
        o2 = C(pos, size)          # rotation left at its default, then replaced; replaced again by itself
        if complex(o2.rotation) != 0:
            return cls + ':' + k + ':default', 'default rotation is %r' % (o2.rotation,)
        o2.rotation = rot
        o2.rotation = rot
        objs.append(o2)
        ref = [complex(v) for v in np.asarray(objs[0].vertices)]
        for i, o_ in enumerate(objs[1:]):
            if not same_pts([complex(v) for v in np.asarray(o_.vertices)], ref, tol) or abs(float(o_.radius) - float(objs[0].radius)) > 1e-9 * float(objs[0].radius):
                return cls + ':' + k, 'form %d gives vertices %s, the positional constructor %s' % (i + 1, np.asarray(o_.vertices)[:2], ref[:2])
            if k == 'sec3':
                for s1, s0 in zip((o_._sec1, o_._sec2, o_._sec3), (objs[0]._sec1, objs[0]._sec2, objs[0]._sec3)):
                    if not same_pts([complex(v) for v in np.asarray(s1.vertices)], [complex(v) for v in np.asarray(s0.vertices)], tol):
                        return cls + ':sec3:sectors', 'form %d has other sector cells than the positional constructor' % (i + 1)
        if k != 'hexshape' and (objs[0].id is not None or C(pos, size, 7, rot).id != 7 or C(pos, size, cell_id='a').id != 'a'):
            return cls + ':' + k + ':cell_id', 'cell_id is not stored as given'
        return None
    if what == 'cluster_constructor':
        n, R, rot, ctype = case['n'], case['R'], case['rot'], case['type']
        pos = cx(case['pos'])
        tol = TOL * (6 * R + 1e-3 * abs(pos))
        a = cell.Cluster(R, n, pos, None, ctype, rot)
        forms = [cell.Cluster(cell_radius=R, num_cells=n, pos=pos, cluster_id=None, cell_type=ctype, rotation=rot),
                 cell.Cluster(R, n, pos, cell_type=ctype, rotation=rot), cell.Cluster(rotation=rot, cell_type=ctype, pos=pos, num_cells=n, cell_radius=R)]
        ca = [complex(c.pos) for c in a]
        for i, b in enumerate(forms):
            if not same_pts([complex(c.pos) for c in b], ca, tol) or any(
                    not same_pts([complex(v) for v in np.asarray(x.vertices)], [complex(v) for v in np.asarray(y.vertices)], tol) for x, y in zip(a, b)):
                return cls + ':' + ctype, 'keyword form %d differs from the positional constructor' % (i + 1)
        if ctype == 'simple':      # defaults: pos 0, simple cells, rotation 0
            d = cell.Cluster(R, n)
            e = cell.Cluster(R, n, 0 + 0j, None, 'simple', 0.0)
            if not same_pts([complex(c.pos) for c in d], [complex(c.pos) for c in e], tol) or d.cluster_id is not None:
                return cls + ':defaults', 'the defaults are not pos=0, simple, rotation=0'
        return None
    if what == 'add_user':
        spec = case['spec']
        tol = TOL * spec_scale(spec)
        a, b, c_, d = (make_shape(spec) for _ in range(4))
        rel = complex(*case['rel'])
        scale = spec['side'] / 2 if spec['kind'] == 'square' else a.radius
        absolute = rel * scale + complex(a.pos)
        res = []
        for obj, fn in ((a, lambda o: o.add_user(cell.Node(rel))), (b, lambda o: o.add_user(cell.Node(rel), True)),
                        (c_, lambda o: o.add_user(new_user=cell.Node(rel), relative_pos_bool=True)),
                        (d, lambda o: o.add_user(cell.Node(absolute), relative_pos_bool=False))):
            try:
                fn(obj)
                res.append(complex(obj.users[0].pos))
            except ValueError:
                res.append(None)
        if any((r is None) != (res[0] is None) or (r is not None and abs(r - res[0]) > tol) for r in res):
            return cls + ':' + spec['kind'], 'relative %r: the forms / the absolute twin give %s' % (rel, res)
        return None
    if what == 'single_vs_many':
        spec = case['spec']
        tol = 1e-12 * spec_scale(spec) * 1e3
        n_, col, rat = case['num'], case['color'], case['ratio']
        a, b = make_shape(spec), make_shape(spec)
        if spec['kind'] == 'sec3' and case.get('sector') is not None:
            k = case['sector']
            with scripted_random(case['draws']):
                a.add_random_users_in_sector(n_, k + 1, col, rat)
            with scripted_random(case['draws']):
                for _ in range(n_):
                    b.add_random_user_in_sector(k + 1, col, rat)
        else:
            with scripted_random(case['draws']):
                a.add_random_users(n_, col, rat)
            with scripted_random(case['draws']):
                for _ in range(n_):
                    b.add_random_user(col, rat)
        pa, pb = [complex(u.pos) for u in a.users], [complex(u.pos) for u in b.users]
        if not same_pts(pa, pb, tol) or [u.marker_color for u in a.users] != [u.marker_color for u in b.users]:
            return cls + ':random', 'n users at once %s, one by one %s' % (pa[:2], pb[:2])
        c_, d, e = make_shape(spec), make_shape(spec), make_shape(spec)
        angs = [x for x, _ in case['angles']]
        rats = [float(y) for _, y in case['angles'] if True]
        c_.add_border_user(angs, rats, col)
        for x, y in zip(angs, rats):
            d.add_border_user(x, y, col)
        for x, y in zip(angs, rats):
            e.add_border_user(angles=[x], ratio=[y], user_color=[col] if col is not None else None)
        want = [complex(c_.get_border_point(x, (1 - 1e-15) if y == 1.0 else y)) for x, y in zip(angs, rats)]
        for o_ in (c_, d, e):
            if not same_pts([complex(u.pos) for u in o_.users], want, TOL * spec_scale(spec)):
                return cls + ':border', 'border users %s, get_border_point gives %s' % ([complex(u.pos) for u in o_.users][:2], want[:2])
        return None
    if what == 'scalar_0d_len1':
        n, R, ctype = case['n'], case['R'], case['type']
        cid, num = case['id'], case['num']
        res = {}
        for form, arg in (('scalar', cid), ('0-d', np.array(cid)), ('len-1', np.array([cid])), ('list', [cid])):
            cl = cell.Cluster(R, n, cell_type=ctype)
            with scripted_random(case['draws']):
                cl.add_random_users(arg, num, None, case['ratio'])
            cl.add_border_users(arg, 30.0, 0.5)
            res[form] = [[complex(u.pos) for u in c.users] for c in cl]
            cl.delete_all_users(arg)
            if cl.num_users != 0:
                return cls + ':delete_all_users:' + form, 'users left after delete_all_users(%r)' % (arg,)
        for form in res:
            if any(not same_pts(x, y, 1e-9 * R) for x, y in zip(res[form], res['scalar'])) or [len(x) for x in res[form]] != [len(x) for x in res['scalar']]:
                return cls + ':cell_ids:' + form, 'cell_ids given as %s differs from the scalar' % form
        c0 = cell.Cell(0j, R)
        for form, arg in (('scalar', 40.0), ('0-d', np.array(40.0)), ('len-1', np.array([40.0])), ('list', [40.0])):
            c1 = cell.Cell(0j, R)
            c1.add_border_user(arg, 0.5)
            c0.add_border_user(40.0, 0.5)
            if abs(complex(c1.users[0].pos) - complex(c0.users[0].pos)) > 1e-12 * R:
                return cls + ':angles:' + form, 'angle given as %s differs' % form
        for form, arg in (('0-d', np.array(num)),):
            cl = cell.Cluster(R, n, cell_type=ctype)
            with scripted_random(case['draws']):
                cl.add_random_users(cid, arg)
            if cl.get_cell_by_id(cid).num_users != num:
                return cls + ':num_users:' + form, '%d users for num_users=%r' % (cl.get_cell_by_id(cid).num_users, arg)
        return None
    if what == 'pointprocess':
        n, rmax, w, h = case['n'], case['rmax'], case['w'], case['h']
        with scripted_random(case['draws']):
            a = pp.generate_random_points_in_circle(n, rmax)
        with scripted_random(case['draws']):
            b = pp.generate_random_points_in_circle(num_points=n, max_radius=rmax, min_radius=0.0)
        with scripted_random(case['draws']):
            c_ = pp.generate_random_points_in_circle(n, rmax, 0.0)
        with scripted_random(case['draws']):
            d = pp.generate_random_points_in_rectangle(n, w, h)
        with scripted_random(case['draws']):
            e = pp.generate_random_points_in_rectangle(height=h, width=w, num_points=n)
        if not (np.array_equal(a, b) and np.array_equal(a, c_) and np.array_equal(d, e)):
            return cls, 'positional / keyword / default forms differ'
        return None
    raise KeyError(what)


def o_index(case):
    """R9: index and count arguments of every integer type, 0-d arrays, values above 256"""
    shapes, cell, pp = _mods()
    what, t = case['what'], case['type']

    def conv(v):
        if t == '0-d':
            return np.array(v)
        if t == 'intp':
            return np.intp(v)
        if t == 'bool':
            return bool(v)
        return cast(float(v), t)

    cls = 'index:%s:%s' % (what, t)
    if what == 'sector':
        c1, c0 = cell.Cell3Sec(0j, case['R'], rotation=case['rot']), cell.Cell3Sec(0j, case['R'], rotation=case['rot'])
        k = case['sector']
        with scripted_random(case['draws']):
            c0.add_random_users_in_sector(case['num'], k + 1, None, 0.3)
        with scripted_random(case['draws']):
            c1.add_random_users_in_sector(conv(case['num']) if case.get('typed_num') else case['num'], conv(k + 1), None, 0.3)
        if not same_pts([complex(u.pos) for u in c1.users], [complex(u.pos) for u in c0.users], 1e-12 * case['R']):
            return cls, 'sector %r: users %s, python int gives %s' % (conv(k + 1), [u.pos for u in c1.users][:2], [u.pos for u in c0.users][:2])
        return None
    if what in ('cell_id', 'num_users'):
        n, ctype, R = case['n'], case['type_c'], case['R']
        cid, num = case['id'], case['num']
        a, b = cell.Cluster(R, n, cell_type=ctype), cell.Cluster(R, n, cell_type=ctype)
        with scripted_random(case['draws']):
            b.add_random_users(cid, num, None, 0.2)
        b.add_border_users(cid, 45.0, 0.5)
        with scripted_random(case['draws']):
            a.add_random_users(conv(cid) if what == 'cell_id' else cid, conv(num) if what == 'num_users' else num, None, 0.2)
        a.add_border_users(conv(cid) if what == 'cell_id' else cid, 45.0, 0.5)
        ga = a.get_cell_by_id(conv(cid) if what == 'cell_id' else cid)
        if ga.id != cid:
            return cls + ':get_cell_by_id', 'get_cell_by_id(%r) returned cell %r' % (conv(cid), ga.id)
        for x, y in zip(a, b):
            if not same_pts([complex(u.pos) for u in x.users], [complex(u.pos) for u in y.users], 1e-12 * (R + abs(complex(x.pos)))):
                return cls + (':id>256' if cid > 256 else ''), 'cell %s: users %s, with python ints %s' % (
                    x.id, [u.pos for u in x.users][:2], [u.pos for u in y.users][:2])
        a.delete_all_users(conv(cid) if what == 'cell_id' else cid)
        if a.get_cell_by_id(cid).num_users != 0 or a.num_users != 0:
            return cls + ':delete_all_users', 'users left after deleting cell %r' % cid
        return None
    if what == 'num_points':
        with scripted_random(case['draws']):
            a = pp.generate_random_points_in_circle(conv(case['n']), 2.0, 1.0)
        with scripted_random(case['draws']):
            b = pp.generate_random_points_in_circle(case['n'], 2.0, 1.0)
        if a.shape != b.shape or not np.array_equal(a, b):
            return cls, 'shape %s, python int gives %s' % (a.shape, b.shape)
        return None
    raise KeyError(what)


def o_hetero(case):
    """R10: per-cell / per-user collections whose elements differ in type (python int next to float, numpy
    scalars of several widths, list next to ndarray) give the result of the uniformly float twin"""
    shapes, cell, _ = _mods()
    what = case['what']
    cls = 'hetero:' + what
    mix = [lambda v: int(v) if float(v) == int(v) else float(v), float, np.float32, np.float64,
           lambda v: np.int16(v) if float(v) == int(v) else np.float64(v), lambda v: np.array(v)]
    pat = case['pattern']
    if what == 'add_border_user':
        spec = case['spec']
        tol = 2e-6 * spec_scale(spec) * 1e3
        angs = [a for a, _ in case['angles']]
        rats = [r for _, r in case['angles']]
        a, b = make_shape(spec), make_shape(spec)
        b.add_border_user([float(x) for x in angs], [float(x) for x in rats])
        # the FIRST elements are python ints (value-preserving), later ones floats / numpy scalars of other widths
        a.add_border_user([mix[0 if i == 0 else pat[i % len(pat)]](x) for i, x in enumerate(angs)],
                          [mix[0 if i == 0 else pat[(i + 1) % len(pat)]](x) for i, x in enumerate(rats)])
        if not same_pts([complex(u.pos) for u in a.users], [complex(u.pos) for u in b.users], tol):
            return cls, 'mixed element types give %s, floats give %s' % ([u.pos for u in a.users][:3], [u.pos for u in b.users][:3])
        return None
    if what == 'cluster':
        n, R, ctype = case['n'], case['R'], case['type']
        ids, nums, rats, angs = case['ids'], case['nums'], case['ratios'], case['angles']
        a, b = cell.Cluster(R, n, cell_type=ctype), cell.Cluster(R, n, cell_type=ctype)
        with scripted_random(case['draws']):
            b.add_random_users(list(ids), list(nums), None, [float(x) for x in rats])
        b.add_border_users(list(ids), [[float(y) for y in x] for x in angs], 0.5)
        im = [[int, np.int64, np.uint8, np.int16, np.intp][pat[i % len(pat)] % 5](x) for i, x in enumerate(ids)]
        nm = [[int, np.int32, np.uint8, np.int64][pat[(i + 2) % len(pat)] % 4](x) for i, x in enumerate(nums)]
        rm = [[float, np.float32, np.float64, float][pat[(i + 1) % len(pat)] % 4](x) for i, x in enumerate(rats)]
        am = []
        for i, x in enumerate(angs):
            m = pat[i % len(pat)] % 4
            am.append(list(x) if m == 0 else np.array(x) if m == 1 else tuple(x) if m == 2 else np.array(x, dtype=np.float32))
        with scripted_random(case['draws']):
            a.add_random_users(im, nm, None, rm)
        a.add_border_users(im, am, 0.5)
        for x, y in zip(a, b):
            if not same_pts([complex(u.pos) for u in x.users], [complex(u.pos) for u in y.users], 2e-6 * R * 10):
                return cls, 'cell %s: %s with mixed element types, %s with uniform lists' % (x.id, [u.pos for u in x.users][:2], [u.pos for u in y.users][:2])
        return None
    raise KeyError(what)


def o_nonmutating(case):
    """R11: queries, representations and plots (Agg backend) leave every attribute and every later result of a
    cell / cluster unchanged"""
    shapes, cell, _ = _mods()
    import matplotlib
    matplotlib.use('Agg')
    import matplotlib.pyplot as plt
    what = case['what']
    if what == 'cell':
        obj, wrap, _ = hist_build(case['history'])
        target = wrap if wrap is not None else obj
        if hasattr(obj, 'add_random_user'):
            with scripted_random(case['draws']):
                obj.add_random_user('g', 0.2)
        obj.fill_face_bool = True
        obj.fill_color = 'b'
        before = [geom_observables(obj), geom_observables(target)]
        calls = []
        fig, ax = plt.subplots()
        try:
            for name, fn in (('vertices', lambda: target.vertices), ('is_point_inside_shape', lambda: target.is_point_inside_shape(complex(target.pos) + 0.1)),
                             ('get_border_point', lambda: target.get_border_point(33.0, 0.5)), ('calc_dist', lambda: target.calc_dist(obj)),
                             ('repr', lambda: repr(target)), ('_get_vertex_positions', lambda: target._get_vertex_positions()),
                             ('num_users', lambda: getattr(target, 'num_users', None)), ('users', lambda: list(getattr(target, 'users', []))),
                             ('plot', lambda: target.plot(ax)), ('plot_border', lambda: target.plot_border(ax) if hasattr(target, 'plot_border') else None),
                             ('height', lambda: getattr(target, 'height', None)), ('secradius', lambda: getattr(target, 'secradius', None))):
                fn()
                calls.append(name)
                after = [geom_observables(obj), geom_observables(target)]
                if after != before:
                    return 'nonmutating:%s:%s' % (hist_kind(case['history']), name), 'calling %s changed the object' % name
        finally:
            plt.close(fig)
        return None
    if what == 'cluster':
        n, R, rot, ctype = case['n'], case['R'], case['rot'], case['type']
        cl = cell.Cluster(R, n, cx(case['pos']), 3, ctype, rot)
        with scripted_random(case['draws']):
            cl.add_random_users(None, 1, 'g', 0.2)
        cl.add_border_users(1, 30.0, 0.5)
        if n == 19 and ctype != 'square':
            cl.create_wrap_around_cells(include_users_bool=True)
        cl.fill_face_bool = True
        before = cluster_observables(cl)
        M0 = np.array(cl.calc_dist_all_users_to_each_cell(), copy=True)
        fig, ax = plt.subplots()
        try:
            for name, fn in (('calc_dist_all_users_to_each_cell', cl.calc_dist_all_users_to_each_cell),
                             ('calc_dist_all_users_to_each_cell_no_wrap_around', cl.calc_dist_all_users_to_each_cell_no_wrap_around),
                             ('calc_dists_between_cells', cl.calc_dists_between_cells), ('vertices', lambda: cl.vertices),
                             ('get_all_users', cl.get_all_users), ('repr', lambda: repr(cl)), ('iter', lambda: list(cl)),
                             ('get_cell_by_id', lambda: cl.get_cell_by_id(1)), ('plot', lambda: cl.plot(ax)),
                             ('plot_border', lambda: cl.plot_border(ax)), ('wrapped users', lambda: [w.users for w in cl._wrapped_cells.values()])):
                fn()
                after = cluster_observables(cl)
                if after != before:
                    return 'nonmutating:cluster:%s:%s' % (ctype, name), 'calling %s changed the cluster' % name
                if not np.array_equal(np.asarray(cl.calc_dist_all_users_to_each_cell()), M0):
                    return 'nonmutating:cluster:%s:%s' % (ctype, name), 'the distance matrix changed after %s' % name
        finally:
            plt.close(fig)
        return None
    raise KeyError(what)


def o_order(case):
    """R12: the order in which users are added to the CELLS of a cluster (and clusters of other sizes were
    built before) is not part of the result: per-cell users, the distance matrix (rows grouped by cell) and
    the positions are the same"""
    shapes, cell, _ = _mods()
    n, R, rot, ctype = case['n'], case['R'], case['rot'], case['type']
    pos = cx(case['pos'])
    adds = case['adds']           # [cell id, angle, ratio, colour]
    for m in case.get('warmup', []):
        cell.Cluster(1.0, m)      # fills the class-level cache in another order
    res = []
    for perm in case['orders']:
        cl = cell.Cluster(R, n, pos, None, ctype, rot)
        for i in perm:
            cid, a, r, col = adds[i]
            cl.add_border_users(cid, a, r, col)
        res.append(cl)
    # a permutation that keeps the per-cell order: everything is identical
    base = res[0]
    M0 = np.asarray(base.calc_dist_all_users_to_each_cell())
    for k, cl in enumerate(res[1:]):
        for x, y in zip(cl, base):
            if [(complex(u.pos), u.marker_color) for u in x.users] != [(complex(u.pos), u.marker_color) for u in y.users]:
                return 'order:%s:per-cell-users' % ctype, 'cell %s has other users after another insertion order' % x.id
        M = np.asarray(cl.calc_dist_all_users_to_each_cell())
        if M.shape != M0.shape or not np.array_equal(M, M0):
            return 'order:%s:distance-matrix' % ctype, 'the distance matrix depends on the order the cells received their users'
    # per-cell arguments keyed by cell: permuting ids together with their arguments
    ids = case['ids']
    args = case['per_cell']
    a, b = cell.Cluster(R, n, pos, None, ctype, rot), cell.Cluster(R, n, pos, None, ctype, rot)
    a.add_border_users(ids, [x[0] for x in args], [x[1] for x in args], [x[2] for x in args])
    p = case['perm']
    b.add_border_users([ids[i] for i in p], [args[i][0] for i in p], [args[i][1] for i in p], [args[i][2] for i in p])
    for x, y in zip(a, b):
        if sorted([(round(complex(u.pos).real / R, 9), round(complex(u.pos).imag / R, 9), u.marker_color) for u in x.users]) != \
                sorted([(round(complex(u.pos).real / R, 9), round(complex(u.pos).imag / R, 9), u.marker_color) for u in y.users]):
            return 'order:%s:per-cell-arguments' % ctype, 'cell %s: permuting the ids together with their arguments changes its users' % x.id
    return None


def o_derived(case):
    """R13: copies, pickles, cells handed out by a cluster, wraps: derived objects equal their source and are
    independent of it where they are copies; a wrap keeps following the cell it wraps"""
    import copy
    import pickle
    shapes, cell, _ = _mods()
    what = case['what']
    if what == 'copy':
        obj, wrap, _ = hist_build(case['history'])
        src = wrap if wrap is not None else obj
        kind = ('wrap:' if wrap is not None else '') + hist_kind(case['history'])
        o0 = observables(src)
        for name, dup in (('deepcopy', copy.deepcopy(src)), ('pickle', pickle.loads(pickle.dumps(src)))):
            if observables(dup) != o0:
                return 'derived:%s:%s:differs' % (name, kind), 'the %s differs from its source' % name
            dup.pos = complex(dup.pos) + 3.0 * shape_size(case['history']['init'])
            if hasattr(dup, 'add_border_user'):
                dup.add_border_user(10.0, 0.5)
            if wrap is None:
                dup.rotation = 11.0
            if observables(src) != o0:
                return 'derived:%s:%s:not-independent' % (name, kind), 'changing the %s changed its source' % name
            spec = {'kind': 'wrap', 'pos': c2(complex(dup.pos)), 'inner': hist_current_spec(case['history'], cell_only=True)} if wrap is not None else None
            if wrap is None:
                cur = hist_current_spec(case['history'])
                cur = dict(cur)
                cur['rot'] = 11.0
                if cur['kind'] == 'rect':
                    d = complex(dup.pos) - (cx(cur['first']) + cx(cur['second'])) / 2
                    cur['first'], cur['second'] = c2(cx(cur['first']) + d), c2(cx(cur['second']) + d)
                else:
                    cur['pos'] = c2(complex(dup.pos))
                spec = cur
            if not cyc_close([complex(v) for v in np.asarray(dup.vertices)], ref_vertices(spec), TOL * spec_scale(spec)):
                return 'derived:%s:%s:stale' % (name, kind), 'the %s does not follow its own setters' % name
        return None
    if what == 'cluster_cells':
        n, R, rot, ctype = case['n'], case['R'], case['rot'], case['type']
        cl = cell.Cluster(R, n, cx(case['pos']), None, ctype, rot)
        if n == 19 and ctype != 'square':
            cl.create_wrap_around_cells(include_users_bool=True)
        c = cl.get_cell_by_id(case['id'])
        if c is not list(cl)[case['id'] - 1]:
            return 'derived:cluster:get_cell_by_id', 'get_cell_by_id and iteration hand out different objects'
        with scripted_random(case['draws']):
            c.add_random_users(2, 'k', 0.2)           # users added through the derived cell are users of the cluster
        if cl.num_users != 2 or len(cl.get_all_users()) != 2:
            return 'derived:cluster:users-through-cell', 'the cluster has %d users after adding 2 through its cell' % cl.num_users
        M = np.asarray(cl.calc_dist_all_users_to_each_cell())
        exp = np.abs(np.array([complex(u.pos) for u in c.users])[:, None] - np.array([complex(x.pos) for x in cl])[None, :])
        if M.shape != exp.shape or np.max(np.abs(M - exp)) > 1e-9 * (R + abs(cx(case['pos']))):
            return 'derived:cluster:distance-matrix', 'the matrix does not see the users added through the cell'
        for w in cl._wrapped_cells.values():
            if w._wrapped_cell is c:
                wu = [complex(u.pos) - complex(w.pos) for u in w.users]
                cu = [complex(u.pos) - complex(c.pos) for u in c.users]
                if not same_pts(wu, cu, 1e-9 * R):
                    return 'derived:cluster:wrapped-users', 'a wrapped copy of the cell does not show its users'
        dup = pickle.loads(pickle.dumps(cl))
        if cluster_observables(dup) != cluster_observables(cl):
            return 'derived:pickle:cluster:differs', 'the unpickled cluster differs'
        dup.get_cell_by_id(1).add_border_user(0.0, 0.5)
        if cl.num_users != 2:
            return 'derived:pickle:cluster:not-independent', 'changing the unpickled cluster changed the original'
        return None
    raise KeyError(what)


o_forms_g = _guard(o_forms, lambda c: 'forms:' + c['what'])
o_index_g = _guard(o_index, lambda c: 'index:%s:%s' % (c['what'], c['type']))
o_hetero_g = _guard(o_hetero, lambda c: 'hetero:' + c['what'])
o_nonmutating_g = _guard(o_nonmutating, lambda c: 'nonmutating:' + c['what'])
o_order_g = _guard(o_order, lambda c: 'order:' + c['type'])
o_derived_g = _guard(o_derived, lambda c: 'derived:' + c['what'])


def queries_only(h):
    h = dict(h)
    h['ops'] = [op for op in h['ops'] if op[0] in 'PRTMQW']
    return h


def more_oracles(ctx, n):
    """R8 - R14 on the real code"""
    rng = ctx.rng
    # R8
    for kind in ('hex', 'sec3', 'square', 'rect', 'circle', 'wrap'):
        spec = gen_spec(rng, [kind])
        run_oracle(ctx, 'argument_forms', {'what': 'get_border_point', 'spec': spec, 'angles': gen_angles(rng, spec, 6), 'tag': 'R8:forms'},
                   key=('r8b', kind))
    for kind in ('hex', 'sec3', 'square', 'hexshape'):
        for _ in range(2):
            run_oracle(ctx, 'argument_forms', {'what': 'constructor', 'spec': gen_spec(rng, [kind]), 'tag': 'R8:constructor-vs-setter'},
                       key=('r8c', kind, _))
    for ctype, n_ in (('simple', 7), ('3sec', 3), ('square', 9)):
        run_oracle(ctx, 'argument_forms', {'what': 'cluster_constructor', 'type': ctype, 'n': n_, 'R': gen_radius(rng), 'rot': gen_rot(rng),
                                           'pos': gen_pos(rng), 'tag': 'R8:forms'}, key=('r8cc', ctype))
    for kind in ('hex', 'sec3', 'square'):
        for rel in ([0.2, 0.1], [0.0, 0.0], [2.0, 2.0], [-0.4, 0.3]):
            run_oracle(ctx, 'argument_forms', {'what': 'add_user', 'spec': gen_spec(rng, [kind]), 'rel': rel, 'tag': 'R8:equivalent-entry-points'},
                       key=('r8u', kind, repr(rel)))
        spec = gen_spec(rng, [kind])
        run_oracle(ctx, 'argument_forms', {'what': 'single_vs_many', 'spec': spec, 'num': rng.randint(1, 4), 'color': rng.choice([None, 'b']),
                                           'ratio': rng.choice([0.0, 0.4]), 'draws': gen_draws(rng, 400), 'tag': 'R8:equivalent-entry-points',
                                           'sector': rng.below(3) if kind == 'sec3' else None,
                                           'angles': [[float(rng.randint(-12, 12) * 30), rng.choice([1.0, 0.5])] for _ in range(3)]},
                   key=('r8s', kind))
    for ctype, n_ in (('simple', 7), ('square', 4), ('3sec', 3)):
        run_oracle(ctx, 'argument_forms', {'what': 'scalar_0d_len1', 'type': ctype, 'n': n_, 'R': gen_radius(rng), 'id': rng.randint(1, n_),
                                           'num': 2, 'ratio': 0.3, 'draws': gen_draws(rng, 400), 'tag': 'R8:scalar-0d-len1'}, key=('r8z', ctype))
    run_oracle(ctx, 'argument_forms', {'what': 'pointprocess', 'n': 5, 'rmax': 2.0, 'w': 3.0, 'h': 1.0, 'draws': gen_draws(rng, 20), 'tag': 'R8:forms'})
    # R9
    for t in ('int8', 'uint8', 'int16', 'uint16', 'int32', 'int64', 'intp', '0-d', 'bool'):
        if t != 'bool':
            run_oracle(ctx, 'index_arguments', {'what': 'sector', 'type': t, 'R': gen_radius(rng), 'rot': gen_rot(rng), 'sector': rng.below(3),
                                                'num': 2, 'typed_num': rng.chance(0.5), 'draws': gen_draws(rng, 400), 'tag': 'R9:index-types'},
                       key=('r9s', t))
            run_oracle(ctx, 'index_arguments', {'what': 'num_users', 'type': t, 'type_c': 'simple', 'n': 7, 'R': 1.5, 'id': 3, 'num': 2,
                                                'draws': gen_draws(rng, 400), 'tag': 'R9:index-types'}, key=('r9n', t))
            run_oracle(ctx, 'index_arguments', {'what': 'num_points', 'type': t, 'n': 7, 'draws': gen_draws(rng, 20), 'tag': 'R9:index-types'},
                       key=('r9p', t))
        tc = rng.choice(['simple', '3sec', 'square']) if t != 'bool' else 'simple'
        run_oracle(ctx, 'index_arguments', {'what': 'cell_id', 'type': t, 'type_c': tc,
                                            'n': 9 if tc == 'square' else 7, 'R': 1.5, 'id': 1 if t == 'bool' else rng.randint(1, 4),
                                            'num': 2, 'draws': gen_draws(rng, 400), 'tag': 'R9:index-types'}, key=('r9c', t))
    for t in ('int', 'int16', 'uint16', 'int64', 'intp', '0-d'):       # ids above 256 (17 x 17 squares)
        run_oracle(ctx, 'index_arguments', {'what': 'cell_id', 'type': t, 'type_c': 'square', 'n': 289, 'R': 1.0, 'id': rng.choice([257, 258, 289]),
                                            'num': 1, 'draws': gen_draws(rng, 400), 'tag': 'R9:index>256'}, key=('r9big', t))
        if ctx.tier == 'quick':
            break
    # R10
    for kind in ('hex', 'sec3', 'square'):
        spec = gen_spec(rng, [kind], 0)
        run_oracle(ctx, 'heterogeneous', {'what': 'add_border_user', 'spec': spec, 'pattern': [rng.below(6) for _ in range(4)],
                                          'angles': [[float(rng.randint(-12, 12) * 15), 1.0 if i_ == 0 else rng.choice([0.5, 0.25, 0.75])]
                                                     for i_ in range(5)],
                                          'tag': 'R10:heterogeneous'}, key=('r10b', kind))
    for ctype, n_ in (('simple', 7), ('3sec', 7), ('square', 9)):
        k = 4
        run_oracle(ctx, 'heterogeneous', {'what': 'cluster', 'type': ctype, 'n': n_, 'R': 2.0, 'pattern': [rng.below(8) for _ in range(5)],
                                          'ids': [rng.randint(1, n_) for _ in range(k)], 'nums': [rng.randint(0, 2) for _ in range(k)],
                                          'ratios': [rng.choice([0.0, 0.25, 0.5]) for _ in range(k)],
                                          'angles': [[float(rng.randint(-12, 12) * 15) for _ in range(rng.randint(1, 3))] for _ in range(k)],
                                          'draws': gen_draws(rng, 800), 'tag': 'R10:heterogeneous'}, key=('r10c', ctype))
    # R11
    for kind in ('hex', 'sec3', 'square', 'rect', 'wrap:hex', 'wrap:sec3', 'wrap:square'):
        h = queries_only(gen_history(rng, kind, scale=0))
        run_oracle(ctx, 'non_mutating', {'what': 'cell', 'history': h, 'draws': gen_draws(rng, 200), 'tag': 'R11:queries-and-plots'},
                   key=('r11', kind))
    for ctype, n_ in (('simple', 19), ('3sec', 7), ('square', 4)):
        run_oracle(ctx, 'non_mutating', {'what': 'cluster', 'type': ctype, 'n': n_, 'R': gen_radius(rng), 'rot': gen_rot(rng), 'pos': gen_pos(rng),
                                         'draws': gen_draws(rng, 2000), 'tag': 'R11:queries-and-plots'}, key=('r11c', ctype))
    # R12
    for ctype, n_ in (('simple', 7), ('3sec', 3), ('square', 9), ('simple', 19)):
        adds = [[rng.randint(1, n_), float(rng.randint(-12, 12) * 30), rng.choice([0.5, 0.25, 0.9]), rng.choice(COLORS)] for _ in range(6)]
        orders = [list(range(6))]
        for _ in range(3):           # reorderings that keep the order inside every cell
            perm = list(range(6))
            rng.shuffle(perm)
            percell = {}
            for i in range(6):
                percell.setdefault(adds[i][0], []).append(i)
            it = {c_: iter(v) for c_, v in percell.items()}
            orders.append([next(it[adds[i][0]]) for i in perm])
        k = min(n_, 4)
        ids = list(range(1, k + 1))
        p_ = list(range(k))
        rng.shuffle(p_)
        run_oracle(ctx, 'insertion_order', {'type': ctype, 'n': n_, 'R': gen_radius(rng), 'rot': gen_rot(rng), 'pos': gen_pos(rng), 'adds': adds,
                                            'orders': orders, 'warmup': [rng.choice([2, 5, 6, 13]) for _ in range(2)], 'ids': ids,
                                            'per_cell': [[float(rng.randint(-12, 12) * 30), rng.choice([0.5, 0.25]), COLORS[i]] for i in range(k)],
                                            'perm': p_, 'tag': 'R12:insertion-order'}, key=('r12', ctype, n_))
    # R13
    for kind in ('hex', 'sec3', 'square', 'rect', 'wrap:hex', 'wrap:square'):
        h = queries_only(gen_history(rng, kind, scale=0))
        run_oracle(ctx, 'derived_objects', {'what': 'copy', 'history': h, 'tag': 'R13:derived-objects'}, key=('r13', kind))
    for ctype, n_ in (('simple', 19), ('3sec', 19), ('square', 9), ('simple', 7)):
        run_oracle(ctx, 'derived_objects', {'what': 'cluster_cells', 'type': ctype, 'n': n_, 'R': gen_radius(rng), 'rot': gen_rot(rng),
                                            'pos': gen_pos(rng), 'id': rng.randint(1, n_), 'draws': gen_draws(rng, 400),
                                            'tag': 'R13:derived-objects'}, key=('r13c', ctype, n_))
    # R14 counts
    big = [257] if ctx.tier == 'quick' else [257, 258, 300]
    for m in big:
        spec = gen_spec(rng, [rng.choice(['hex', 'sec3', 'square'])], 0)
        run_oracle(ctx, 'add_random_user', {'spec': spec, 'ratio': 0.2, 'draws': None, 'npseed': rng.below(2 ** 31), 'n': m, 'tag': 'R14:counts'},
                   key=('r14u', m))
        run_oracle(ctx, 'add_border_user', {'spec': spec, 'queries': [[float((37 * i) % 720 - 360), 0.5] for i in range(m)], 'tag': 'R14:counts'},
                   key=('r14b', m))
        case = {'type': 'simple', 'n': 7, 'R': 1.5, 'rot': gen_rot(rng), 'pos': gen_pos(rng), 'npseed': rng.below(2 ** 31), 'ratio': 0.2,
                'random': [[1, m], [2, 3]], 'border': [], 'tag': 'R14:counts'}
        run_oracle(ctx, 'calc_dist_all_users_to_each_cell', case, key=('r14d', m))
        run_oracle(ctx, 'pointprocess', {'what': 'circle', 'n': m, 'rmax': 3.0, 'rmin': 1.0, 'draws': None, 'npseed': 3, 'tag': 'R14:counts'},
                   key=('r14p', m))
    for m in big:
        for entry, form in (('Cell.add_random_users', None), ('Cluster.add_random_users', 'int'), ('Cluster.add_random_users', 'list')):
            pc = gen_placement_case(rng, entry, form, set())
            pc.update(nums=m, ratios=0.3, tag='R14:counts', draws=None, npseed=rng.below(2 ** 31))
            run_oracle(ctx, 'user_placement', pc, key=('r14n', entry, form, m))
        pc = gen_placement_case(rng, 'Cell3Sec.add_random_users_in_sector')
        pc.update(nums=m, single=False, ratios=0.3, tag='R14:counts', draws=None, npseed=rng.below(2 ** 31))
        run_oracle(ctx, 'user_placement', pc, key=('r14sec', m))
    run_oracle(ctx, 'pointprocess', {'what': 'rectangle', 'n': 65537, 'w': 3.0, 'h': 1.0, 'draws': None, 'npseed': 3, 'tag': 'R14:counts'})
    for n_ in ([289] if ctx.tier == 'quick' else [289, 324]):
        run_oracle(ctx, 'Cluster', {'type': 'square', 'n': n_, 'R': gen_radius(rng), 'rot': gen_rot(rng), 'pos': gen_pos(rng), 'tag': 'R14:counts',
                                    'light': True}, key=('r14c', n_))
        pc = gen_placement_case(rng, 'Cluster.add_random_users', 'none', {'ratios'})
        pc.update(type='square', n=n_, nums=1, ratios=[0.0 if j % 2 else 0.4 for j in range(n_)], colors=None, tag='R14:counts',
                  draws=None, npseed=5)
        run_oracle(ctx, 'user_placement', pc, key=('r14pl', n_))


ORACLES.update({'argument_forms': o_forms_g, 'index_arguments': o_index_g, 'heterogeneous': o_hetero_g, 'non_mutating': o_nonmutating_g,
                'insertion_order': o_order_g, 'derived_objects': o_derived_g})



def corr_more(ctx, drv, n):
    """R8 - R14 against the model: the code is driven through another argument form / index type / mixed
    collection / insertion order / copy / large count, the model is given the logical values"""
    shapes, cell, pp = _mods()
    import copy
    import pickle
    rng = ctx.rng
    w = quiet()
    try:
        for _ in range(n):
            # R8 + R13: keyword constructor, setter path, copy and pickle -> vertices and border points of the model
            kind = rng.choice(['hex', 'sec3', 'square'])
            spec = gen_spec(rng, [kind])
            pos, rot = cx(spec['pos']), spec['rot']
            size = spec['side'] if kind == 'square' else spec['R']
            C = {'hex': cell.Cell, 'sec3': cell.Cell3Sec, 'square': cell.CellSquare}[kind]
            sizekw = 'side_length' if kind == 'square' else 'radius'
            o_set = C(0j, 1.0)
            o_set.rotation, o_set.pos = rot, pos
            o_set.radius = math.sqrt(2.0) * size / 2.0 if kind == 'square' else size
            base = C(rotation=rot, cell_id=None, **{sizekw: size, 'pos': pos})
            variants = {'keyword': base, 'setter-path': o_set, 'deepcopy': copy.deepcopy(base), 'pickle': pickle.loads(pickle.dumps(o_set))}
            sl = spec_line(spec)
            ang = gen_angles(rng, spec, 3)
            out = drv.ask(['verts ' + sl] + ['border %s %s %s' % (sl, core.f2s(a), core.f2s(1.0 if r == 0 else r)) for a, r in ang])
            tol = TOL * spec_scale(spec)
            for name, o_ in variants.items():
                verts = [complex(v) for v in np.asarray(o_.vertices)]
                bps = [complex(o_.get_border_point(angle=a, ratio=None if r == 0 else r)) if name == 'keyword' else
                       complex(o_.get_border_point(a, 1.0 if r == 0 else r)) for a, r in ang]
                ok = pts_close(verts, fpts(out[0]), tol) and all(abs(b - fpts(m)[0]) <= tol for b, m in zip(bps, out[1:]))
                ctx.corr('forms.' + name + '.' + kind, spec, 'match' if ok else repr(verts[:3]), 'match' if ok else repr(fpts(out[0])[:3]),
                         key=('cforms', name, repr(spec)))
                ctx.branch('R8:corr:' + name if name in ('keyword', 'setter-path') else 'R13:corr:' + name)
            # R10: mixed element types in the angle / ratio lists of add_border_user
            angs = [float(rng.randint(-12, 12) * 15) for _ in range(4)]
            rats = [rng.choice([1.0, 0.5, 0.25]) for _ in range(4)]
            o_ = C(rotation=rot, **{sizekw: size, 'pos': pos})
            o_.add_border_user([int(angs[0]), angs[1], np.float32(angs[2]), np.int16(angs[3])],
                               [int(rats[0]) if rats[0] == 1.0 else rats[0], np.float32(rats[1]), rats[2], np.float64(rats[3])])
            m = drv.ask(['borderuser %s %s %s' % (sl, core.f2s(a), core.f2s(r)) for a, r in zip(angs, rats)])
            users = [complex(u.pos) for u in o_.users]
            ok = len(users) == 4 and all(abs(u - fpts(x)[0]) <= 2e-6 * (shape_size(spec) + abs(pos)) for u, x in zip(users, m))   # float32 angle
            ctx.corr('hetero.add_border_user.' + kind, {'spec': spec, 'angles': angs, 'ratios': rats}, 'match' if ok else repr(users),
                     'match' if ok else repr(m), key=('chet', repr(spec), repr(angs)))
            ctx.branch('R10:corr:heterogeneous')
        # R9 / R14: ids above 256 of several integer types in a 17 x 17 cluster, per-cell ratios
        R = gen_radius(rng)
        ids = [257, 289, 1, 258]
        rats = [0.4, 0.0, 0.3, 0.2]
        draws = [rng.uniform() for _ in range(800)]
        cl = cell.Cluster(R, np.int16(289), cell_type='square')
        geo = [(complex(c.pos), float(c.radius), ref_vertices(cell_spec('square', R, 0.0, complex(c.pos))), 20 * R) for c in cl]
        case = {'n': 289, 'ids': ids, 'ids_form': 'list', 'nums': 1, 'colors': None, 'ratios': rats, 'draws': draws}
        sim, tie = simulate_placement(case, geo)
        if sim is not None and not tie:
            with scripted_random(draws):
                cl.add_random_users(cell_ids=[np.int16(257), np.intp(289), True, np.array(258)], num_users=np.uint8(1), min_dist_ratio=rats)
            impl = sorted([(c.id - 1, complex(u.pos)) for c in cl for u in c.users], key=lambda t: t[0])
            f = core.f2s
            m = drv.ask(['clusterusers square 289 %s %s %s %s %s s:1 l:%s %s' % (f(R), f(0.0), f(0.0), f(0.0), ','.join(map(str, ids)),
                                                                                ','.join(f(x) for x in rats), ','.join(f(d) for d in draws))])[0]
            model = sorted([(int(t.split(':')[0]), fpts(t.split(':')[1])[0]) for t in m.split(';')], key=lambda t: t[0]) if ':' in m else []
            ok = len(model) == len(impl) and all(a[0] == b[0] and abs(a[1] - b[1]) <= TOL * 20 * R for a, b in zip(impl, model))
            ctx.corr('index.cell_ids>256', {'R': R, 'ids': ids, 'ratios': rats}, 'match' if ok else repr(impl), 'match' if ok else m[:200],
                     key=('cidx', R))
            ctx.branch('R9:corr:index>256')
        cen = [complex(c.pos) for c in cell.Cluster(R, 289, cell_type='square')]
        m = drv.ask(['cluster square 289 %s %s %s %s' % (core.f2s(R), core.f2s(0.0), core.f2s(0.0), core.f2s(0.0))])[0]
        ok = pts_close(cen, fpts(m), TOL * 20 * R)
        ctx.corr('counts.cluster289', {'R': R}, 'match' if ok else repr(cen[:3]), 'match' if ok else m[:100], key=('ccount', R))
        # R12 + R14: 257 users added to the cells in a shuffled order -> the distance matrix of the model (cell by cell)
        cl = cell.Cluster(R, 7, pos=cx(gen_pos(rng)), rotation=gen_rot(rng))
        adds = [(rng.randint(1, 7), float(rng.randint(0, 719)), rng.choice([0.25, 0.5, 0.75])) for _ in range(257)]
        for cid, a, r in adds:
            cl.add_border_users(cid, a, r)
        M = np.asarray(cl.calc_dist_all_users_to_each_cell())
        per = {}
        for cid, a, r in adds:
            per.setdefault(cid, []).append(complex(cell.Cell(complex(cl.get_cell_by_id(cid).pos), R, rotation=cl.rotation).get_border_point(a, r)))
        ordered = [u for cid in sorted(per) for u in per[cid]]
        m = drv.ask(['distm %s %s' % (qline([c2(u) for u in ordered]), qline([c2(complex(c.pos)) for c in cl]))])[0]
        rows = [[core.s2f(t) for t in r_.split(',')] for r_ in m.split(';')]
        ok = M.shape == (257, 7) and all(abs(M[i, j] - rows[i][j]) <= 1e-9 * (R + rows[i][j]) for i in range(257) for j in range(7))
        ctx.corr('order.distance_matrix', {'R': R, 'n_users': 257}, 'match' if ok else 'differs', 'match', key=('cord', R))
        ctx.branch('R12:corr:insertion-order')
        ctx.branch('R14:corr:counts')
    finally:
        w.__exit__(None, None, None)



def guarded(ctx, name, fn, *args):
    """run one correspondence group; an exception of the LIBRARY in there is not an infrastructure failure: the
    correspondence is recorded as broken and the oracles / the search produce the concrete failing input"""
    try:
        with time_limit(4 * ORACLE_TIME_LIMIT if ctx.tier == 'quick' else 3600):
            fn(ctx, *args)
    except core.Infra:
        raise
    except Exception as e:
        import traceback
        ctx.tie_broken('correspondence', name, 'exception while comparing with the model: %s: %s\n%s' % (
            type(e).__name__, e, traceback.format_exc()[-1500:]))
        ctx.branch('correspondence-exception:' + name)



def correspondence(ctx, nshapes, nq, nusers, cluster_cases, ndist, npp, nhist):
    drv = core.Driver(DRIVER)
    guarded(ctx, 'corpus', corr_corpus, drv)
    guarded(ctx, 'history', corr_history, drv, nhist)
    guarded(ctx, 'robust', corr_robust, drv, max(20, nhist // 4))
    guarded(ctx, 'placement', corr_placement, drv, max(20, nhist // 4))
    guarded(ctx, 'more', corr_more, drv, max(6, nhist // 40))
    guarded(ctx, 'shapes', corr_shapes, drv, ['hex', 'hexshape', 'sec3', 'rect', 'rect', 'square', 'circle', 'wrap', 'sector'],
            nshapes, nq)
    guarded(ctx, 'users', corr_users, drv, nusers, 40)
    guarded(ctx, 'clusters', corr_clusters, drv, cluster_cases)
    guarded(ctx, 'distm', corr_distm, drv, ndist)
    guarded(ctx, 'pp', corr_pp, drv, npp)
    guarded(ctx, 'close-values', _r1516().close_corr, drv)
    guarded(ctx, 'buffer-reuse', _r1516().buffer_corr, drv)


# ------------------------------------------------------------------ oracle runs
def oracles(ctx, nshapes, nq, nusers, cluster_cases, ndist, npp, nhist):
    for name, call, case in load_corpus():
        run_oracle(ctx, call, case, key=('corpus', name))
        ctx.branch('corpus')
    # histories: every kind through every mutator / rejected call first, then seeded histories
    for i, case in enumerate(fixed_histories(ctx.rng)):
        run_oracle(ctx, 'setter_history', case, key=('hist-fixed', i, repr(case['init'])))
    for _ in range(nhist):
        case = gen_history(ctx.rng)
        run_oracle(ctx, 'setter_history', case, key=('hist', repr(case['init']), repr(case['ops'])))
    robust_oracles(ctx, max(30, nhist // 2))
    placement_oracles(ctx, max(40, nhist // 2))
    more_oracles(ctx, max(10, nhist // 8))
    for _ in range(3):
        run_oracle(ctx, 'CellWrap.readonly', {'wrap': gen_pos(ctx.rng), 'init': gen_spec(ctx.rng, ['hex', 'sec3', 'square'])})
    for _ in range(nshapes):
        spec = gen_spec(ctx.rng, ['hex', 'hexshape', 'sec3', 'rect', 'rect', 'square', 'circle', 'wrap', 'sector'])
        run_oracle(ctx, 'vertices', {'spec': spec}, key=('v', repr(spec)))
        run_oracle(ctx, 'is_point_inside_shape', {'spec': spec, 'queries': gen_queries(ctx.rng, spec, nq)},
                   key=('c', repr(spec)))
        run_oracle(ctx, 'get_border_point', {'spec': spec, 'queries': gen_angles(ctx.rng, spec, nq)}, key=('b', repr(spec)))
        if spec['kind'] in ('hex', 'sec3', 'square'):
            qs = [[a, r] for a, r in gen_angles(ctx.rng, spec, 4) if r > 0]
            run_oracle(ctx, 'add_border_user', {'spec': spec, 'queries': qs}, key=('bu', repr(spec)))
            run_oracle(ctx, 'add_user', {'spec': spec, 'queries': gen_queries(ctx.rng, spec, 6)}, key=('au', repr(spec)))
            for r in (-0.25, 1.25, 1.0, 0.0, round(ctx.rng.uniform(-1, 2), 3)):
                run_oracle(ctx, 'add_border_user.ratio', {'spec': spec, 'angle': 30.0, 'ratio': r}, key=('bur', repr(spec), r))
    # dense angle sweeps over [-720, 720] for every kind of polygon
    step = 7.5 if ctx.tier == 'quick' else 0.25
    nsweep = 1 if ctx.tier == 'quick' else 3
    for kind in ('hex', 'sec3', 'square', 'rect', 'sector', 'wrap', 'circle'):
        for _ in range(nsweep):
            spec = gen_spec(ctx.rng, [kind])
            off = ctx.rng.uniform(0, step)
            qs = [[-720.0 + off + step * k, ctx.rng.choice([1.0, 1.0, 0.5])] for k in range(int(1440 / step))]
            run_oracle(ctx, 'get_border_point', {'spec': spec, 'queries': qs}, key=('sweep', repr(spec)))
            ctx.branch('sweep:' + kind)
    for _ in range(nusers):
        spec = gen_spec(ctx.rng, ['hex', 'sec3', 'square', 'square', 'sector'])
        ratio = ctx.rng.choice([0.0, 0.0, 0.2, 0.5, 0.7])
        if ctx.rng.chance(0.5):
            case = {'spec': spec, 'ratio': ratio, 'draws': gen_draws(ctx.rng, 60), 'n': 3}
        else:
            case = {'spec': spec, 'ratio': ratio, 'draws': None, 'npseed': ctx.rng.below(2 ** 31), 'n': 5}
        run_oracle(ctx, 'add_random_user', case, key=('ru', repr(spec), ratio))
    for case in cluster_cases:
        run_oracle(ctx, 'Cluster', case, key=('cl', repr(case)))
    for n in range(1, 40):
        run_oracle(ctx, 'Cluster.square.invalid', {'n': n}, key=('clsq', n), nontrivial=False)
    for _ in range(ndist):
        case = gen_cluster_case(ctx.rng)
        case['npseed'] = ctx.rng.below(2 ** 31)
        n = case['n']
        case['ratio'] = ctx.rng.choice([0.0, 0.3])
        case['random'] = [[ctx.rng.randint(1, n), ctx.rng.randint(0, 3)] for _ in range(ctx.rng.randint(0, 4))]
        case['border'] = [[ctx.rng.randint(1, n), float(ctx.rng.randint(-24, 24) * 15), round(ctx.rng.uniform(0.05, 0.95), 3)]
                          for _ in range(ctx.rng.randint(0, 3))]
        run_oracle(ctx, 'calc_dist_all_users_to_each_cell', case, key=('dm', repr(case)))
    for _ in range(npp):
        n = ctx.rng.randint(1, 200)
        if ctx.rng.chance(0.5):
            rmax = gen_radius(ctx.rng)
            case = {'what': 'circle', 'n': n, 'rmax': rmax, 'rmin': ctx.rng.choice([0.0, rmax * round(ctx.rng.uniform(0, 1), 3)])}
        else:
            case = {'what': 'rectangle', 'n': n, 'w': gen_radius(ctx.rng), 'h': gen_radius(ctx.rng)}
        if ctx.rng.chance(0.5):
            case['draws'] = [ctx.rng.choice([0.0, 1.0 - 2.0 ** -53, ctx.rng.uniform()]) for _ in range(2 * n)]
        else:
            case['draws'] = None
            case['npseed'] = ctx.rng.below(2 ** 31)
        run_oracle(ctx, 'pointprocess', case, key=('pp', repr(case)[:200]))
    _r1516().close_oracles(ctx)
    _r1516().buffer_oracles(ctx)


def cluster_cases_for(ctx, nrot):
    cases = []
    for ctype in ('simple', '3sec'):
        for n in CLUSTER_SIZES:
            for _ in range(nrot):
                cases.append({'type': ctype, 'n': n, 'R': gen_radius(ctx.rng), 'rot': gen_rot(ctx.rng), 'pos': gen_pos(ctx.rng)})
    for n in (1, 4, 9, 16):
        for _ in range(nrot):
            cases.append({'type': 'square', 'n': n, 'R': gen_radius(ctx.rng), 'rot': gen_rot(ctx.rng), 'pos': gen_pos(ctx.rng)})
    # sizes outside the table (the ring code accepts every n <= 19)
    for n in ((2, 5, 6, 8, 10, 12, 16, 18) if ctx.tier == 'quick' else range(1, 20)):
        for ctype in (('simple',) if ctx.tier == 'quick' else ('simple', '3sec')):
            cases.append({'type': ctype, 'n': n, 'R': gen_radius(ctx.rng), 'rot': gen_rot(ctx.rng), 'pos': gen_pos(ctx.rng)})
    if ctx.tier != 'quick':
        for n in (25, 36, 49, 64):
            cases.append({'type': 'square', 'n': n, 'R': gen_radius(ctx.rng), 'rot': gen_rot(ctx.rng), 'pos': gen_pos(ctx.rng)})
    return cases


def check(ctx):
    quick = ctx.tier == 'quick'
    ctx.rule = ('shapes hexagon / Cell / Cell3Sec / sector cells / Rectangle (any corner order, aspect 1:16..16:1) / '
                'CellSquare / Circle / CellWrap with seeded position (0, +-1, +-10, +-1000), radius 1e-2..1e2, rotation '
                'in [-720,720] (30% special angles); query points on both sides of edges and vertices with margins '
                '1e-1..1e-7 of the size, uniform and far; border angles uniform, on vertex / edge-normal directions and '
                '1e-1..1e-6 degrees beside them, ratios {0,.5,.9,1,seeded}; scripted and seeded np.random streams; '
                'clusters of sizes {1,3,4,7,13,19} (+ other n <= 19) x simple/3sec and k x k squares x seeded rotation; '
                'cells as state machines: histories of 1-6 pos / radius (x0.05..x10) / rotation setter calls on Cell, '
                'Cell3Sec, CellSquare, Rectangle and wrapped cells followed by every query; '
                'non-trivial = distinct (call, shape spec, query / history)')
    nshapes, nq = (60, 12) if quick else (1500, 40)
    nusers = 60 if quick else 1500
    nrot = 3 if quick else 40
    ndist, npp = (20, 40) if quick else (400, 800)
    nhist = 80 if quick else 3000
    core.prove(ctx, MODULE, generated=['C19Tables'], drivers=[DRIVER], scratch=ctx.scratch)
    ctx.required_branches = ['vertices:hex', 'vertices:sec3', 'vertices:rect', 'vertices:square', 'vertices:circle',
                             'vertices:wrap', 'inside:rect:in', 'inside:rect:out', 'inside:hex:in', 'inside:hex:out',
                             'inside:circle:in', 'inside:square:in', 'inside:square:out', 'border:hex', 'border:rect',
                             'border:sec3', 'border:square', 'border:circle', 'randuser:min-dist',
                             'randuser:square:after-rejections', 'randuser:hex:after-rejections', 'cluster:simple:19',
                             'cluster:3sec:7', 'cluster:square:9', 'distm:users', 'pp:circle', 'pp:rectangle',
                             'adduser:ok', 'adduser:error:ValueError', 'borderuser:placed', 'borderuser:rejected',
                             'history:hex', 'history:sec3', 'history:square', 'history:wrap:sec3', 'history:wrap:square',
                             'history:sectors', 'history-op:P', 'history-op:R', 'history-op:T', 'history-op:W',
                             'history-radius:shrink', 'history-radius:grow', 'history-randuser:cell',
                             'history-randuser:sector', 'history-op:M', 'history-op:Q', 'history-op:U', 'history-op:B',
                             'history-op:D', 'history-op:X', 'history:users-tracked',
                             'R1:narrow-int', 'R1:python-int', 'R1:narrow-float', 'R1:container', 'R1:corr:narrow-int',
                             'R2:strided', 'R2:reversed', 'R2:fortran', 'R2:broadcast', 'R2:0-d', 'R2:empty', 'R2:read-only',
                             'R2:corr:strided', 'R3:returned-arrays', 'R3:corr:overwritten-output',
                             'R4:rejected:add_user_outside', 'R4:rejected:add_user_outside_relative',
                             'R4:rejected:border_ratio', 'R4:rejected:sector_index', 'R4:rejected:wrap_radius',
                             'R5:rotation-multiple-of-90', 'R5:ratio-0-1-None', 'R5:size-boundary', 'R5:zero-counts',
                             'R5:unit-cell-at-origin', 'R6:scale:1e-12', 'R6:scale:1e+12', 'R6:scaled-input',
                             'R7:move-helper', 'R7:shared-class-cache', 'R7:shared-wrapped-cell',
                             'placement:Cluster.add_random_users', 'placement:Cluster.add_border_users',
                             'placement:Cell.add_random_users', 'placement:Cell3Sec.add_random_users_in_sector',
                             'placement:Cell.add_border_user', 'placement:Cluster.delete_all_users',
                             'placement:ids=int', 'placement:ids=list', 'placement:ids=none', 'placement:ids=array',
                             'placement:per-cell-arguments', 'placement-corr:ids=list', 'placement-corr:ids=none',
                             'placement-corr:per-cell-ratio', 'R8:forms', 'R8:constructor-vs-setter',
                             'R8:equivalent-entry-points', 'R8:scalar-0d-len1', 'R9:index-types', 'R9:index>256',
                             'R10:heterogeneous', 'R11:queries-and-plots', 'R12:insertion-order', 'R13:derived-objects',
                             'R14:counts', 'R8:corr:keyword', 'R8:corr:setter-path', 'R13:corr:deepcopy', 'R10:corr:heterogeneous',
                             'R9:corr:index>256', 'R12:corr:insertion-order', 'R14:corr:counts', 'R11:queries-in-history']
    ctx.required_branches += _r1516().REQUIRED
    cases = cluster_cases_for(ctx, nrot)
    try:
        correspondence(ctx, nshapes, nq, nusers, cases, ndist, npp, nhist)
    except core.Infra as e:
        if not ctx.broken:
            raise
        ctx.notes.append('correspondence skipped: %s' % e)
        ctx.required_branches = []
    oracles(ctx, nshapes, nq, nusers, cases, ndist, npp, nhist)
    ctx.exhaustive = False
    ctx.sample({'call': 'is_point_inside_shape', 'spec': {'kind': 'rect', 'first': [-1, -1], 'second': [1, 1], 'rot': 45.0},
                'query': [1.2, 0.0], 'expected': 'inside (the rotated square reaches 1.414 on the axis)'})
    ctx.sample({'call': 'get_border_point', 'spec': {'kind': 'rect', 'first': [-5, -0.5], 'second': [5, 0.5], 'rot': 0.0},
                'angle': 10.0, 'expected': 'on the top edge at 2.8356+0.5j'})
    ctx.sample({'call': 'Cluster', 'type': 'simple', 'n': 19, 'rot': 17.3,
                'checks': 'centroid, congruent cells, min distance = 2 apothems, touching graph connected, separating lines'})


def search(ctx):
    for _ in range(300):
        run_oracle(ctx, 'setter_history', gen_history(ctx.rng))
        if ctx.failures:
            return
    for _ in range(400):
        spec = gen_spec(ctx.rng, ['hex', 'hexshape', 'sec3', 'rect', 'rect', 'square', 'circle', 'wrap', 'sector'])
        run_oracle(ctx, 'vertices', {'spec': spec})
        run_oracle(ctx, 'is_point_inside_shape', {'spec': spec, 'queries': gen_queries(ctx.rng, spec, 40)})
        run_oracle(ctx, 'get_border_point', {'spec': spec, 'queries': gen_angles(ctx.rng, spec, 40)})
        if ctx.failures:
            return
    for case in cluster_cases_for(ctx, 10):
        run_oracle(ctx, 'Cluster', case)
