"""C19 — cell geometry: containment, user placement, border points, cluster layout (DESIGN.md §5 C19)."""
import cmath
import contextlib
import math

import numpy as np

from harness import core

MODULE = 'PyPhysim.Properties.C19'
DRIVER = 'drv_c19'
CLAIM = {
    'technique': 'Lean 4 theorems over ordered fields / R (Mathlib) about a scalar-polymorphic model of shapes.py, '
                 'cell.py, pointprocess.py; literal tables regenerated from the source; seeded Float correspondence '
                 'of the same model text with the code; first-principles geometric oracles on the code',
    'text': 'Kernel-checked for ALL inputs: placing a shape (rotation by a unit vector + translation) is an isometry; '
            'Hexagon vertices are the regular hexagon R*exp(j(-120+60k) deg) and Cell3Sec vertices the 12-gon with '
            'radii R, R/sqrt3, R, 2R/sqrt3, for every radius, position, rotation; the (repaired) Rectangle/CellSquare '
            'test is exactly membership in the convex hull of the four reported vertices; the Circle test is the open '
            'disc and its vertices lie on the circle; whenever the (repaired) get_border_point returns, the point is '
            'pos + ratio*(b - pos) with b on an edge of the polygon, on the ray of the requested direction, and no '
            'boundary point on that ray nearer; it returns for every direction of every polygon whose edges run '
            'counter-clockwise around the centre, which hexagons, 3-sector cells and non-degenerate rectangles in any '
            'rotation are; add_border_user accepts exactly ratios in [0,1]; for every stream of draws the placed user '
            'is the first candidate that is inside and not closer than ratio*radius (for CellSquare: inside the hull '
            'of its vertices); cluster centres have their centroid at the cluster position for every layout and '
            'pairwise distances independent of rotation/position; hexagon layouts of every size <= 19: first ring '
            'exactly two apothems from the centre cell and from ring neighbours, second ring alternating 3R / 4 '
            'apothems, all centres >= two apothems apart, every cell exactly two apothems from an earlier one, a '
            'separating line between any two cells; k x k squares: neighbours exactly one side apart, all others '
            'farther, separating lines, non-squares rejected; cells of a cluster congruent; distance matrices '
            'entrywise Euclidean; circle/rectangle point processes in range. The model is tied to the code by '
            'seeded comparison (1e-9 of the shape scale; discrete decisions exact away from ties) of vertices, '
            'containment, border points, scripted-RNG placement, cluster centres and cell vertices, distance '
            'matrices and point processes, and by regenerated literal tables (theorem source_tables). Cells as state '
            'machines: for Cell, Cell3Sec (with its three sector cells) and CellSquare (with its stored corners), after '
            'ANY history of pos / radius / rotation setter calls (radii > 0) the stored state equals that of a freshly '
            'constructed cell with the current attributes, hence so does every query (vertices, containment, border '
            'point, whole-cell and per-sector placement, sector positions / radii); CellWrap holds no derived state; '
            'tied by seeded histories of 1-6 setter calls (radii shrinking and growing) compared with the model, with '
            'a freshly constructed object and with first-principles polygons of the current attributes.',
    'note': 'Trusted additions: matplotlib.path.Path.contains_point is an oracle parameter (polygon containment of '
            'hexagon / 3-sector / wrapped cells is NOT proved; its agreement with an independent winding-number test '
            'is checked on every query, and with the even-odd reference of the model in the correspondence); '
            'np.random is an explicit stream; driver cos/sin/sqrt are binary64 libm. Partial: no-overlap of the '
            'non-convex 3-sector cells and of wrap-around cells is checked by sampling / centre distances only; '
            'almost-sure termination of rejection sampling is not a theorem; a plain (non-square) Rectangle under '
            'setters is checked by oracle only (the state model covers Cell, Cell3Sec, CellSquare, CellWrap). Fixed: '
            'defects 19, 20, 22 and the stale corners of Rectangle / CellSquare under the pos and radius setters.',
}

TOL = 1e-9


# ------------------------------------------------------------------ implementation adapters
def _mods():
    from pyphysim.cell import cell, shapes
    from pyphysim.pointprocess import pointprocess
    return shapes, cell, pointprocess


def c2(z):
    return [float(z.real), float(z.imag)]


def cx(p):
    return complex(p[0], p[1])


def make_shape(spec):
    """the real object for a shape spec"""
    shapes, cell, _ = _mods()
    k = spec['kind']
    if k == 'hex':
        return cell.Cell(cx(spec['pos']), spec['R'], rotation=spec['rot'])
    if k == 'hexshape':
        return shapes.Hexagon(cx(spec['pos']), spec['R'], spec['rot'])
    if k == 'sec3':
        return cell.Cell3Sec(cx(spec['pos']), spec['R'], rotation=spec['rot'])
    if k == 'sector':
        c3 = cell.Cell3Sec(cx(spec['pos']), spec['R'], rotation=spec['rot'])
        return [c3._sec1, c3._sec2, c3._sec3][spec['k']]
    if k == 'rect':
        return shapes.Rectangle(cx(spec['first']), cx(spec['second']), spec['rot'])
    if k == 'square':
        return cell.CellSquare(cx(spec['pos']), spec['side'], rotation=spec['rot'])
    if k == 'circle':
        return shapes.Circle(cx(spec['pos']), spec['R'])
    if k == 'wrap':
        inner = make_shape(spec['inner'])
        return cell.CellWrap(cx(spec['pos']), inner)
    raise ValueError(k)


def spec_line(spec):
    """the driver's shape tokens for a spec"""
    f = core.f2s
    k = spec['kind']
    if k in ('hex', 'hexshape'):
        return 'hex %s %s %s %s' % (f(spec['R']), f(spec['rot']), f(spec['pos'][0]), f(spec['pos'][1]))
    if k == 'sec3':
        return 'sec3 %s %s %s %s' % (f(spec['R']), f(spec['rot']), f(spec['pos'][0]), f(spec['pos'][1]))
    if k == 'sector':
        return 'sector %s %s %s %s %d' % (f(spec['R']), f(spec['rot']), f(spec['pos'][0]), f(spec['pos'][1]), spec['k'])
    if k == 'rect':
        return 'rect %s %s %s %s %s' % (f(spec['first'][0]), f(spec['first'][1]), f(spec['second'][0]),
                                        f(spec['second'][1]), f(spec['rot']))
    if k == 'square':
        return 'square %s %s %s %s' % (f(spec['side']), f(spec['rot']), f(spec['pos'][0]), f(spec['pos'][1]))
    if k == 'circle':
        return 'circle %s %s %s' % (f(spec['R']), f(spec['pos'][0]), f(spec['pos'][1]))
    if k == 'wrap':      # a wrapped cell is the inner shape moved to the wrap position
        inner = dict(spec['inner'])
        inner['pos'] = spec['pos']
        return spec_line(inner)
    raise ValueError(k)


def base_kind(spec):
    return spec['inner']['kind'] if spec['kind'] == 'wrap' else spec['kind']


def spec_rot(spec):
    return spec['inner']['rot'] if spec['kind'] == 'wrap' else spec.get('rot', 0.0)


def spec_scale(spec):
    k = spec['kind']
    if k == 'wrap':
        return max(1.0, abs(cx(spec['pos'])) + spec_scale(spec['inner']))
    if k == 'rect':
        return max(1.0, abs(cx(spec['first'])), abs(cx(spec['second'])))
    if k == 'square':
        return max(1.0, abs(cx(spec['pos'])) + spec['side'])
    return max(1.0, abs(cx(spec['pos'])) + spec['R'])


def shape_size(spec):
    """a length characteristic of the shape (its circumradius)"""
    k = spec['kind']
    if k == 'wrap':
        return shape_size(spec['inner'])
    if k == 'rect':
        return abs(cx(spec['second']) - cx(spec['first'])) / 2
    if k == 'square':
        return spec['side'] * math.sqrt(2) / 2
    if k == 'sector':
        return spec['R'] / math.sqrt(3)
    return spec['R']


# ------------------------------------------------------------------ first-principles geometry
def cis(deg):
    return cmath.exp(1j * math.radians(deg))


def ref_vertices(spec):
    """vertices of the shape from its definition (not from the code under test)"""
    k = spec['kind']
    if k == 'wrap':
        inner = dict(spec['inner'])
        inner['pos'] = spec['pos']
        return ref_vertices(inner)
    if k in ('hex', 'hexshape'):
        p = cx(spec['pos'])
        return [p + spec['R'] * cis(spec['rot'] - 120 + 60 * i) for i in range(6)]
    if k == 'sector':
        p = cx(spec['pos'])
        r = spec['R'] / math.sqrt(3)
        c = p + r * cis(spec['rot'] + [210, 330, 90][spec['k']])
        # regular hexagon of radius r with one vertex in direction rot-30-120
        return [c + r * cis(spec['rot'] - 30 - 120 + 60 * i) for i in range(6)]
    if k == 'sec3':
        p = cx(spec['pos'])
        R = spec['R']
        radii = [R, R / math.sqrt(3), R, 2 * R / math.sqrt(3)]
        return [p + radii[i % 4] * cis(spec['rot'] - 120 + 30 * i) for i in range(12)]
    if k == 'rect':
        a, b = cx(spec['first']), cx(spec['second'])
        c = (a + b) / 2
        lo = complex(min(a.real, b.real), min(a.imag, b.imag)) - c
        hi = complex(max(a.real, b.real), max(a.imag, b.imag)) - c
        u = cis(spec['rot'])
        return [c + u * z for z in (lo, complex(hi.real, lo.imag), hi, complex(lo.real, hi.imag))]
    if k == 'square':
        p = cx(spec['pos'])
        h = spec['side'] / 2
        u = cis(spec['rot'])
        return [p + u * z for z in (complex(-h, -h), complex(h, -h), complex(h, h), complex(-h, h))]
    if k == 'circle':
        p = cx(spec['pos'])
        return [p + spec['R'] * cis(30 * i) for i in range(12)]
    raise ValueError(k)


def seg_dist(a, b, p):
    d = b - a
    L2 = abs(d) ** 2
    if L2 == 0:
        return abs(p - a)
    t = ((p - a) * d.conjugate()).real / L2
    t = min(1.0, max(0.0, t))
    return abs(p - (a + t * d))


def boundary_dist(verts, p):
    n = len(verts)
    return min(seg_dist(verts[i], verts[(i + 1) % n], p) for i in range(n))


def winding_inside(verts, p):
    """non-zero winding number by summing the signed angles subtended by the edges"""
    tot = 0.0
    n = len(verts)
    for i in range(n):
        a, b = verts[i] - p, verts[(i + 1) % n] - p
        tot += math.atan2((a.conjugate() * b).imag, (a.conjugate() * b).real)
    return abs(tot) > math.pi


def shape_contains_ref(spec, verts, p):
    """(inside?, margin) from first principles"""
    if base_kind(spec) == 'circle':
        d = abs(p - cx(spec['pos']))
        return d < spec['R'], abs(d - spec['R'])
    return winding_inside(verts, p), boundary_dist(verts, p)


def rot_class(rot):
    return 'rotation=0' if (rot % 360.0) == 0.0 else 'rotation!=0'


def rect_aspect_class(spec):
    if base_kind(spec) != 'rect':
        return ''
    a, b = cx(spec['first']), cx(spec['second'])
    w, h = abs(a.real - b.real), abs(a.imag - b.imag)
    return ':square' if abs(w - h) <= 1e-9 * max(w, h) else ':non-square'


# ------------------------------------------------------------------ scripted np.random
class StreamEnd(Exception):
    pass


class Scripted:
    def __init__(self, draws):
        self.d = list(draws)
        self.i = 0

    def __call__(self, size=None):
        if size is None:
            if self.i >= len(self.d):
                raise StreamEnd()
            v = self.d[self.i]
            self.i += 1
            return v
        n = int(np.prod(size))
        if self.i + n > len(self.d):
            raise StreamEnd()
        arr = np.array(self.d[self.i:self.i + n], dtype=float).reshape(size)
        self.i += n
        return arr


@contextlib.contextmanager
def scripted_random(draws):
    s = Scripted(draws)
    old = np.random.random_sample
    np.random.random_sample = s
    try:
        yield s
    finally:
        np.random.random_sample = old


# ------------------------------------------------------------------ oracles (property on the real code)
def o_vertices(case):
    spec = case['spec']
    sh = make_shape(spec)
    got = [complex(v) for v in np.asarray(sh.vertices)]
    ref = ref_vertices(spec)
    tol = TOL * spec_scale(spec)
    if len(got) != len(ref):
        return 'vertices:%s' % base_kind(spec), '%d vertices, expected %d' % (len(got), len(ref))
    # same polygon: same cyclic vertex sequence (the starting vertex is not part of the property)
    n = len(ref)
    for s in range(n):
        if all(abs(got[(i + s) % n] - ref[i]) <= tol for i in range(n)):
            return None
    return 'vertices:%s' % base_kind(spec), 'vertices %s are not the %s of the definition %s' % (got[:3], spec['kind'], ref[:3])


def o_contains(case):
    spec = case['spec']
    sh = make_shape(spec)
    verts = [complex(v) for v in np.asarray(sh.vertices)]
    sc = spec_scale(spec)
    for q in case['queries']:
        p = cx(q)
        exp, margin = shape_contains_ref(spec, verts, p)
        if margin < 1e-9 * sc:
            continue
        got = bool(sh.is_point_inside_shape(p))
        if got != exp:
            return ('contains-mismatch:%s:%s' % (base_kind(spec), rot_class(spec_rot(spec))),
                    'is_point_inside_shape(%r) = %s but the point is %s the polygon of the shape\'s vertices (margin %.3g)'
                    % (p, got, 'inside' if exp else 'outside', margin))
    return None


def o_border(case):
    spec = case['spec']
    sh = make_shape(spec)
    pos = complex(sh.pos)
    verts = [complex(v) for v in np.asarray(sh.vertices)]
    sc = spec_scale(spec)
    size = shape_size(spec)
    kind = base_kind(spec)
    for ang, ratio in case['queries']:
        p = complex(sh.get_border_point(ang, ratio))
        cls = 'border-off-boundary:%s%s' % (kind, rect_aspect_class(spec))
        if ratio == 0:
            if abs(p - pos) > TOL * sc:
                return cls, 'ratio 0 does not give the centre'
            continue
        b = pos + (p - pos) / ratio           # the un-scaled border point
        rel = (b - pos) * cis(-ang)           # must be a positive real
        if not (rel.real > 0 and abs(rel.imag) <= TOL * sc):
            return ('border-wrong-direction:%s%s' % (kind, rect_aspect_class(spec)),
                    'angle %r ratio %r: point %r is not in direction %r from the centre' % (ang, ratio, p, ang))
        if kind == 'circle':
            off = abs(abs(b - pos) - spec['R'])
        else:
            off = boundary_dist(verts, b)
        if off > 1e-9 * sc + 1e-9 * size:
            return cls, 'angle %r ratio %r: un-scaled point %r is %.3g away from the cell boundary' % (ang, ratio, b, off)
    return None


def o_border_user(case):
    """add_border_user places the users at the border points (ratio 1.0 is nudged inside by 1e-15)"""
    spec = case['spec']
    sh = make_shape(spec)
    verts = [complex(v) for v in np.asarray(sh.vertices)]
    sc = spec_scale(spec)
    angs = [a for a, _ in case['queries']]
    ratios = [float(r) for _, r in case['queries']]
    sh.add_border_user(angs, ratios)
    users = sh.users
    if len(users) != len(angs):
        return 'border-user-count:%s' % base_kind(spec), '%d users for %d angles' % (len(users), len(angs))
    pos = complex(sh.pos)
    for (ang, ratio), us in zip(case['queries'], users):
        p = complex(us.pos)
        if ratio == 0:
            continue
        b = pos + (p - pos) / ratio
        rel = (b - pos) * cis(-ang)
        if not (rel.real > 0 and abs(rel.imag) <= TOL * sc) or boundary_dist(verts, b) > 2e-9 * sc:
            return ('border-user-misplaced:%s%s' % (base_kind(spec), rect_aspect_class(spec)),
                    'angle %r ratio %r: user at %r' % (ang, ratio, p))
    return None


def o_border_user_ratio(case):
    """ratios outside [0, 1] are rejected with ValueError and no user is added"""
    spec = case['spec']
    sh = make_shape(spec)
    r = float(case['ratio'])
    try:
        sh.add_border_user(case['angle'], r)
        raised = False
    except ValueError:
        raised = True
    bad = r < 0 or r > 1
    if raised != bad:
        return ('border-user-ratio:%s' % ('accepted-out-of-range' if bad else 'rejected-in-range'),
                'ratio %r %s' % (r, 'accepted' if bad else 'rejected'))
    if raised and len(sh.users) != 0:
        return 'border-user-ratio:user-added-on-error', 'ratio %r' % r
    return None


def o_random_user(case):
    """scripted or seeded draws; the placed user must be inside the cell's polygon (the one spanned
    by the definition of the shape) and not closer to the centre than ratio*radius"""
    spec = case['spec']
    shapes, cell, _ = _mods()
    ratio = case['ratio']
    if spec['kind'] == 'sector':
        c3 = cell.Cell3Sec(cx(spec['pos']), spec['R'], rotation=spec['rot'])
        sec = [c3._sec1, c3._sec2, c3._sec3][spec['k']]
        centre, radius = complex(sec.pos), sec.radius

        def add():
            c3.add_random_user_in_sector(spec['k'] + 1, None, ratio)
            return complex(c3.users[-1].pos)
    else:
        sh = make_shape(spec)
        centre, radius = complex(sh.pos), sh.radius

        def add():
            sh.add_random_user(None, ratio)
            return complex(sh.users[-1].pos)
    ref = ref_vertices(spec)
    sc = spec_scale(spec)
    pts = []
    if case.get('draws') is not None:
        with scripted_random(case['draws']):
            try:
                for _ in range(case.get('n', 1)):
                    pts.append(add())
            except StreamEnd:
                pass
    else:
        st = np.random.get_state()
        np.random.seed(case['npseed'])
        try:
            for _ in range(case.get('n', 1)):
                pts.append(add())
        finally:
            np.random.set_state(st)
    for p in pts:
        if boundary_dist(ref, p) > 1e-9 * sc and not winding_inside(ref, p):
            return ('user-outside-cell:%s:%s' % (base_kind(spec), rot_class(spec_rot(spec))),
                    'user placed at %r, %.3g outside the cell' % (p, boundary_dist(ref, p)))
        if abs(p - centre) < ratio * radius * (1 - 1e-12):
            return 'user-too-close:%s' % base_kind(spec), 'user at distance %.6g < %.6g' % (abs(p - centre), ratio * radius)
    return None


def o_add_user(case):
    """add_user(absolute position) accepts exactly the points of the cell"""
    spec = case['spec']
    shapes, cell, _ = _mods()
    sh = make_shape(spec)
    ref = ref_vertices(spec)
    sc = spec_scale(spec)
    for q in case['queries']:
        p = cx(q)
        if boundary_dist(ref, p) < 1e-9 * sc:
            continue
        exp = winding_inside(ref, p)
        try:
            sh.add_user(cell.Node(p), relative_pos_bool=False)
            got = True
        except ValueError:
            got = False
        if got != exp:
            return ('add-user-mismatch:%s:%s' % (base_kind(spec), rot_class(spec_rot(spec))),
                    'add_user(%r) %s but the point is %s the cell' % (p, 'accepted' if got else 'rejected',
                                                                      'inside' if exp else 'outside'))
    return None


def convex_separated(va, vb, tol):
    """separating axis test for two convex polygons: True iff some edge normal separates them"""
    for poly in (va, vb):
        n = len(poly)
        for i in range(n):
            e = poly[(i + 1) % n] - poly[i]
            nrm = complex(e.imag, -e.real)
            nrm /= abs(nrm)
            pa = [(v * nrm.conjugate()).real for v in va]
            pb = [(v * nrm.conjugate()).real for v in vb]
            if max(pa) <= min(pb) + tol or max(pb) <= min(pa) + tol:
                return True
    return False


def o_cluster(case):
    shapes, cell, _ = _mods()
    n, R, rot, ctype = case['n'], case['R'], case['rot'], case['type']
    pos = cx(case['pos'])
    cl = cell.Cluster(cell_radius=R, num_cells=n, pos=pos, cell_type=ctype, rotation=rot)
    cells = list(cl)
    sc = max(1.0, abs(pos) + 6 * R)
    tol = TOL * sc
    cls = 'cluster:%s:' % ctype
    if len(cells) != n:
        return cls + 'count', '%d cells' % len(cells)
    cen = [complex(c.pos) for c in cells]
    # centred around the cluster position
    if abs(sum(cen) / n - pos) > tol:
        return cls + 'not-centred', 'centroid %r, cluster position %r' % (sum(cen) / n, pos)
    # congruent: every cell is the first one translated
    v0 = np.asarray(cells[0].vertices) - cen[0]
    for c, z in zip(cells, cen):
        v = np.asarray(c.vertices) - z
        if v.shape != v0.shape or np.max(np.abs(v - v0)) > tol:
            return cls + 'not-congruent', 'cell %s differs from cell 1 by more than a translation' % c.id
    # the first cell is the shape of the definition, with the cluster's rotation
    spec0 = ({'kind': 'hex', 'R': R, 'rot': rot, 'pos': c2(cen[0])} if ctype == 'simple' else
             {'kind': 'sec3', 'R': R, 'rot': rot, 'pos': c2(cen[0])} if ctype == '3sec' else
             {'kind': 'square', 'side': R, 'rot': rot, 'pos': c2(cen[0])})
    ref0 = ref_vertices(spec0)
    got0 = [complex(v) for v in np.asarray(cells[0].vertices)]
    if len(ref0) != len(got0) or not any(all(abs(got0[(i + s) % len(ref0)] - ref0[i]) <= tol for i in range(len(ref0)))
                                         for s in range(len(ref0))):
        return cls + 'cell-shape', 'cell 1 is not a %s of size %r rotated by %r' % (ctype, R, rot)
    if n == 1:
        return None
    touch = R if ctype == 'square' else math.sqrt(3) * R      # one side / two apothems
    D = np.abs(np.array(cen)[:, None] - np.array(cen)[None, :])
    D[np.arange(n), np.arange(n)] = np.inf
    if D.min() < touch - tol:
        i, j = np.unravel_index(np.argmin(D), D.shape)
        return cls + 'overlap', 'cells %d and %d are %.9g apart, closer than %.9g' % (i + 1, j + 1, D.min(), touch)
    # touching: every cell has a neighbour exactly `touch` away and the touching graph is connected
    adj = np.abs(D - touch) <= tol
    if not adj.any(axis=1).all():
        i = int(np.argmin(adj.any(axis=1)))
        return cls + 'gap', 'cell %d has no neighbour at distance %.9g (nearest %.9g)' % (i + 1, touch, D[i].min())
    seen, todo = {0}, [0]
    while todo:
        i = todo.pop()
        for j in np.nonzero(adj[i])[0]:
            if int(j) not in seen:
                seen.add(int(j))
                todo.append(int(j))
    if len(seen) != n:
        return cls + 'gap', 'touching graph is not connected'
    # wrap-around (19 cells): every wrapped cell is congruent to the cell it wraps and the 19 + 42
    # centres still form a touching, non-overlapping layout
    if n == 19 and ctype != 'square' and case.get('wrap', True):
        cl.create_wrap_around_cells()
        wr = list(cl._wrapped_cells.values())
        for w in wr:
            o = w._wrapped_cell
            vw = np.asarray(w.vertices) - complex(w.pos)
            vo = np.asarray(o.vertices) - complex(o.pos)
            if vw.shape != vo.shape or np.max(np.abs(vw - vo)) > tol:
                return cls + 'wrap-not-congruent', 'wrapped cell %s differs from cell %s' % (w.id, o.id)
        allc = np.array(cen + [complex(w.pos) for w in wr])
        DW = np.abs(allc[:, None] - allc[None, :])
        DW[np.arange(len(allc)), np.arange(len(allc))] = np.inf
        if DW.min() < touch - tol:
            i, j = np.unravel_index(np.argmin(DW), DW.shape)
            return cls + 'wrap-overlap', 'centres %d and %d (cells + wrapped cells) are %.9g apart' % (i, j, DW.min())
        if not (np.abs(DW - touch) <= tol).any(axis=1).all():
            return cls + 'wrap-gap', 'a wrapped cell touches no other cell'
    # no overlap of the cells themselves
    polys = [[complex(v) for v in np.asarray(c.vertices)] for c in cells]
    if ctype in ('simple', 'square'):
        for i in range(n):
            for j in range(i + 1, n):
                if not convex_separated(polys[i], polys[j], tol):
                    return cls + 'overlap', 'cells %d and %d have no separating line' % (i + 1, j + 1)
    else:
        # non-convex: interior sample points of a cell are in no other cell
        for i in range(n):
            for k, v in enumerate(polys[i]):
                for lam in (0.999, 0.6):
                    p = cen[i] + lam * (v - cen[i])
                    pm = (p + cen[i] + lam * (polys[i][(k + 1) % 12] - cen[i])) / 2
                    for q in (p, pm):
                        if not winding_inside(polys[i], q):
                            continue
                        for j in range(n):
                            if j != i and winding_inside(polys[j], q) and boundary_dist(polys[j], q) > tol:
                                return cls + 'overlap', 'point %r is inside cells %d and %d' % (q, i + 1, j + 1)
    return None


def o_cluster_invalid(case):
    """square clusters exist only for perfect squares"""
    shapes, cell, _ = _mods()
    n = case['n']
    k = math.isqrt(n)
    try:
        cell.Cluster(cell_radius=1.0, num_cells=n, cell_type='square')
        ok = True
    except ValueError:
        ok = False
    if ok != (k * k == n):
        return 'cluster:square:accepts-non-square' if ok else 'cluster:square:rejects-square', 'n=%d' % n
    return None


def build_cluster_with_users(case):
    shapes, cell, _ = _mods()
    cl = cell.Cluster(cell_radius=case['R'], num_cells=case['n'], pos=cx(case['pos']), cell_type=case['type'],
                      rotation=case['rot'])
    st = np.random.get_state()
    np.random.seed(case['npseed'])
    try:
        for cid, k in case['random']:
            cl.add_random_users(cid, k, None, case.get('ratio', 0.0))
    finally:
        np.random.set_state(st)
    for cid, ang, ratio in case['border']:
        cl.add_border_users(cid, ang, ratio)
    return cl


def o_distmatrix(case):
    cl = build_cluster_with_users(case)
    users = [complex(u.pos) for c in cl for u in c.users]
    cells = [complex(c.pos) for c in cl]
    for name in ('calc_dist_all_users_to_each_cell', 'calc_dist_all_users_to_each_cell_no_wrap_around'):
        M = np.asarray(getattr(cl, name)())
        if not users:
            continue
        if M.shape != (len(users), len(cells)):
            return 'distmatrix:shape', '%s has shape %s for %d users and %d cells' % (name, M.shape, len(users), len(cells))
        for i, u in enumerate(users):
            for j, c in enumerate(cells):
                e = math.hypot(u.real - c.real, u.imag - c.imag)
                if abs(M[i, j] - e) > 1e-9 * max(1.0, e):
                    return 'distmatrix:entry', '%s[%d,%d] = %r, Euclidean distance is %r' % (name, i, j, M[i, j], e)
    # users are in their cells
    for c in cl:
        for u in c.users:
            spec = {'kind': {'simple': 'hex', '3sec': 'sec3', 'square': 'square'}[case['type']], 'R': case['R'],
                    'side': case['R'], 'rot': case['rot'], 'pos': c2(complex(c.pos))}
            ref = ref_vertices(spec)
            p = complex(u.pos)
            if boundary_dist(ref, p) > 1e-9 * max(1.0, abs(p)) and not winding_inside(ref, p):
                return ('user-outside-cell:%s:%s' % (spec['kind'], rot_class(case['rot'])),
                        'cluster user %r outside cell %s' % (p, c.id))
    return None


def o_pointprocess(case):
    _, _, pp = _mods()
    n = case['n']
    if case.get('draws') is not None:
        ctxm = scripted_random(case['draws'])
    else:
        ctxm = contextlib.nullcontext()
        st = np.random.get_state()
        np.random.seed(case['npseed'])
    try:
        with ctxm:
            if case['what'] == 'circle':
                pts = np.asarray(pp.generate_random_points_in_circle(n, case['rmax'], case['rmin']))
            else:
                pts = np.asarray(pp.generate_random_points_in_rectangle(n, case['w'], case['h']))
    finally:
        if case.get('draws') is None:
            np.random.set_state(st)
    if pts.shape != (n,):
        return 'pointprocess:%s:count' % case['what'], 'shape %s for %d points' % (pts.shape, n)
    if case['what'] == 'circle':
        r = np.abs(pts)
        slack = 1e-12 * max(1.0, case['rmax'])
        if (r > case['rmax'] + slack).any() or (r < case['rmin'] - slack).any():
            return 'pointprocess:circle:out-of-range', 'radii in [%r, %r], requested [%r, %r]' % (
                r.min(), r.max(), case['rmin'], case['rmax'])
    else:
        slack = 1e-12 * max(1.0, case['w'], case['h'])
        if (np.abs(pts.real) > case['w'] / 2 + slack).any() or (np.abs(pts.imag) > case['h'] / 2 + slack).any():
            return 'pointprocess:rectangle:out-of-range', 'point outside the %r x %r rectangle' % (case['w'], case['h'])
    return None


# ------------------------------------------------------------------ setter histories (cells as state machines)
SEC_ANGLE = [210.0, 330.0, 90.0]


def hist_kind(case):
    return case['init']['kind']


def hist_initial(case):
    """(pos, radius, rotation) of the freshly constructed initial cell"""
    init = case['init']
    k = init['kind']
    if k == 'rect':
        a, b = cx(init['first']), cx(init['second'])
        c = (a + b) / 2
        return c, abs(b - c), init['rot']
    if k == 'square':
        return cx(init['pos']), math.sqrt(2.0) * init['side'] / 2.0, init['rot']
    return cx(init['pos']), init['R'], init['rot']


def hist_current(case):
    """(pos, radius, rotation, wrap position) after the setter calls, computed from the case alone"""
    pos, R, rot = hist_initial(case)
    wpos = cx(case['wrap']) if case.get('wrap') is not None else None
    for op in case['ops']:
        if op[0] == 'P':
            pos = complex(op[1], op[2])
        elif op[0] == 'R':
            R = op[1]
        elif op[0] == 'T':
            rot = op[1]
        elif op[0] == 'W':
            wpos = complex(op[1], op[2])
    return pos, R, rot, wpos


def hist_current_spec(case):
    """spec of the freshly constructed cell with the current (pos, radius, rotation)"""
    pos, R, rot, wpos = hist_current(case)
    init = case['init']
    k = init['kind']
    if k in ('hex', 'sec3'):
        spec = {'kind': k, 'R': R, 'rot': rot, 'pos': c2(pos)}
    elif k == 'square':
        spec = {'kind': 'square', 'side': math.sqrt(2.0) * R, 'rot': rot, 'pos': c2(pos)}
    else:   # rect: same aspect, half diagonal R, centre pos
        a, b = cx(init['first']), cx(init['second'])
        _, R0, _ = hist_initial(case)
        half = complex(abs(a.real - b.real) / 2, abs(a.imag - b.imag) / 2) * (R / R0)
        spec = {'kind': 'rect', 'first': c2(pos - half), 'second': c2(pos + half), 'rot': rot}
    if wpos is not None:
        return {'kind': 'wrap', 'pos': c2(wpos), 'inner': spec}
    return spec


def hist_build(case):
    """the real objects: construct, optionally add a user, apply the setter calls"""
    shapes, cell, _ = _mods()
    obj = make_shape(case['init'])
    wrap = cell.CellWrap(cx(case['wrap']), obj) if case.get('wrap') is not None else None
    if case.get('pre_user') and hist_kind(case) != 'rect':
        pos0, R0, rot0 = hist_initial(case)
        obj.add_user(cell.Node(pos0 + 0.2 * shape_size(case['init']) * cis(rot0 + 17.0)), relative_pos_bool=False)
    for op in case['ops']:
        if op[0] == 'P':
            obj.pos = complex(op[1], op[2])
        elif op[0] == 'R':
            obj.radius = op[1]
        elif op[0] == 'T':
            obj.rotation = op[1]
        elif op[0] == 'W':
            wrap.pos = complex(op[1], op[2])
    return obj, wrap


def cyc_close(got, ref, tol):
    n = len(ref)
    return len(got) == n and any(all(abs(got[(i + s) % n] - ref[i]) <= tol for i in range(n)) for s in range(n))


def o_history(case):
    """after ANY history of pos / radius / rotation setter calls a cell answers every query like a
    freshly constructed cell with the current attributes; users placed afterwards (whole cell and
    per sector) are inside the CURRENT cell / sector and respect the minimum distance"""
    shapes, cell, _ = _mods()
    kind = hist_kind(case)
    obj, wrap = hist_build(case)
    pos, R, rot, wpos = hist_current(case)
    tspec = hist_current_spec(case)
    cspec = tspec['inner'] if tspec['kind'] == 'wrap' else tspec
    target = wrap if wrap is not None else obj
    name = ('wrap:' if wrap is not None else '') + kind
    sc = spec_scale(tspec)
    tol = TOL * sc + 1e-9 * shape_size(cspec)

    def cls(what):
        return 'history:%s:%s' % (name, what)

    # stored attributes are the ones written last
    if abs(complex(obj.pos) - pos) > tol or abs(obj.radius - R) > 1e-12 * max(1.0, R) or \
            abs(complex(obj.rotation).real - rot) > 1e-12 * max(1.0, abs(rot)):
        return cls('attributes'), 'pos/radius/rotation read back %r %r %r, written %r %r %r' % (
            obj.pos, obj.radius, obj.rotation, pos, R, rot)
    fresh = make_shape(tspec)
    # vertices: the polygon of the definition with the current attributes, and the fresh object's
    ref = ref_vertices(tspec)
    got = [complex(v) for v in np.asarray(target.vertices)]
    if not cyc_close(got, ref, tol):
        return cls('vertices'), 'vertices %s are not those of a %s with the current attributes %s' % (got[:3], name, ref[:3])
    if not cyc_close(got, [complex(v) for v in np.asarray(fresh.vertices)], tol):
        return cls('vertices'), 'vertices differ from a freshly constructed object'
    # sector cells of a Cell3Sec
    if kind == 'sec3':
        fsec = make_shape(cspec)
        for k, (sec, fs) in enumerate(zip([obj._sec1, obj._sec2, obj._sec3], [fsec._sec1, fsec._sec2, fsec._sec3])):
            sspec = {'kind': 'sector', 'R': R, 'rot': rot, 'pos': c2(pos), 'k': k}
            centre = pos + R / math.sqrt(3) * cis(rot + SEC_ANGLE[k])
            if abs(sec.radius - R / math.sqrt(3)) > 1e-9 * max(1.0, R):
                return cls('sector-radius'), 'sector %d has radius %r, the cell radius %r gives %r' % (
                    k + 1, sec.radius, R, R / math.sqrt(3))
            if abs(complex(sec.pos) - centre) > tol:
                return cls('sector-position'), 'sector %d at %r, expected %r' % (k + 1, sec.pos, centre)
            if not cyc_close([complex(v) for v in np.asarray(sec.vertices)], ref_vertices(sspec), tol):
                return cls('sector-vertices'), 'sector %d is not the sector hexagon of the current cell' % (k + 1)
            if abs(complex(sec.pos) - complex(fs.pos)) > tol or abs(sec.radius - fs.radius) > 1e-9 * max(1.0, R):
                return cls('sector-position'), 'sector %d differs from a freshly constructed cell' % (k + 1)
    # containment
    for q in case['queries']:
        p = cx(q)
        exp, margin = shape_contains_ref(tspec, ref, p)
        if margin < 1e-9 * sc:
            continue
        g = bool(target.is_point_inside_shape(p))
        if g != exp or g != bool(fresh.is_point_inside_shape(p)):
            return cls('contains'), 'is_point_inside_shape(%r) = %s, the point is %s the current polygon' % (
                p, g, 'inside' if exp else 'outside')
    # border points
    tpos = complex(target.pos)
    for ang, ratio in case['angles']:
        if ratio == 0:
            continue
        bp = complex(target.get_border_point(ang, ratio))
        b = tpos + (bp - tpos) / ratio
        rel = (b - tpos) * cis(-ang)
        if not (rel.real > 0 and abs(rel.imag) <= tol) or boundary_dist(ref, b) > tol:
            return cls('border'), 'angle %r ratio %r: border point %r is not on the current boundary in that direction' % (ang, ratio, bp)
        if abs(bp - complex(fresh.get_border_point(ang, ratio))) > tol:
            return cls('border'), 'angle %r: border point differs from a freshly constructed object' % ang
    if kind == 'rect' or wrap is not None:
        return None
    # a user added before a pure move follows the cell
    if case.get('pre_user') and all(op[0] == 'P' for op in case['ops']):
        pos0, R0, rot0 = hist_initial(case)
        exp = pos + 0.2 * shape_size(case['init']) * cis(rot0 + 17.0)
        if abs(complex(obj.users[0].pos) - exp) > tol:
            return cls('user-not-moved'), 'user at %r after the move, expected %r' % (obj.users[0].pos, exp)
    # random users, whole cell
    ratio = case['ratio']
    cref = ref_vertices(cspec)
    with scripted_random(case['draws']):
        try:
            for _ in range(2):
                n0 = len(obj.users)
                obj.add_random_user(None, ratio)
                p = complex(obj.users[-1].pos)
                if len(obj.users) != n0 + 1:
                    return cls('user-count'), 'add_random_user added %d users' % (len(obj.users) - n0)
                if boundary_dist(cref, p) > 1e-9 * sc and not winding_inside(cref, p):
                    return cls('user-outside-cell'), 'user placed at %r, %.3g outside the current cell' % (p, boundary_dist(cref, p))
                if abs(p - pos) < ratio * R * (1 - 1e-12):
                    return cls('user-too-close'), 'user at distance %.6g < %.6g' % (abs(p - pos), ratio * R)
        except StreamEnd:
            pass
    # random users, per sector
    if kind == 'sec3':
        for k in range(3):
            sref = ref_vertices({'kind': 'sector', 'R': R, 'rot': rot, 'pos': c2(pos), 'k': k})
            centre = pos + R / math.sqrt(3) * cis(rot + SEC_ANGLE[k])
            with scripted_random(case['sector_draws'][k]):
                try:
                    for use_many in (False, True):
                        n0 = len(obj.users)
                        if use_many:
                            obj.add_random_users_in_sector(2, k + 1, None, ratio)
                        else:
                            obj.add_random_user_in_sector(k + 1, None, ratio)
                        for us in obj.users[n0:]:
                            p = complex(us.pos)
                            if boundary_dist(sref, p) > 1e-9 * sc and not winding_inside(sref, p):
                                return cls('sector-user-outside'), ('user of sector %d placed at %r, %.3g outside the current '
                                                                    'sector (%.3g cell radii from the centre)'
                                                                    % (k + 1, p, boundary_dist(sref, p), abs(p - pos) / R))
                            if boundary_dist(cref, p) > 1e-9 * sc and not winding_inside(cref, p):
                                return cls('sector-user-outside'), 'user of sector %d at %r is outside the cell' % (k + 1, p)
                            if abs(p - centre) < ratio * R / math.sqrt(3) * (1 - 1e-12):
                                return cls('sector-user-too-close'), 'sector user at distance %.6g from the sector centre' % abs(p - centre)
                except StreamEnd:
                    pass
    return None


def o_wrap_readonly(case):
    """radius and rotation of a CellWrap cannot be set (they are the wrapped cell's)"""
    shapes, cell, _ = _mods()
    w = make_shape({'kind': 'wrap', 'pos': case['wrap'], 'inner': case['init']})
    for attr, val in (('radius', 2.0), ('rotation', 30.0)):
        try:
            setattr(w, attr, val)
            return 'history:wrap:%s-settable' % attr, 'CellWrap.%s was set' % attr
        except AttributeError:
            pass
    return None



ORACLES = {'vertices': o_vertices, 'is_point_inside_shape': o_contains, 'get_border_point': o_border,
           'add_border_user': o_border_user, 'add_border_user.ratio': o_border_user_ratio, 'add_random_user': o_random_user, 'add_user': o_add_user,
           'Cluster': o_cluster, 'Cluster.square.invalid': o_cluster_invalid,
           'calc_dist_all_users_to_each_cell': o_distmatrix, 'pointprocess': o_pointprocess,
           'setter_history': o_history, 'CellWrap.readonly': o_wrap_readonly}


def run_oracle(ctx, call, case, key=None, nontrivial=True):
    ctx.count((call, key if key is not None else repr(case)), nontrivial)
    try:
        r = ORACLES[call](case)
    except StreamEnd:
        r = None
    except Exception as e:
        r = ('exception:' + type(e).__name__, repr(e)[:300])
    if r is not None:
        ctx.fail(call, r[0], case, r[1])
        ctx.branch('oracle-fail:' + call)
    else:
        ctx.branch('oracle-ok:' + call)
    return r


def replay(ctx, rep):
    try:
        return ORACLES[rep['call']](rep['case']) is not None
    except StreamEnd:
        return False
    except Exception:
        return True


# ------------------------------------------------------------------ generators
SPECIAL_ROT = [0.0, 30.0, -30.0, 45.0, 60.0, 90.0, -90.0, 180.0, 270.0, 360.0, -360.0, 720.0, -720.0, 15.0, 1.0]


def gen_rot(rng):
    if rng.chance(0.3):
        return rng.choice(SPECIAL_ROT)
    return round(rng.uniform(-720.0, 720.0), rng.randint(0, 6))


def gen_pos(rng):
    m = rng.choice([0.0, 1.0, 10.0, 1000.0])
    if m == 0.0:
        return [0.0, 0.0]
    return [round(rng.uniform(-m, m), 4), round(rng.uniform(-m, m), 4)]


def gen_radius(rng):
    if rng.chance(0.25):       # round sizes make vertices fall exactly on the axes (exact zero cross products)
        return rng.choice([1.0, 2.0, 0.5, 10.0, 3.0])
    return round(10.0 ** rng.uniform(-2, 2), 6)


def gen_spec(rng, kinds):
    k = rng.choice(kinds)
    if k in ('hex', 'hexshape', 'sec3'):
        return {'kind': k, 'R': gen_radius(rng), 'rot': gen_rot(rng), 'pos': gen_pos(rng)}
    if k == 'sector':
        return {'kind': k, 'R': gen_radius(rng), 'rot': gen_rot(rng), 'pos': gen_pos(rng), 'k': rng.below(3)}
    if k == 'circle':
        return {'kind': k, 'R': gen_radius(rng), 'pos': gen_pos(rng)}
    if k == 'square':
        return {'kind': k, 'side': gen_radius(rng), 'rot': gen_rot(rng), 'pos': gen_pos(rng)}
    if k == 'rect':
        a = gen_pos(rng)
        w = gen_radius(rng)
        h = w if rng.chance(0.2) else w * round(10.0 ** rng.uniform(-1.2, 1.2), 3)
        b = [a[0] + w, a[1] + h]
        if rng.chance(0.5):          # the two corners may be given in any order
            a, b = [a[0], b[1]], [b[0], a[1]]
        if rng.chance(0.5):
            a, b = b, a
        return {'kind': k, 'first': a, 'second': b, 'rot': gen_rot(rng)}
    if k == 'wrap':
        inner = gen_spec(rng, ['hex', 'sec3', 'square'])
        return {'kind': 'wrap', 'pos': gen_pos(rng), 'inner': inner}
    raise ValueError(k)


def gen_queries(rng, spec, n):
    """query points placed relative to the polygon of the definition: both sides of edges with margins
    1e-1..1e-7 of the size, near vertices, uniform in the bounding box, far away"""
    ref = ref_vertices(spec)
    size = shape_size(spec)
    centre = sum(ref) / len(ref)
    out = []
    for _ in range(n):
        mode = rng.choice(['edge', 'edge', 'vertex', 'uniform', 'uniform', 'far'])
        if base_kind(spec) == 'circle':
            c = cx(spec['pos'])
            if mode in ('edge', 'vertex'):
                rr = spec['R'] * (1 + rng.choice([-1, 1]) * 10.0 ** (-rng.randint(1, 7)))
            elif mode == 'uniform':
                rr = spec['R'] * rng.uniform(0, 1.5)
            else:
                rr = spec['R'] * rng.uniform(2, 50)
            p = c + rr * cis(rng.uniform(0, 360))
        elif mode == 'edge':
            i = rng.below(len(ref))
            a, b = ref[i], ref[(i + 1) % len(ref)]
            s = rng.uniform(0.05, 0.95)
            nrm = (b - a) * (-1j) / abs(b - a)
            p = a + s * (b - a) + nrm * size * rng.choice([-1, 1]) * 10.0 ** (-rng.randint(1, 7))
        elif mode == 'vertex':
            v = ref[rng.below(len(ref))]
            p = centre + (v - centre) * (1 + rng.choice([-1, 1]) * 10.0 ** (-rng.randint(1, 7)))
        elif mode == 'uniform':
            p = centre + size * 1.5 * complex(rng.uniform(-1, 1), rng.uniform(-1, 1))
        else:
            p = centre + size * rng.uniform(2, 50) * cis(rng.uniform(0, 360))
        out.append(c2(p))
    return out


def gen_angles(rng, spec, n):
    out = []
    rot = spec_rot(spec)
    for _ in range(n):
        m = rng.below(4)
        if m == 0:
            ang = round(rng.uniform(-720.0, 720.0), rng.randint(0, 5))
        elif m == 1:      # vertex / edge-normal directions of the shape
            ang = rot + 15.0 * rng.randint(-48, 48)
        elif m == 2:
            ang = float(rng.randint(-24, 24) * 30)
        else:
            ang = rot + 15.0 * rng.randint(-48, 48) + rng.choice([-1, 1]) * 10.0 ** (-rng.randint(1, 6))
        ratio = rng.choice([1.0, 1.0, 0.5, 0.9, 0.0, round(rng.uniform(0.01, 1.0), 3)])
        out.append([ang, ratio])
    return out


def gen_draws(rng, n):
    return [rng.uniform() for _ in range(2 * n)]


def load_corpus():
    """corpus/c19/*.json: minimised past failures and boundary cases, run first on every seed"""
    import glob
    import json
    import os
    out = []
    for fn in sorted(glob.glob(os.path.join(core.VERIF, 'corpus', 'c19', '*.json'))):
        with open(fn) as f:
            d = json.load(f)
        out.append((os.path.basename(fn), d['call'], d['case']))
    return out


# ------------------------------------------------------------------ correspondence with the Lean model
def fpts(s):
    v = [core.s2f(t) for t in s.split(',')] if s else []
    return [complex(v[i], v[i + 1]) for i in range(0, len(v), 2)]


def qline(pts):
    return ','.join(core.f2s(x) for p in pts for x in p) if pts else '-'


def pts_close(a, b, tol):
    return len(a) == len(b) and all(abs(x - y) <= tol for x, y in zip(a, b))


def corr_shapes(ctx, drv, kinds, nshapes, nq):
    shapes, cell, _ = _mods()
    for _ in range(nshapes):
        spec = gen_spec(ctx.rng, kinds)
        kind = base_kind(spec)
        sh = make_shape(spec)
        sl = spec_line(spec)
        sc = spec_scale(spec)
        tol = TOL * sc
        verts = [complex(v) for v in np.asarray(sh.vertices)]
        qs = gen_queries(ctx.rng, spec, nq)
        ang = gen_angles(ctx.rng, spec, nq)
        lines = ['verts ' + sl, 'inside %s %s' % (sl, qline(qs))]
        lines += ['border %s %s %s' % (sl, core.f2s(a), core.f2s(r)) for a, r in ang]
        out = drv.ask(lines)
        # vertices
        mv = fpts(out[0])
        ok = pts_close(verts, mv, tol)
        ctx.corr('vertices.' + spec['kind'], spec, 'match' if ok else repr(verts[:4]), 'match' if ok else repr(mv[:4]),
                 key=('verts', repr(spec)))
        ctx.branch('vertices:' + spec['kind'])
        # containment (away from the boundary)
        mi = out[1].split(',')
        for q, m in zip(qs, mi):
            p = cx(q)
            _, margin = shape_contains_ref(spec, verts, p)
            if margin < 1e-9 * sc:
                ctx.branch('inside:near-boundary-skipped')
                continue
            got = '1' if sh.is_point_inside_shape(p) else '0'
            ctx.corr('is_point_inside_shape.' + spec['kind'], {'spec': spec, 'q': q}, got, m,
                     key=('inside', repr(spec), repr(q)))
            ctx.branch('inside:%s:%s' % (kind, 'in' if got == '1' else 'out'))
        # border points
        for (a, r), m in zip(ang, out[2:]):
            try:
                p = complex(sh.get_border_point(a, r))
                impl = None
            except ValueError:
                impl = 'error:ValueError'
            if impl is None and not m.startswith('error'):
                mp = fpts(m)[0]
                ok = abs(p - mp) <= tol + 1e-9 * shape_size(spec)
                ctx.corr('get_border_point.' + spec['kind'], {'spec': spec, 'angle': a, 'ratio': r},
                         'match' if ok else repr(p), 'match' if ok else repr(mp), key=('border', repr(spec), a, r))
            else:
                ctx.corr('get_border_point.' + spec['kind'], {'spec': spec, 'angle': a, 'ratio': r},
                         impl if impl is not None else repr(p), m, key=('border', repr(spec), a, r))
            ctx.branch('border:' + kind)
        # add_border_user: ratio validation + the same border point
        if spec['kind'] in ('hex', 'sec3', 'square'):
            for _ in range(3):
                a = gen_angles(ctx.rng, spec, 1)[0][0]
                r = ctx.rng.choice([1.0, 0.5, 0.0, -0.1, 1.5, 1.0 + 2.0 ** -52, round(ctx.rng.uniform(-0.5, 1.5), 3)])
                sh2 = make_shape(spec)
                try:
                    sh2.add_border_user(a, float(r))
                    p = complex(sh2.users[-1].pos)
                    impl = None
                except ValueError:
                    impl = 'error:ValueError'
                m = drv.ask(['borderuser %s %s %s' % (sl, core.f2s(a), core.f2s(r))])[0]
                if impl is None and not m.startswith('error'):
                    mp = fpts(m)[0]
                    ok = abs(p - mp) <= tol + 1e-9 * shape_size(spec)
                    ctx.corr('add_border_user.' + spec['kind'], {'spec': spec, 'angle': a, 'ratio': r},
                             'match' if ok else repr(p), 'match' if ok else repr(mp), key=('buser', repr(spec), a, r))
                    ctx.branch('borderuser:placed')
                else:
                    ctx.corr('add_border_user.' + spec['kind'], {'spec': spec, 'angle': a, 'ratio': r},
                             impl if impl is not None else 'placed', m if m.startswith('error') else 'placed',
                             key=('buser', repr(spec), a, r))
                    ctx.branch('borderuser:rejected')


def corr_users(ctx, drv, nshapes, ndraw):
    shapes, cell, _ = _mods()
    todo = []
    # fixed streams: a corner candidate (rejected by every shape), a candidate at the centre (rejected when a
    # minimum distance is requested), then seeded draws
    for kind in ('hex', 'sec3', 'square', 'sector'):
        for ratio in (0.0, 0.4):
            spec = gen_spec(ctx.rng, [kind])
            if kind == 'square':
                spec['rot'] = 0.0
            todo.append((spec, ratio, [0.999, 0.999, 0.5, 0.5] + gen_draws(ctx.rng, ndraw - 2)))
    for _ in range(nshapes):
        spec = gen_spec(ctx.rng, ['hex', 'sec3', 'square', 'sector'])
        ratio = ctx.rng.choice([0.0, 0.0, 0.1, 0.3, 0.5, 0.7, round(ctx.rng.uniform(0, 0.8), 3)])
        todo.append((spec, ratio, gen_draws(ctx.rng, ndraw)))
    for spec, ratio, draws in todo:
        sc = spec_scale(spec)
        if spec['kind'] == 'sector':
            c3 = cell.Cell3Sec(cx(spec['pos']), spec['R'], rotation=spec['rot'])
            sec = [c3._sec1, c3._sec2, c3._sec3][spec['k']]
            centre, radius = complex(sec.pos), sec.radius
        else:
            sh = make_shape(spec)
            centre, radius = complex(sh.pos), sh.radius
        ref = ref_vertices(spec)
        with scripted_random(draws) as s:
            try:
                if spec['kind'] == 'sector':
                    c3.add_random_user_in_sector(spec['k'] + 1, None, ratio)
                    p = complex(c3.users[-1].pos)
                else:
                    sh.add_random_user(None, ratio)
                    p = complex(sh.users[-1].pos)
                impl = (p, s.i // 2)
            except StreamEnd:
                impl = None
        # margins of every candidate that was examined (discrete decisions are compared away from ties)
        used = (impl[1] if impl else ndraw)
        tie = False
        for k in range(used):
            c = centre + complex(2 * (draws[2 * k] - 0.5) * radius, 2 * (draws[2 * k + 1] - 0.5) * radius)
            if boundary_dist(ref, c) < 1e-9 * sc or (ratio > 0 and abs(abs(c - centre) - ratio * radius) < 1e-9 * sc):
                tie = True
        if tie:
            ctx.branch('randuser:near-tie-skipped')
            continue
        m = drv.ask(['randuser %s %s %s' % (spec_line(spec), core.f2s(ratio), ','.join(core.f2s(d) for d in draws))])[0]
        case = {'spec': spec, 'ratio': ratio, 'draws': draws}
        if impl is None or m == 'none':
            ctx.corr('add_random_user.' + spec['kind'], case, 'none' if impl is None else 'placed', 'none' if m == 'none' else 'placed',
                     key=('randuser', repr(spec), ratio))
            ctx.branch('randuser:stream-exhausted')
            continue
        mp, mn = m.split()
        mp = fpts(mp)[0]
        ok = abs(mp - impl[0]) <= TOL * sc and int(mn) == impl[1]
        ctx.corr('add_random_user.' + spec['kind'], case, 'match' if ok else repr(impl), 'match' if ok else repr((mp, int(mn))),
                 key=('randuser', repr(spec), ratio))
        ctx.branch('randuser:%s:%s' % (spec['kind'], 'first-draw' if impl[1] == 1 else 'after-rejections'))
        if ratio > 0:
            ctx.branch('randuser:min-dist')
    # add_user(absolute position)
    for _ in range(nshapes):
        spec = gen_spec(ctx.rng, ['hex', 'sec3', 'square'])
        sh = make_shape(spec)
        ref = ref_vertices(spec)
        sc = spec_scale(spec)
        for q in gen_queries(ctx.rng, spec, 4):
            p = cx(q)
            if boundary_dist(ref, p) < 1e-9 * sc:
                continue
            try:
                sh.add_user(cell.Node(p), relative_pos_bool=False)
                impl = 'ok'
            except ValueError:
                impl = 'error:ValueError'
            m = drv.ask(['adduser %s %s' % (spec_line(spec), qline([q]))])[0]
            ctx.corr('add_user.' + spec['kind'], {'spec': spec, 'q': q}, impl, 'ok' if not m.startswith('error') else m,
                     key=('adduser', repr(spec), repr(q)))
            ctx.branch('adduser:' + impl)


CLUSTER_SIZES = [1, 3, 4, 7, 13, 19]


def gen_cluster_case(rng, sizes=None, types=('simple', '3sec', 'square')):
    ctype = rng.choice(list(types))
    if ctype == 'square':
        n = rng.choice([1, 4, 9, 16, 25])
    else:
        n = rng.choice(sizes or CLUSTER_SIZES)
    return {'type': ctype, 'n': n, 'R': gen_radius(rng), 'rot': gen_rot(rng), 'pos': gen_pos(rng)}


def corr_clusters(ctx, drv, cases):
    shapes, cell, _ = _mods()
    for case in cases:
        n, R, rot, ctype = case['n'], case['R'], case['rot'], case['type']
        pos = cx(case['pos'])
        sc = max(1.0, abs(pos) + 6 * R)
        tol = TOL * sc
        line = 'cluster %s %d %s %s %s %s' % ('square' if ctype == 'square' else 'hex', n, core.f2s(R), core.f2s(rot),
                                              core.f2s(pos.real), core.f2s(pos.imag))
        try:
            cl = cell.Cluster(cell_radius=R, num_cells=n, pos=pos, cell_type=ctype, rotation=rot)
            impl = [complex(c.pos) for c in cl]
        except ValueError:
            impl = 'error:ValueError'
        m = drv.ask([line])[0]
        if isinstance(impl, str) or m.startswith('error'):
            ctx.corr('Cluster.positions.' + ctype, case, impl if isinstance(impl, str) else 'ok', m if m.startswith('error') else 'ok',
                     key=('cluster', repr(case)))
            ctx.branch('cluster:error')
            continue
        mc = fpts(m)
        ok = pts_close(impl, mc, tol)
        ctx.corr('Cluster.positions.' + ctype, case, 'match' if ok else repr(impl[:4]), 'match' if ok else repr(mc[:4]),
                 key=('cluster', repr(case)))
        ctx.branch('cluster:%s:%d' % (ctype, n))
        # every cell is the model's cell shape at the model's centre
        kind = {'simple': 'hex', '3sec': 'sec3', 'square': 'square'}[ctype]
        lines = []
        for z in mc:
            spec = {'kind': kind, 'R': R, 'side': R, 'rot': rot, 'pos': c2(z)}
            lines.append('verts ' + spec_line(spec))
        outs = drv.ask(lines)
        okv = True
        for c, o in zip(cl, outs):
            if not pts_close([complex(v) for v in np.asarray(c.vertices)], fpts(o), tol):
                okv = False
        ctx.corr('Cluster.cell_vertices.' + ctype, case, 'match' if okv else 'differs', 'match', key=('clusterv', repr(case)))


def corr_distm(ctx, drv, ncases):
    for _ in range(ncases):
        case = gen_cluster_case(ctx.rng)
        case['npseed'] = ctx.rng.below(2 ** 31)
        n = case['n']
        case['random'] = [[ctx.rng.randint(1, n), ctx.rng.randint(0, 3)] for _ in range(ctx.rng.randint(0, 4))]
        case['border'] = [[ctx.rng.randint(1, n), float(ctx.rng.randint(-12, 12) * 30 + ctx.rng.uniform(-10, 10)),
                           round(ctx.rng.uniform(0.05, 0.95), 3)] for _ in range(ctx.rng.randint(0, 3))]
        cl = build_cluster_with_users(case)
        users = [complex(u.pos) for c in cl for u in c.users]
        cells = [complex(c.pos) for c in cl]
        if not users:
            ctx.branch('distm:no-users')
            continue
        M = np.asarray(cl.calc_dist_all_users_to_each_cell())
        M2 = np.asarray(cl.calc_dist_all_users_to_each_cell_no_wrap_around())
        m = drv.ask(['distm %s %s' % (qline([c2(u) for u in users]), qline([c2(c) for c in cells]))])[0]
        rows = [[core.s2f(t) for t in r.split(',')] for r in m.split(';')]
        ok = (M.shape == (len(users), len(cells)) and M2.shape == M.shape and
              all(core.close(M[i, j], rows[i][j], 1e-12) and core.close(M2[i, j], rows[i][j], 1e-12)
                  for i in range(len(users)) for j in range(len(cells))))
        ctx.corr('calc_dist_all_users_to_each_cell', case, 'match' if ok else repr(M.tolist())[:300], 'match' if ok else repr(rows)[:300],
                 key=('distm', repr(case)))
        ctx.branch('distm:users')


def corr_pp(ctx, drv, ncases):
    _, _, pp = _mods()
    for _ in range(ncases):
        n = ctx.rng.randint(1, 12)
        us = [ctx.rng.choice([0.0, ctx.rng.uniform(), ctx.rng.uniform(), 1.0 - 2.0 ** -53]) for _ in range(n)]
        vs = [ctx.rng.choice([0.0, ctx.rng.uniform(), ctx.rng.uniform(), 1.0 - 2.0 ** -53]) for _ in range(n)]
        if ctx.rng.chance(0.5):
            rmax = gen_radius(ctx.rng)
            rmin = ctx.rng.choice([0.0, rmax * round(ctx.rng.uniform(0, 1), 3)])
            with scripted_random(us + vs):
                pts = [complex(z) for z in pp.generate_random_points_in_circle(n, rmax, rmin)]
            m = drv.ask(['ppcircle %s %s %s %s' % (core.f2s(rmax), core.f2s(rmin), ','.join(map(core.f2s, us)),
                                                  ','.join(map(core.f2s, vs)))])[0]
            ok = pts_close(pts, fpts(m), 1e-12 * max(1.0, rmax))
            ctx.corr('generate_random_points_in_circle', {'rmax': rmax, 'rmin': rmin, 'u': us, 'v': vs},
                     'match' if ok else repr(pts), 'match' if ok else repr(fpts(m)), key=('ppc', rmax, rmin, tuple(us)))
            ctx.branch('pp:circle')
        else:
            w, h = gen_radius(ctx.rng), gen_radius(ctx.rng)
            with scripted_random(us + vs):
                pts = [complex(z) for z in pp.generate_random_points_in_rectangle(n, w, h)]
            m = drv.ask(['pprect %s %s %s %s' % (core.f2s(w), core.f2s(h), ','.join(map(core.f2s, us)),
                                                ','.join(map(core.f2s, vs)))])[0]
            ok = pts_close(pts, fpts(m), 1e-12 * max(1.0, w, h))
            ctx.corr('generate_random_points_in_rectangle', {'w': w, 'h': h, 'u': us, 'v': vs},
                     'match' if ok else repr(pts), 'match' if ok else repr(fpts(m)), key=('ppr', w, h, tuple(us)))
            ctx.branch('pp:rectangle')


def corr_corpus(ctx, drv):
    """the border-point corpus cases (vertex directions with exactly vanishing cross products) against the model"""
    for name, call, case in load_corpus():
        if call != 'get_border_point':
            continue
        spec = case['spec']
        sh = make_shape(spec)
        sl = spec_line(spec)
        tol = TOL * spec_scale(spec)
        out = drv.ask(['border %s %s %s' % (sl, core.f2s(a), core.f2s(r)) for a, r in case['queries']])
        for (a, r), m in zip(case['queries'], out):
            try:
                p = complex(sh.get_border_point(a, r))
                impl = None
            except ValueError:
                impl = 'error:ValueError'
            if impl is None and not m.startswith('error'):
                mp = fpts(m)[0]
                ok = abs(p - mp) <= tol + 1e-9 * shape_size(spec)
                ctx.corr('get_border_point.corpus', {'spec': spec, 'angle': a, 'ratio': r}, 'match' if ok else repr(p),
                         'match' if ok else repr(mp), key=('cborder', name, a, r))
            else:
                ctx.corr('get_border_point.corpus', {'spec': spec, 'angle': a, 'ratio': r},
                         impl if impl is not None else repr(p), m, key=('cborder', name, a, r))
            ctx.branch('border:corpus')


def gen_history(rng, kind=None, nq=6):
    """a freshly constructed cell, 1-6 setter calls (radii growing AND shrinking by factors 0.05..10,
    moves, rotations in [-720, 720]; for wrapped cells also moves of the wrap), then the queries"""
    kind = kind or rng.choice(['hex', 'sec3', 'sec3', 'sec3', 'square', 'square', 'rect', 'wrap:hex', 'wrap:sec3', 'wrap:square'])
    wrapped = kind.startswith('wrap:')
    base = kind[5:] if wrapped else kind
    init = gen_spec(rng, [base])
    case = {'init': init, 'wrap': gen_pos(rng) if wrapped else None, 'ops': []}
    _, R, _ = hist_initial(case)
    for _ in range(rng.randint(1, 6)):
        t = rng.choice(['P', 'R', 'R', 'T'] + (['W'] if wrapped else []))
        if t == 'P':
            case['ops'].append(['P'] + gen_pos(rng))
        elif t == 'W':
            case['ops'].append(['W'] + gen_pos(rng))
        elif t == 'T':
            case['ops'].append(['T', gen_rot(rng)])
        else:
            R = min(1e3, max(1e-3, round(R * rng.choice([0.05, 0.1, 0.2, 0.5, 0.9, 1.5, 3.0, 10.0]), 9)))
            case['ops'].append(['R', R])
    tspec = hist_current_spec(case)
    case['queries'] = gen_queries(rng, tspec, nq)
    case['angles'] = gen_angles(rng, tspec, nq)
    case['ratio'] = rng.choice([0.0, 0.0, 0.3, 0.6])
    case['draws'] = gen_draws(rng, 40)
    case['sector_draws'] = [gen_draws(rng, 40) for _ in range(3)]
    case['pre_user'] = rng.chance(0.3)
    return case


def hist_line(case):
    """driver tokens `cellhist [wrap wx wy] kind px py size rot ops`"""
    init = case['init']
    f = core.f2s
    size = init['side'] if init['kind'] == 'square' else init['R']
    toks = []
    for op in case['ops']:
        if op[0] in ('P', 'W'):
            toks.append('%s:%s:%s' % (op[0], f(op[1]), f(op[2])))
        else:
            toks.append('%s:%s' % (op[0], f(op[1])))
    head = 'cellhist '
    if case.get('wrap') is not None:
        head += 'wrap %s %s ' % (f(case['wrap'][0]), f(case['wrap'][1]))
    return head + '%s %s %s %s %s %s' % (init['kind'], f(init['pos'][0]), f(init['pos'][1]), f(size), f(init['rot']),
                                         ','.join(toks) if toks else '-')


def corr_history(ctx, drv, ncases):
    """the state-machine model against the real objects after the same setter calls"""
    shapes, cell, _ = _mods()
    fixed = []
    for kind in ('hex', 'sec3', 'square', 'wrap:sec3', 'wrap:square'):     # every kind, shrinking and growing
        for f in (0.1, 4.0):
            c = gen_history(ctx.rng, kind)
            _, R0, _ = hist_initial(c)
            c['ops'] = [['R', round(R0 * f, 9)]] + c['ops'][:2]
            t = hist_current_spec(c)
            c['queries'] = gen_queries(ctx.rng, t, 6)
            c['angles'] = gen_angles(ctx.rng, t, 6)
            fixed.append(c)
    for case in fixed + [gen_history(ctx.rng) for _ in range(ncases)]:
        kind = hist_kind(case)
        if kind == 'rect':
            continue
        obj, wrap = hist_build(case)
        target = wrap if wrap is not None else obj
        tspec = hist_current_spec(case)
        name = ('wrap:' if wrap is not None else '') + kind
        sc = spec_scale(tspec)
        tol = TOL * sc + 1e-9 * shape_size(tspec)
        hl = hist_line(case)
        verts = [complex(v) for v in np.asarray(target.vertices)]
        lines = [hl + ' verts', hl + ' inside ' + qline(case['queries'])]
        lines += ['%s border %s %s' % (hl, core.f2s(a), core.f2s(r)) for a, r in case['angles']]
        out = drv.ask(lines)
        mv = fpts(out[0])
        ok = pts_close(verts, mv, tol)
        ctx.corr('history.vertices.' + name, case, 'match' if ok else repr(verts[:4]), 'match' if ok else repr(mv[:4]),
                 key=('hverts', repr(case['init']), repr(case['ops'])))
        ctx.branch('history:' + name)
        for op in case['ops']:
            ctx.branch('history-op:' + op[0])
        _, R0, _ = hist_initial(case)
        for op in case['ops']:
            if op[0] == 'R':
                ctx.branch('history-radius:' + ('shrink' if op[1] < R0 else 'grow'))
                R0 = op[1]
        ref = ref_vertices(tspec)
        for q, m in zip(case['queries'], out[1].split(',')):
            p = cx(q)
            _, margin = shape_contains_ref(tspec, ref, p)
            if margin < 1e-9 * sc:
                continue
            ctx.corr('history.inside.' + name, {'case': case, 'q': q}, '1' if target.is_point_inside_shape(p) else '0', m,
                     key=('hinside', repr(case['ops']), repr(q)))
        for (a, r), m in zip(case['angles'], out[2:]):
            try:
                p = complex(target.get_border_point(a, r))
                mp = fpts(m)[0] if not m.startswith('error') else None
                ok = mp is not None and abs(p - mp) <= tol
                ctx.corr('history.border.' + name, {'case': case, 'angle': a, 'ratio': r}, 'match' if ok else repr(p),
                         'match' if ok else m, key=('hborder', repr(case['ops']), a, r))
            except ValueError:
                ctx.corr('history.border.' + name, {'case': case, 'angle': a, 'ratio': r}, 'error:ValueError', m,
                         key=('hborder', repr(case['ops']), a, r))
        if wrap is not None:
            continue
        # stored attributes and sector cells
        m = drv.ask([hl + ' state'])[0].split()
        mpos = fpts(m[0])[0]
        ok = (abs(mpos - complex(obj.pos)) <= tol and core.close(core.s2f(m[1]), float(obj.radius), 1e-12)
              and core.close(core.s2f(m[2]), float(complex(obj.rotation).real), 1e-12))
        ctx.corr('history.attributes.' + name, case, 'match' if ok else repr((obj.pos, obj.radius, obj.rotation)),
                 'match' if ok else repr(m), key=('hstate', repr(case['init']), repr(case['ops'])))
        if kind == 'sec3':
            m = drv.ask([hl + ' secinfo'])[0].split(';')
            ok = len(m) == 3
            for sec, t in zip([obj._sec1, obj._sec2, obj._sec3], m):
                v = [core.s2f(x) for x in t.split(',')]
                ok = ok and abs(complex(v[0], v[1]) - complex(sec.pos)) <= tol and core.close(v[2], float(sec.radius), 1e-12) \
                    and core.close(v[3], float(complex(sec.rotation).real), 1e-12)
            ctx.corr('history.sectors', case, 'match' if ok else repr([(s_.pos, s_.radius, s_.rotation) for s_ in
                                                                        (obj._sec1, obj._sec2, obj._sec3)]),
                     'match' if ok else repr(m), key=('hsec', repr(case['init']), repr(case['ops'])))
            ctx.branch('history:sectors')
        # scripted placement: whole cell, then per sector
        pos, R, rot, _ = hist_current(case)
        jobs = [('cell', None, case['draws'], complex(obj.pos), obj.radius, ref_vertices(tspec))]
        if kind == 'sec3':
            for k, sec in enumerate([obj._sec1, obj._sec2, obj._sec3]):
                jobs.append(('sector', k, case['sector_draws'][k], complex(sec.pos), sec.radius,
                             ref_vertices({'kind': 'sector', 'R': R, 'rot': rot, 'pos': c2(pos), 'k': k})))
        for what, k, draws, centre, radius, pref in jobs:
            with scripted_random(draws) as sr:
                try:
                    if what == 'cell':
                        obj.add_random_user(None, case['ratio'])
                    else:
                        obj.add_random_user_in_sector(k + 1, None, case['ratio'])
                    impl = (complex(obj.users[-1].pos), sr.i // 2)
                except StreamEnd:
                    impl = None
            used = impl[1] if impl else len(draws) // 2
            tie = False
            for j in range(used):
                c = centre + complex(2 * (draws[2 * j] - 0.5) * radius, 2 * (draws[2 * j + 1] - 0.5) * radius)
                if boundary_dist(pref, c) < 1e-9 * sc or (case['ratio'] > 0 and
                                                           abs(abs(c - centre) - case['ratio'] * radius) < 1e-9 * sc):
                    tie = True
            if tie:
                ctx.branch('history-randuser:near-tie-skipped')
                continue
            q = ('randuser %s %s' if what == 'cell' else 'sector %d randuser %%s %%s' % k) % (
                core.f2s(case['ratio']), ','.join(core.f2s(d) for d in draws))
            m = drv.ask([hl + ' ' + q])[0]
            ckey = ('hru', what, k, repr(case['init']), repr(case['ops']))
            if impl is None or m == 'none':
                ctx.corr('history.add_random_user.' + what, case, 'none' if impl is None else 'placed',
                         'none' if m == 'none' else 'placed', key=ckey)
                continue
            mp, mn = m.split()
            ok = abs(fpts(mp)[0] - impl[0]) <= tol and int(mn) == impl[1]
            ctx.corr('history.add_random_user.' + what, case, 'match' if ok else repr(impl), 'match' if ok else m, key=ckey)
            ctx.branch('history-randuser:' + what)



def correspondence(ctx, nshapes, nq, nusers, cluster_cases, ndist, npp, nhist):
    drv = core.Driver(DRIVER)
    corr_corpus(ctx, drv)
    corr_history(ctx, drv, nhist)
    corr_shapes(ctx, drv, ['hex', 'hexshape', 'sec3', 'rect', 'rect', 'square', 'circle', 'wrap', 'sector'], nshapes, nq)
    corr_users(ctx, drv, nusers, 40)
    corr_clusters(ctx, drv, cluster_cases)
    corr_distm(ctx, drv, ndist)
    corr_pp(ctx, drv, npp)


# ------------------------------------------------------------------ oracle runs
def oracles(ctx, nshapes, nq, nusers, cluster_cases, ndist, npp, nhist):
    for name, call, case in load_corpus():
        run_oracle(ctx, call, case, key=('corpus', name))
        ctx.branch('corpus')
    # setter histories: every kind with a shrinking and a growing radius first, then seeded histories
    for kind in ('hex', 'sec3', 'square', 'rect', 'wrap:hex', 'wrap:sec3', 'wrap:square'):
        for f in (0.05, 0.2, 5.0):
            case = gen_history(ctx.rng, kind)
            _, R0, _ = hist_initial(case)
            case['ops'] = [['R', round(R0 * f, 9)]] + case['ops'][:ctx.rng.randint(0, 2)]
            t = hist_current_spec(case)
            case['queries'] = gen_queries(ctx.rng, t, 6)
            case['angles'] = gen_angles(ctx.rng, t, 6)
            run_oracle(ctx, 'setter_history', case, key=('hist-fixed', kind, f))
    for _ in range(nhist):
        case = gen_history(ctx.rng)
        run_oracle(ctx, 'setter_history', case, key=('hist', repr(case['init']), repr(case['ops'])))
    for _ in range(3):
        run_oracle(ctx, 'CellWrap.readonly', {'wrap': gen_pos(ctx.rng), 'init': gen_spec(ctx.rng, ['hex', 'sec3', 'square'])})
    for _ in range(nshapes):
        spec = gen_spec(ctx.rng, ['hex', 'hexshape', 'sec3', 'rect', 'rect', 'square', 'circle', 'wrap', 'sector'])
        run_oracle(ctx, 'vertices', {'spec': spec}, key=('v', repr(spec)))
        run_oracle(ctx, 'is_point_inside_shape', {'spec': spec, 'queries': gen_queries(ctx.rng, spec, nq)},
                   key=('c', repr(spec)))
        run_oracle(ctx, 'get_border_point', {'spec': spec, 'queries': gen_angles(ctx.rng, spec, nq)}, key=('b', repr(spec)))
        if spec['kind'] in ('hex', 'sec3', 'square'):
            qs = [[a, r] for a, r in gen_angles(ctx.rng, spec, 4) if r > 0]
            run_oracle(ctx, 'add_border_user', {'spec': spec, 'queries': qs}, key=('bu', repr(spec)))
            run_oracle(ctx, 'add_user', {'spec': spec, 'queries': gen_queries(ctx.rng, spec, 6)}, key=('au', repr(spec)))
            for r in (-0.25, 1.25, 1.0, 0.0, round(ctx.rng.uniform(-1, 2), 3)):
                run_oracle(ctx, 'add_border_user.ratio', {'spec': spec, 'angle': 30.0, 'ratio': r}, key=('bur', repr(spec), r))
    # dense angle sweeps over [-720, 720] for every kind of polygon
    step = 7.5 if ctx.tier == 'quick' else 0.25
    nsweep = 1 if ctx.tier == 'quick' else 3
    for kind in ('hex', 'sec3', 'square', 'rect', 'sector', 'wrap', 'circle'):
        for _ in range(nsweep):
            spec = gen_spec(ctx.rng, [kind])
            off = ctx.rng.uniform(0, step)
            qs = [[-720.0 + off + step * k, ctx.rng.choice([1.0, 1.0, 0.5])] for k in range(int(1440 / step))]
            run_oracle(ctx, 'get_border_point', {'spec': spec, 'queries': qs}, key=('sweep', repr(spec)))
            ctx.branch('sweep:' + kind)
    for _ in range(nusers):
        spec = gen_spec(ctx.rng, ['hex', 'sec3', 'square', 'square', 'sector'])
        ratio = ctx.rng.choice([0.0, 0.0, 0.2, 0.5, 0.7])
        if ctx.rng.chance(0.5):
            case = {'spec': spec, 'ratio': ratio, 'draws': gen_draws(ctx.rng, 60), 'n': 3}
        else:
            case = {'spec': spec, 'ratio': ratio, 'draws': None, 'npseed': ctx.rng.below(2 ** 31), 'n': 5}
        run_oracle(ctx, 'add_random_user', case, key=('ru', repr(spec), ratio))
    for case in cluster_cases:
        run_oracle(ctx, 'Cluster', case, key=('cl', repr(case)))
    for n in range(1, 40):
        run_oracle(ctx, 'Cluster.square.invalid', {'n': n}, key=('clsq', n), nontrivial=False)
    for _ in range(ndist):
        case = gen_cluster_case(ctx.rng)
        case['npseed'] = ctx.rng.below(2 ** 31)
        n = case['n']
        case['ratio'] = ctx.rng.choice([0.0, 0.3])
        case['random'] = [[ctx.rng.randint(1, n), ctx.rng.randint(0, 3)] for _ in range(ctx.rng.randint(0, 4))]
        case['border'] = [[ctx.rng.randint(1, n), float(ctx.rng.randint(-24, 24) * 15), round(ctx.rng.uniform(0.05, 0.95), 3)]
                          for _ in range(ctx.rng.randint(0, 3))]
        run_oracle(ctx, 'calc_dist_all_users_to_each_cell', case, key=('dm', repr(case)))
    for _ in range(npp):
        n = ctx.rng.randint(1, 200)
        if ctx.rng.chance(0.5):
            rmax = gen_radius(ctx.rng)
            case = {'what': 'circle', 'n': n, 'rmax': rmax, 'rmin': ctx.rng.choice([0.0, rmax * round(ctx.rng.uniform(0, 1), 3)])}
        else:
            case = {'what': 'rectangle', 'n': n, 'w': gen_radius(ctx.rng), 'h': gen_radius(ctx.rng)}
        if ctx.rng.chance(0.5):
            case['draws'] = [ctx.rng.choice([0.0, 1.0 - 2.0 ** -53, ctx.rng.uniform()]) for _ in range(2 * n)]
        else:
            case['draws'] = None
            case['npseed'] = ctx.rng.below(2 ** 31)
        run_oracle(ctx, 'pointprocess', case, key=('pp', repr(case)[:200]))


def cluster_cases_for(ctx, nrot):
    cases = []
    for ctype in ('simple', '3sec'):
        for n in CLUSTER_SIZES:
            for _ in range(nrot):
                cases.append({'type': ctype, 'n': n, 'R': gen_radius(ctx.rng), 'rot': gen_rot(ctx.rng), 'pos': gen_pos(ctx.rng)})
    for n in (1, 4, 9, 16):
        for _ in range(nrot):
            cases.append({'type': 'square', 'n': n, 'R': gen_radius(ctx.rng), 'rot': gen_rot(ctx.rng), 'pos': gen_pos(ctx.rng)})
    # sizes outside the table (the ring code accepts every n <= 19)
    for n in ((2, 5, 6, 8, 10, 12, 16, 18) if ctx.tier == 'quick' else range(1, 20)):
        for ctype in (('simple',) if ctx.tier == 'quick' else ('simple', '3sec')):
            cases.append({'type': ctype, 'n': n, 'R': gen_radius(ctx.rng), 'rot': gen_rot(ctx.rng), 'pos': gen_pos(ctx.rng)})
    if ctx.tier != 'quick':
        for n in (25, 36, 49, 64):
            cases.append({'type': 'square', 'n': n, 'R': gen_radius(ctx.rng), 'rot': gen_rot(ctx.rng), 'pos': gen_pos(ctx.rng)})
    return cases


def check(ctx):
    quick = ctx.tier == 'quick'
    ctx.rule = ('shapes hexagon / Cell / Cell3Sec / sector cells / Rectangle (any corner order, aspect 1:16..16:1) / '
                'CellSquare / Circle / CellWrap with seeded position (0, +-1, +-10, +-1000), radius 1e-2..1e2, rotation '
                'in [-720,720] (30% special angles); query points on both sides of edges and vertices with margins '
                '1e-1..1e-7 of the size, uniform and far; border angles uniform, on vertex / edge-normal directions and '
                '1e-1..1e-6 degrees beside them, ratios {0,.5,.9,1,seeded}; scripted and seeded np.random streams; '
                'clusters of sizes {1,3,4,7,13,19} (+ other n <= 19) x simple/3sec and k x k squares x seeded rotation; '
                'cells as state machines: histories of 1-6 pos / radius (x0.05..x10) / rotation setter calls on Cell, '
                'Cell3Sec, CellSquare, Rectangle and wrapped cells followed by every query; '
                'non-trivial = distinct (call, shape spec, query / history)')
    nshapes, nq = (60, 12) if quick else (1500, 40)
    nusers = 60 if quick else 1500
    nrot = 3 if quick else 40
    ndist, npp = (20, 40) if quick else (400, 800)
    nhist = 80 if quick else 3000
    core.prove(ctx, MODULE, generated=['C19Tables'], drivers=[DRIVER], scratch=ctx.scratch)
    ctx.required_branches = ['vertices:hex', 'vertices:sec3', 'vertices:rect', 'vertices:square', 'vertices:circle',
                             'vertices:wrap', 'inside:rect:in', 'inside:rect:out', 'inside:hex:in', 'inside:hex:out',
                             'inside:circle:in', 'inside:square:in', 'inside:square:out', 'border:hex', 'border:rect',
                             'border:sec3', 'border:square', 'border:circle', 'randuser:min-dist',
                             'randuser:square:after-rejections', 'randuser:hex:after-rejections', 'cluster:simple:19',
                             'cluster:3sec:7', 'cluster:square:9', 'distm:users', 'pp:circle', 'pp:rectangle',
                             'adduser:ok', 'adduser:error:ValueError', 'borderuser:placed', 'borderuser:rejected',
                             'history:hex', 'history:sec3', 'history:square', 'history:wrap:sec3', 'history:wrap:square',
                             'history:sectors', 'history-op:P', 'history-op:R', 'history-op:T', 'history-op:W',
                             'history-radius:shrink', 'history-radius:grow', 'history-randuser:cell',
                             'history-randuser:sector']
    cases = cluster_cases_for(ctx, nrot)
    try:
        correspondence(ctx, nshapes, nq, nusers, cases, ndist, npp, nhist)
    except core.Infra as e:
        if not ctx.broken:
            raise
        ctx.notes.append('correspondence skipped: %s' % e)
        ctx.required_branches = []
    oracles(ctx, nshapes, nq, nusers, cases, ndist, npp, nhist)
    ctx.exhaustive = False
    ctx.sample({'call': 'is_point_inside_shape', 'spec': {'kind': 'rect', 'first': [-1, -1], 'second': [1, 1], 'rot': 45.0},
                'query': [1.2, 0.0], 'expected': 'inside (the rotated square reaches 1.414 on the axis)'})
    ctx.sample({'call': 'get_border_point', 'spec': {'kind': 'rect', 'first': [-5, -0.5], 'second': [5, 0.5], 'rot': 0.0},
                'angle': 10.0, 'expected': 'on the top edge at 2.8356+0.5j'})
    ctx.sample({'call': 'Cluster', 'type': 'simple', 'n': 19, 'rot': 17.3,
                'checks': 'centroid, congruent cells, min distance = 2 apothems, touching graph connected, separating lines'})


def search(ctx):
    for _ in range(300):
        run_oracle(ctx, 'setter_history', gen_history(ctx.rng))
        if ctx.failures:
            return
    for _ in range(400):
        spec = gen_spec(ctx.rng, ['hex', 'hexshape', 'sec3', 'rect', 'rect', 'square', 'circle', 'wrap', 'sector'])
        run_oracle(ctx, 'vertices', {'spec': spec})
        run_oracle(ctx, 'is_point_inside_shape', {'spec': spec, 'queries': gen_queries(ctx.rng, spec, 40)})
        run_oracle(ctx, 'get_border_point', {'spec': spec, 'queries': gen_angles(ctx.rng, spec, 40)})
        if ctx.failures:
            return
    for case in cluster_cases_for(ctx, 10):
        run_oracle(ctx, 'Cluster', case)
