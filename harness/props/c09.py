"""C09 — block diagonalisation nulls inter-user interference within the power budget
(DESIGN.md §5 C09).

Tie to source: hand model `lean/PyPhysim/Model/C09.lean` (polymorphic in the
scalars; proofs at R / C, driver at binary64).  The external kernels
(np.linalg.svd / matrix_rank / pinv / inv, waterfilling.doWF,
calc_whitening_matrix, the stream-reduction metric function) are *tapped* while
the real code runs: their actual arguments and results are recorded, the
results are handed to the model as parameters, the arguments are compared with
what the model says the code hands to the kernel, every later quantity
(precoders, effective channels, receive filters, SINRs, stream counts) is
compared with the model, and the contract the theorems assume of each kernel
result is checked numerically on every case.

Property oracles (independent of the model and of the code's own formulas):
off-diagonal blocks of H.Ms computed from the case's channel, per-transmitter
power, W.H.Ms against the power mask, W.E for the external interference.
"""
import copy
import json
import math
import os
import pickle
import subprocess
import sys

import numpy as np

from harness import core

MODULE = 'PyPhysim.Properties.C09'
DRIVER = 'drv_c09'
CLAIM = {
    'technique': 'Lean 4 theorems (Mathlib matrices over C, real analysis for the power clauses) about an executable '
                 'polymorphic model; svd / rank / pinv / inv / doWF / whitening / metric results are contract '
                 'parameters; seeded differential correspondence at binary64 with tapped kernel calls',
    'text': 'For every user count K, every antenna count N per user, every channel and every kernel result '
            'satisfying the stated contracts, the modelled precoders make H.Ms block diagonal (for ANY post-factor '
            'applied inside the null space: water-filling, normalisation, stream reduction, whitening), every '
            'transmitter block has power <= iPu with equality for the strongest one (all of them without '
            'water-filling and in the external-interference variants), the Moore-Penrose receive filter gives '
            'W.newH = diag(power mask), the whitening and stream-reduction receive filters invert the effective '
            'channel of their user, the reported stream counts are the precoder widths, and a reduction matrix '
            'inside the noise eigenspace removes the external interference (W_k.E_k = 0); all of it is covariant '
            'under a common gain c != 0 on the channel (same precoders, effective channel times c).',
    'note': 'trusted: numpy/LAPACK kernels and doWF / calc_whitening_matrix / the metric functions (contracts checked '
            'numerically per case, not proved here: doWF is C12, whitening is C20; C09 needs only p >= 0, some p > 0 '
            'and invertible whitening matrices), binary64 rounding (correspondence within 1e-9 of the absolute-value '
            'product bound), the harness.  The null-space and noise-eigenspace contracts are themselves derived in Lean '
            'from the SVD factorisation contract (A = U S V^H, unitary factors).  "Enough streams are sacrificed" '
            '(n <= N - rank E_k) is now PROVED to imply the noise-eigenspace contract: for Re_k = pe.E E^H + s2.1 the '
            's2-eigenspace is ker E^H (pe != 0), of dimension N - rank E (ext_noise_eigenspace, rank-nullity); for '
            'n <= N - rank E it contains n orthonormal vectors, and any filter M.P^H built on such P has W Re W^H = '
            's2 W W^H, W E = 0 (enough_streams_sacrificed; the bound is exact: enough_streams_iff); and for ANY factorisation Re_k = U diag(S) V^H with unitary '
            'factors and non-negative singular values in decreasing order (pe >= 0, s2 > 0) the n smallest singular '
            'values equal s2 and the n least right singular vectors - the matrix _calc_stream_reduction_matrix '
            'computes - satisfy Re P = s2 P, P^H P = 1, E^H P = 0 (least_singular_vectors_in_noise_space; end to end '
            'with the receive filter: enough_streams_ext_int_removed; such a factorisation exists for every E: '
            'svd_contract_satisfiable; the decreasing order cannot be dropped: sorted_order_needed).  What remains a per-case contract there: that '
            'np.linalg.svd returns such a factorisation (factorisation, unitarity and "the n smallest singular values '
            'equal the noise variance" are checked numerically on every case; S >= 0 in decreasing order is numpy\'s '
            'documented behaviour, trusted), and n <= N - rank E itself is a precondition on the caller\'s num_streams (the '
            'code does not test it; rank is the exact rank over C, not matrix_rank with its tolerance).  The Moore-Penrose '
            'conditions of pinv and matrix_rank = (K-1)N on full-rank channels are checked, not proved.  The compiled '
            'whole-method model op for block_diagonalize is run for K.N <= 9 (12 in a sample of thorough cases) because '
            'the closure-based model costs O(T^6); all its steps are compared for every size.  Robustness classes: '
            'R1 element types (narrow ints / float16 / float32 / 0-d scalars for K, iPu, noise, pe, num_streams, packet '
            'length, antenna counts; int8..int64 / uint8 / float32 / complex64 channel arrays) and R2 layouts (Fortran, '
            'transposed, strided, reversed, offset views) - theorem value_semantics on the model side (results are '
            'functions of the logical values only), twin oracle (same result and non-truncating dtype as the '
            'float64/complex128 twin) + the first-principles oracles + the correspondence on exact-typed cases; size-0 / '
            'list inputs are rejected by the code (no state to corrupt).  R3 immutability / aliasing - oracle only '
            '(inputs, channel object and solver snapshot before/after, np.shares_memory of every output with every input '
            'and channel buffer, earlier outputs after later calls), model side: set_metric_copies_needed_keys.  R4 rejected '
            'calls - theorems set_metric_rejected_unchanged / metric_history + correspondence of setter histories (state, '
            'exception, path taken) + oracle (continue the history, compare with a clean object).  R5 boundary values '
            '(iPu = 0, K = 1, N = 1, noise 0.0 after a positive one, pe = 0, num_streams 1 and N) - oracle and '
            'correspondence.  R6 scale (channel 1e-12..1e12, powers 1e-12..1e12) - theorem scale_covariance + oracle + '
            'correspondence, all comparisons relative.  R7 long-lived objects (solver and channel objects re-used, '
            're-randomised, re-initialised, path loss switched, attributes and metric changed, one channel shared by '
            'several solvers) - theorems set_metric_like_fresh / metric_history for the configuration, oracle (equal to '
            'fresh objects + property) and correspondence (tapped run on the long-lived objects) for the rest.  '
            'R8 argument forms (positional / keyword / default / explicit None for every parameter of the three classes, '
            'the module functions and the metric setter; constructor vs attribute replacement; equivalent entry points: '
            'module functions vs methods, calc_receive_filter forms, None vs "None", EnhancedBD[None] vs BlockDiagonalizer, '
            'naive[num_streams=N] vs None) - oracle + correspondence on keyword / attribute-configured objects; model side '
            'set_metric_like_fresh; length-1 arrays for the scalar parameters are not accepted by the API (documented floats).  '
            'R9 index forms (python int, bool, int8..int64, uint8..uint64, intp, 0-d arrays for the user index of '
            '_get_sub_channel / _get_tilde_channel, values above 256; negative indexes are not documented) - theorem '
            'rows_selected_by_user_value + correspondence of the selected rows with the model ops tidx / sidx + oracle.  '
            'R10 heterogeneous collections (iterables of users of mixed integer types, list / tuple / range / ndarray of '
            'every integer dtype; NtE as int / numpy int / list / tuple / array / mixed list, Nr and Nt of different dtypes) - '
            'oracle + correspondence; there is no list-of-arrays argument in this API.  R11 non-mutating calls (repr, '
            'metric_name, calc_whitening_matrices, covariance queries, slicing helpers, the inherited water-filling method, '
            'static filter / SINR helpers, channel getters) inside the shared-channel histories, with solver and channel '
            'noise values that differ - oracle only.  R12 insertion order / extra keys of the metric argument dictionary - '
            'oracle + correspondence, model side set_metric_copies_needed_keys; users are positional blocks, so no other '
            'container order applies.  R13 derived objects (copy / deepcopy / pickle of configured solvers, parent and child '
            'mutated afterwards in both directions; per-user outputs are covered by R3) - oracle + correspondence on derived '
            'objects.  R14 counts (K = 257, 258, 260, 300 single-antenna, 129 / 150 two-antenna users, 257 / 258 antennas '
            'per user; 2^16 + 1 users for the row bookkeeping) - the theorems hold for every K and N; correspondence of the '
            'row bookkeeping; whole-method and everything-after-the-null-space oracles run in a child interpreter with '
            'single-threaded BLAS (a 260 x 260 case costs ~10 s there and is unpredictable otherwise); the tapped '
            'whole-method correspondence is not run at these sizes (its driver input would be hundreds of MB).',
}

EPS = 2.220446049250313e-16
RTOL = 1e-9
METRICS = ['None', 'naive', 'fixed', 'capacity', 'effective_throughput']


def _impl():
    from pyphysim.comm import blockdiagonalization as bd
    from pyphysim.channels.multiuser import MultiUserChannelMatrixExtInt
    from pyphysim.modulators import fundamental
    return bd, MultiUserChannelMatrixExtInt, fundamental


# ------------------------------------------------------------------ helpers
def enc(a):
    a = np.asarray(a)
    flat = a.reshape(-1)
    if np.iscomplexobj(a):
        return {'shape': list(a.shape), 'kind': 'c', 'data': [[float(z.real), float(z.imag)] for z in flat]}
    return {'shape': list(a.shape), 'kind': 'f', 'data': [float(z) for z in flat]}


def enc_seeded(seed, shape, cplx=True, shift=0.0):
    return {'shape': list(shape), 'kind': 'seeded', 'seed': int(seed), 'cplx': bool(cplx), 'shift': float(shift)}


def dec(d):
    if d['kind'] == 'seeded':       # standard gaussian entries from numpy's legacy generator: deterministic
        rs = np.random.RandomState(d['seed'])
        a = rs.randn(*d['shape'])
        a = (a + 1j * rs.randn(*d['shape'])) / math.sqrt(2) if d['cplx'] else a
        if d.get('shift'):      # G + z.1 with |z| twice the spectral radius of G: dense, generic, condition number < 10
            a = a + d['shift'] * np.eye(*d['shape'])
        return a
    if d['kind'] == 'c':
        a = np.array([complex(re, im) for re, im in d['data']], dtype=complex)
    else:
        a = np.array(d['data'], dtype=float)
    return a.reshape(d['shape'])


def Hm(a):
    return a.conj().T


def cline(a):
    flat = np.asarray(a, dtype=complex).reshape(-1)
    if flat.size == 0:
        return '-'
    return ','.join(core.f2s(z.real) + ',' + core.f2s(z.imag) for z in flat)


def fline(a):
    flat = np.asarray(a, dtype=float).reshape(-1)
    if flat.size == 0:
        return '-'
    return ','.join(core.f2s(x) for x in flat)


def parse_c(s, shape):
    if s == '':
        return np.zeros(shape, dtype=complex)
    v = [core.s2f(t) for t in s.split(',')]
    return (np.array(v[0::2]) + 1j * np.array(v[1::2])).reshape(shape)


def parse_f(s):
    if s == '':
        return np.zeros(0)
    return np.array([core.s2f(t) for t in s.split(',')])


def within(impl, model, bound, rtol=RTOL):
    """|impl - model| <= rtol * bound entrywise (bound = product of absolute values: the
    forward-error scale of two different summation orders)"""
    impl = np.asarray(impl)
    model = np.asarray(model)
    if impl.shape != model.shape:
        return False, 'shape %s vs %s' % (impl.shape, model.shape)
    if impl.size == 0:
        return True, ''
    if not (np.all(np.isfinite(impl)) and np.all(np.isfinite(model))):
        return False, 'non-finite'
    err = np.abs(impl - model)
    lim = rtol * np.maximum(np.broadcast_to(np.asarray(bound, dtype=float), err.shape), 1e-300)
    bad = err > lim
    if np.any(bad):
        return False, 'max err %.3e (limit %.3e)' % (float(err.max()), float(lim[bad].min()))
    return True, ''


def same(impl, model):
    impl = np.asarray(impl)
    model = np.asarray(model)
    if impl.shape != model.shape:
        return False, 'shape %s vs %s' % (impl.shape, model.shape)
    if not np.array_equal(impl, model):
        return False, 'not bit-equal, max diff %.3e' % float(np.abs(impl - model).max())
    return True, ''


def word(ok, why):
    return 'agree' if ok else 'differs: ' + why


def sinr_tolerance(w, heq, re_k, delta=RTOL):
    """first-order forward-error bound of `_calc_linear_SINRs` when every product is known to `delta` times its
    absolute-value product bound; returns (tolerance per stream, mask of streams where the bound is meaningful)"""
    mt = w @ heq
    b = np.abs(w) @ np.abs(heq)
    ext = np.abs(np.real(np.diag(w @ re_k @ Hm(w))))
    b_ext = np.diag(np.abs(w) @ np.abs(re_k) @ np.abs(Hm(w)))
    dg = np.abs(np.diag(mt))
    desired = dg ** 2
    e_des = 2 * dg * delta * np.diag(b) + (delta * np.diag(b)) ** 2
    off = np.abs(mt - np.diag(np.diag(mt)))
    b_off = b - np.diag(np.diag(b))
    internal = np.sum(off ** 2, axis=1)
    e_int = np.sum(2 * off * delta * b_off + (delta * b_off) ** 2, axis=1)
    den = internal + ext
    e_den = e_int + delta * b_ext
    ok = e_den < 0.1 * den
    with np.errstate(divide='ignore', invalid='ignore'):
        tol = e_des / den + desired * e_den / den ** 2
    return tol, ok


def scaled_bound(kern_bound, ms_good, ms_bad):
    """forward-error scale of a precoder recomputed from the svd factors: |V0|.|V1| per block, times the
    per-column power scaling that was applied"""
    nb = np.sqrt(np.sum(np.abs(ms_bad) ** 2, axis=0))
    ng = np.sqrt(np.sum(np.abs(ms_good) ** 2, axis=0))
    return kern_bound * (ng / np.maximum(nb, 1e-300))[None, :]


class Tap:
    """record (name, args, kwargs, result) of every kernel call made while the real code runs"""
    LINALG = ('svd', 'matrix_rank', 'pinv', 'inv')

    def __init__(self, bd):
        self.bd = bd

    def __enter__(self):
        self.log = []
        self.saved = {n: getattr(np.linalg, n) for n in self.LINALG}
        for n, f in self.saved.items():
            setattr(np.linalg, n, self._wrap(n, f))
        self.saved_wf = self.bd.waterfilling.doWF
        self.bd.waterfilling.doWF = self._wrap('doWF', self.saved_wf)
        self.saved_wh = self.bd.calc_whitening_matrix
        self.bd.calc_whitening_matrix = self._wrap('whiten', self.saved_wh)
        return self

    def _wrap(self, name, f):
        def g(*a, **kw):
            args = [np.array(x, copy=True) if isinstance(x, np.ndarray) else x for x in a]
            r = f(*a, **kw)
            res = tuple(np.array(x, copy=True) for x in r) if isinstance(r, tuple) else np.array(r, copy=True)
            self.log.append((name, args, kw, res))
            return r
        return g

    def wrap_metric(self, obj):
        f = obj._metric_func
        if f is not None:
            obj._metric_func = self._wrap('metric', f)

    def __exit__(self, *exc):
        for n, f in self.saved.items():
            setattr(np.linalg, n, f)
        self.bd.waterfilling.doWF = self.saved_wf
        self.bd.calc_whitening_matrix = self.saved_wh
        return False

    def names(self):
        return [c[0] for c in self.log]


def record_method(obj, name, log):
    """log (args, result) of a bound method of `obj` (calls made through `self.` inside the class)"""
    f = getattr(obj, name)

    def g(*a, **kw):
        r = f(*a, **kw)
        log.append(([np.array(x, copy=True) if isinstance(x, np.ndarray) else x for x in a],
                    tuple(np.array(x, copy=True) for x in r) if isinstance(r, tuple) else np.array(r, copy=True)))
        return r
    setattr(obj, name, g)


# --------------------------------------------------------------- generators
class Gen:
    KINDS = ['gauss', 'gauss', 'gauss', 'real', 'gint', 'pathloss', 'cond']

    def __init__(self, rng):
        self.rng = rng
        self.rs = np.random.RandomState(rng.u64() % (2 ** 32))

    def raw(self, m, n, cplx=True):
        a = self.rs.randn(m, n)
        return (a + 1j * self.rs.randn(m, n)) / math.sqrt(2) if cplx else a

    def unitary(self, n):
        q, r = np.linalg.qr(self.raw(n, n))
        d = np.diag(r)
        return q * (d / np.abs(d))

    def channel(self, K, N, kind=None):
        """K.N x K.N channel of full rank with cond <= 1e4 and every user's tilde channel of full row rank"""
        kind = kind or self.rng.choice(self.KINDS)
        T = K * N
        for _ in range(200):
            if kind == 'gauss':
                h = self.raw(T, T)
            elif kind == 'real':
                h = self.raw(T, T, cplx=False)
            elif kind == 'gint':
                h = self.rs.randint(-4, 5, size=(T, T)) + 1j * self.rs.randint(-4, 5, size=(T, T))
            elif kind == 'pathloss':   # users at very different distances: water-filling drops streams
                h = self.raw(T, T)
                g = np.repeat(10.0 ** self.rs.uniform(-1.5, 0.5, size=K), N)
                h = h * g[:, None]
            else:                       # prescribed condition number
                cond = 10.0 ** self.rng.uniform(0.5, 3.5)
                s = np.exp(np.linspace(0, -math.log(cond), T))
                h = (self.unitary(T) * s) @ Hm(self.unitary(T)) * 10.0 ** self.rng.uniform(-1, 1)
            if np.linalg.cond(h) <= 1e4 and np.linalg.matrix_rank(h) == T:
                return np.asarray(h, dtype=float if kind == 'real' else complex), kind
        return self.raw(T, T), 'gauss'

    def params(self):
        r = self.rng
        ipu = 10.0 ** r.uniform(-2, 2)
        if r.chance(0.25):          # R6: powers in another unit (pW ... TW)
            ipu *= r.choice([1e-12, 1e-6, 1e6, 1e12])
        return (ipu, 10.0 ** r.uniform(-4, 1))

    # ---- robustness classes
    def int_matrix(self, m, n, lo=-6, hi=6, square=True):
        for _ in range(500):
            a = self.rs.randint(lo, hi + 1, size=(m, n)).astype(float)
            if not square or (np.linalg.matrix_rank(a) == m and np.linalg.cond(a) <= 1e3):
                return a
        raise core.Infra('no full-rank integer matrix found')

    def exact_case(self, variant, shape=None, metric=None, nonneg=False, cplx=False, two_sources=False, one_source=False):
        """a case whose values are representable in every element type (small integers)"""
        r = self.rng
        K, N = shape or self.shape(maxT=12)
        T = K * N
        lo = 0 if nonneg else -6
        h = self.int_matrix(T, T, lo, 9 if nonneg else 6)
        if cplx:
            for _ in range(100):
                hc = h + 1j * self.int_matrix(T, T, lo, 6, square=False)
                if np.linalg.cond(hc) <= 1e3:
                    h = hc
                    break
        case = {'variant': variant, 'K': K, 'N': N, 'H': enc(h), 'iPu': float(r.choice([1, 2, 3, 5, 8])),
                'nv': float(r.choice([1, 2, 4])), 'gen': 'exact-int', 'scale': 1.0}
        if variant == 'bd':
            case['method'] = r.choice(['wf', 'nowf'])
            return case
        src = r.choice([[1], [1], [2], [1, 1]])
        if sum(src) > N:
            src = [1]
        if two_sources:
            src = [1, 1]
        if one_source:
            src = [1]
        e = self.int_matrix(T, sum(src), lo, 4, square=False)
        if cplx:
            e = e + 1j * self.int_matrix(T, sum(src), lo, 4, square=False)
        case.update({'E': enc(e), 'src': src, 'pe': float(r.choice([1, 2, 3]))})
        if variant == 'enh':
            case.update({'metric': metric or r.choice(METRICS), 'ns': r.randint(1, N), 'mod': ['PSK', 4], 'plen': 120})
        return case

    def deviations(self):
        """every (field, type) deviation; the first entries reach every coarse class, the rest is shuffled"""
        scal = INT_SCALARS + ['float32', 'float16', 'pyfloat', '0d']
        ints = [x for x in INT_SCALARS if x != '0d-int']
        allv = [(f, t) for f in ('iPu', 'nv', 'pe') for t in scal] + [(f, t) for f in ('K', 'ns', 'plen') for t in ints] + \
            [('Nr', t) for t in ('uint8', 'int16', 'int32', 'int64')] + [('H', t) for t in ARRAY_TYPES] + \
            [('layout', t) for t in LAYOUTS] + [('Nt', t) for t in ('uint8', 'int32')] + \
            [('ctor', t) for t in ('keywords', 'attributes')] + [('derive', t) for t in ('copy', 'deepcopy', 'pickle')] + \
            [('mform', t) for t in ('keyword', 'dict-reversed', 'dict-extra-keys', 'after-other-metric')] + \
            [('NtE', t) for t in ('tuple', 'ndarray', 'ndarray-uint8', 'list-mixed', 'numpy-int')]
        head = [('iPu', 'int8'), ('H', 'int32'), ('H', 'float32'), ('layout', 'fortran'), ('iPu', 'float16'), ('nv', '0d'),
                ('H', 'complex64'), ('ctor', 'attributes'), ('mform', 'dict-reversed'), ('NtE', 'list-mixed'), ('derive', 'copy'),
                ('iPu', 'float32')]
        rest = [x for x in allv if x not in head]
        self.rng.shuffle(rest)
        return head + rest

    def typed_case(self, exact_only=False, dev=None):
        """R1 / R2: one deviation (element type or memory layout) from the float64 / complex128 twin"""
        r = self.rng
        if dev is None:
            dev = r.choice(self.deviations())
        f, t = dev
        if exact_only and f == 'H' and t in ('float32', 'complex64'):
            t = {'float32': 'int64', 'complex64': 'complex128'}[t]
        variant = r.choice(['bd', 'bd', 'white', 'enh', 'enh'])
        if f in ('pe', 'Nr', 'Nt', 'NtE') and variant == 'bd':
            variant = r.choice(['white', 'enh'])
        if f in ('ns', 'plen', 'mform'):
            variant = 'enh'
        nonneg = cplx = False
        if f == 'H':
            nonneg = t == 'uint8'
            cplx = t in ('complex64', 'complex128')
        elif f == 'layout':
            cplx = r.chance(0.5)
        metric = None
        if f == 'ns':
            metric = r.choice(['naive', 'fixed'])
        if f == 'plen':
            metric = 'effective_throughput'
        case = self.exact_case(variant, metric=metric, nonneg=nonneg, cplx=cplx,
                               two_sources=(f == 'NtE' and t != 'numpy-int'), one_source=(f == 'NtE' and t == 'numpy-int'))
        case['rb'] = {f: t}
        return case

    def history_case(self, variant=None, metric=None):
        """R7: the case is run on a solver (and channel object) that has already served other channels,
        metrics and attribute values"""
        r = self.rng
        variant = variant or r.choice(['bd', 'white', 'enh', 'enh'])
        shape = self.shape(maxT=12)
        if variant == 'bd':
            self.n_hist_bd = getattr(self, 'n_hist_bd', -1) + 1
            case = self.bd_case(shape)
            case['method'] = r.choice(['wf', 'nowf'])
            case.pop('cov_scale', None)
        else:
            case = self.ext_case(variant, metric=metric, shape=shape)
        hist = []
        for _ in range(r.randint(1, 3)):
            if variant == 'bd':
                st = self.bd_case(shape)
                hist.append({'H': st['H'], 'iPu': st['iPu'], 'nv': st['nv'], 'wf': r.chance(0.5)})
                case['reuse_buffer'] = self.n_hist_bd % 3 != 2
            else:
                st = self.ext_case(variant, shape=shape)
                step = {'H': st['H'], 'E': st['E'], 'src': case['src'] if st['src'] != case['src'] and r.chance(0.5) else st['src'],
                        'iPu': st['iPu'], 'nv': st['nv'], 'pe': st['pe']}
                if sum(step['src']) != dec(st['E']).shape[1]:
                    step['src'] = st['src']
                if variant == 'enh':
                    step.update({'metric': r.choice(METRICS), 'ns': r.randint(1, shape[1]), 'mod': st['mod'], 'plen': st['plen']})
                if r.chance(0.3):
                    step['how'] = 'randomize'
                    step['seed'] = r.randint(0, 1 << 30)
                if r.chance(0.25):
                    K = shape[0]
                    step['pathloss'] = (10.0 ** self.rs.uniform(-2, 0, size=(K, K + len(step['src'])))).tolist()
                hist.append(step)
        case['history'] = hist
        return case

    BIG = [(258, 1), (260, 1), (300, 1), (257, 1), (129, 2), (150, 2)]

    def index_case(self, size='small'):
        r = self.rng
        if size == 'small':
            K, N = r.randint(2, 6), r.randint(1, 3)
            users = list(range(K))
            forms = True
        elif size == 'medium':                    # user indices that fit a narrow type while the ROW indices do not
            K, N = r.randint(130, 256), r.randint(2, 3)
            users = sorted(set([0, 1, 127, 128, 129, K - 1] + [r.below(K) for _ in range(4)]))
            forms = True
        elif size == 'huge':                      # 2^16 + 1 users: only the row bookkeeping is affordable
            K, N = 65537, 1
            users = [0, 256, 257, 32768, 65535, 65536]
            forms = r.chance(0.5)
        else:
            K, N = r.choice(self.BIG)
            forms = r.chance(0.5)
            users = sorted(set([0, 1, 127, 128, 255, 256, 257, 258, K - 2, K - 1]) & set(range(K))) if forms else list(range(K))
        case = {'variant': 'bd', 'K': K, 'N': N, 'users': users, 'forms': forms, 'iPu': 1.0, 'nv': 1.0, 'size': size}
        if K > 256 and K < 32768 and r.chance(0.5):
            case['rb'] = {'K': r.choice(['int16', 'uint16', 'int32', 'int64'])}
        picks = sorted(set([0, K - 1, K // 2] + [r.below(K) for _ in range(3)]))
        case['collections'] = [{'users': picks, 'kind': k} for k in
                               ('list', 'tuple', 'list-mixed', 'ndarray:int64', 'ndarray:uint16', 'ndarray:int32')
                               if not (k == 'ndarray:uint16' and K > 65535)]
        if K >= 3:
            case['collections'].append({'users': [0, 2] if K < 6 else [1, 3, 5], 'kind': 'range'})
        if K <= 256:
            case['collections'].append({'users': picks, 'kind': 'ndarray:uint8'})
        if K <= 128:
            case['collections'].append({'users': picks, 'kind': 'ndarray:int8'})
        return case

    def large_case(self, variant, shape, method='nowf', metric=None):
        """R14: many users (or many antennas per user); the matrices are regenerated from a seed"""
        r = self.rng
        K, N = shape
        T = K * N
        seed = r.randint(0, 1 << 30)
        henc = enc_seeded(seed, (T, T), shift=2.0 * math.sqrt(T))     # (no svd here: see run_isolated)
        case = {'variant': variant, 'K': K, 'N': N, 'H': henc, 'iPu': 10.0 ** r.uniform(-1, 1), 'nv': 10.0 ** r.uniform(-3, 0),
                'gen': 'seeded-gauss', 'scale': 1.0, 'size': 'large'}
        if variant == 'bd':
            case['method'] = method
            return case
        case.update({'E': enc_seeded(seed + 1, (T, 1)), 'src': [1], 'pe': 10.0 ** r.uniform(-1, 1)})
        if variant == 'enh':
            case.update({'metric': metric or 'naive', 'ns': r.randint(1, N), 'mod': ['PSK', 4], 'plen': 120})
        return case

    def rejected_case(self):
        r = self.rng
        case = self.ext_case('enh', metric='None', shape=(r.randint(2, 3), 2))
        n = r.randint(4, 9)
        ops = [list(r.choice(METRIC_OPS)) for _ in range(n)]
        if not any(not op_is_valid(tuple(o)) for o in ops):
            ops[r.below(n)] = list(r.choice([o for o in METRIC_OPS if not op_is_valid(o)]))
        case['ops'] = ops
        return case

    def boundary_case(self, what=None):
        r = self.rng
        case = self.bd_case((r.randint(2, 3), r.randint(1, 3)))
        case.pop('cov_scale', None)
        case['boundary'] = what or r.choice(['iPu=0', 'K=1', 'noise-changed'])
        case['zero'] = r.choice([0, 0.0])
        return case

    def shared_case(self):
        r = self.rng
        case = self.ext_case('enh', metric='None', shape=(r.randint(2, 3), r.randint(2, 3)))
        case['src'] = [1]
        case['seed'] = r.randint(0, 1 << 30)
        case['nv'] = max(case['nv'], 1e-3) if case.get('scale', 1.0) == 1.0 else case['nv']
        case['scale'] = 1.0
        case['nv'] = 10.0 ** r.uniform(-3, 0)
        case['nv_solver'] = case['nv'] * 3 + 0.125
        steps = []
        names = ['white'] + METRICS
        for _ in range(r.randint(3, 6)):
            order = [r.choice(names) for _ in range(r.randint(1, 3))]
            steps.append([r.choice(['randomize', 'randomize', 'init', 'pathloss', 'pathloss-off']), order])
        if steps[0][0] not in ('randomize', 'init'):
            steps[0][0] = 'init'          # the channel object needs a realisation before anything else
        case['steps'] = steps
        return case

    def shape(self, maxT=16):
        while True:
            K = self.rng.randint(2, 4)
            N = self.rng.choice([1, 2, 2, 3, 3, 4, 4])
            if K * N <= maxT:
                return K, N

    SCALES = [1e-12, 1e-9, 1e-7, 1e-6, 1e-4, 1.0, 1e3, 1e6, 1e12]

    def scale(self, scale=None):
        """overall scale of the whole channel (a common path loss / gain); block diagonalisation is
        scale covariant.  Returns (scale, whether the noise variance follows with scale^2)"""
        if scale is None:
            scale = 1.0 if self.rng.chance(0.4) else self.rng.choice(self.SCALES)
        return scale, self.rng.chance(0.5)

    def bd_case(self, shape=None, scale=None):
        K, N = shape or self.shape()
        h, kind = self.channel(K, N)
        ipu, nv = self.params()
        if self.rng.chance(0.3):
            nv = 10.0 ** self.rng.uniform(0, 2) * ipu   # low SNR: some streams get no power
        c, follow = self.scale(scale)
        if follow:
            nv = nv * c * c
        return {'variant': 'bd', 'K': K, 'N': N, 'H': enc(h * c), 'iPu': ipu, 'nv': nv, 'gen': kind, 'scale': c,
                'noise_scaled': follow, 'cov_scale': self.rng.choice([x for x in self.SCALES if x != 1.0] + [-1.0, 0.5])}

    def ext_case(self, variant=None, metric=None, shape=None, ns=None, scale=None):
        r = self.rng
        K, N = shape or self.shape()
        h, kind = self.channel(K, N)
        ipu, nv = self.params()
        nv = min(nv, 1.0)
        src = r.choice([[1], [1], [2], [1, 1]])
        if sum(src) > N:
            src = [1]
        e = self.raw(K * N, sum(src), cplx=(kind != 'real')) * 10.0 ** r.uniform(-1, 1)
        c, follow = self.scale(scale)
        h = h * c
        if r.chance(0.7):
            e = e * c           # the interferer sees the same path loss (else: only the desired links are scaled)
        if follow:
            nv = nv * c * c
        pe = 10.0 ** r.uniform(-2, 2)
        # keep the interference-to-noise ratio within what binary64 can whiten / separate (<= 1e8, the range the
        # unscaled generator spans): beyond ~1e15 the covariance pe.E.E^H + nv.I is numerically singular
        inr = pe * np.linalg.norm(e, 2) ** 2 / nv
        if inr > 1e8:
            pe = pe * 1e8 / inr * 10.0 ** r.uniform(-6, 0)
        case = {'variant': variant or r.choice(['white', 'enh', 'enh', 'enh']), 'K': K, 'N': N, 'H': enc(h),
                'E': enc(e), 'src': src, 'iPu': ipu, 'nv': nv, 'pe': pe, 'gen': kind,
                'scale': c, 'noise_scaled': follow}
        if case['variant'] == 'enh':
            case['metric'] = metric or r.choice(METRICS)
            case['ns'] = ns or r.randint(1, N)
            if case['metric'] == 'None' and r.chance(0.5):
                case['none_obj'] = True     # the Python object None instead of the string 'None'
            case['mod'] = r.choice([['PSK', 4], ['PSK', 8], ['QAM', 16], ['BPSK', 2]])
            case['plen'] = r.choice([60, 120, 512])
        return case


# ------------------------------------------------------------ running the code
# A case may carry `rb` (robustness deviations: element types, memory layout — the VALUES stay those of the
# float64 / complex128 twin) and `history` (earlier calls made on the SAME solver / channel objects).
SCALAR_TYPES = {
    'pyint': int, 'pyfloat': float, 'int8': np.int8, 'uint8': np.uint8, 'int16': np.int16, 'uint16': np.uint16,
    'int32': np.int32, 'int64': np.int64, 'float32': np.float32, 'float16': np.float16,
    '0d': lambda v: np.array(float(v)), '0d-int': lambda v: np.array(int(v)),
}
INT_SCALARS = ['pyint', 'int8', 'uint8', 'int16', 'uint16', 'int32', 'int64', '0d-int']
ARRAY_TYPES = ['int8', 'int16', 'int32', 'int64', 'uint8', 'float32', 'complex64', 'float64', 'complex128']
LAYOUTS = ['fortran', 'transposed', 'strided', 'reversed', 'offset']


def typed(case, field, value):
    t = case.get('rb', {}).get(field)
    return value if t is None else SCALAR_TYPES[t](value)


def laid_out(a, layout):
    """the same values in another memory layout"""
    if layout is None:
        return a
    if layout == 'fortran':
        return np.asfortranarray(a)
    if layout == 'transposed':
        return np.ascontiguousarray(a.T).T
    if layout == 'strided':
        big = np.zeros((2 * a.shape[0], 3 * a.shape[1]), dtype=a.dtype)
        big[::2, ::3] = a
        return big[::2, ::3]
    if layout == 'reversed':
        return np.ascontiguousarray(a[::-1, ::-1])[::-1, ::-1]
    if layout == 'offset':
        big = np.full((a.shape[0] + 2, a.shape[1] + 3), 7, dtype=a.dtype)
        big[1:-1, 2:-1] = a
        return big[1:-1, 2:-1]
    raise ValueError(layout)


def arr_arg(case, a):
    rb = case.get('rb', {})
    if rb.get('H') is not None:
        a = a.astype(rb['H']) if np.dtype(rb['H']).kind == 'c' or not np.iscomplexobj(a) else a
        if np.dtype(rb['H']).kind != 'c' and np.iscomplexobj(a):
            raise ValueError('complex values cannot be passed as ' + rb['H'])
    return laid_out(a, rb.get('layout'))


def h_arg(case):
    """the channel matrix as it is handed to the code (element type / layout of the case)"""
    return arr_arg(case, dec(case['H']))


_LIVE = {}
_BUF = {}


def reuse_buffer(a):
    """R16: the caller keeps ONE preallocated array per shape and refills it in place for every call (a Monte
    Carlo loop); the result must depend on the content handed over, not on the identity of the array object"""
    key = (a.shape, a.dtype.str, a.flags['F_CONTIGUOUS'] and not a.flags['C_CONTIGUOUS'])
    b = _BUF.get(key)
    if b is None:
        b = _BUF[key] = np.empty_like(a)
    b[...] = a
    return b


def apply_metric(o, case):
    m = case['metric']
    form = case.get('rb', {}).get('mform')       # R8 / R12: argument form of the setter call
    if form == 'after-other-metric':
        o.set_ext_int_handling_metric('naive', {'num_streams': 1})
        o.set_ext_int_handling_metric('effective_throughput', {'modulator': make_modulator(['BPSK', 2]), 'packet_length': 7})
    if m in ('naive', 'fixed'):
        items = [('num_streams', typed(case, 'ns', case['ns']))]
    elif m == 'effective_throughput':
        items = [('modulator', make_modulator(case['mod'])), ('packet_length', typed(case, 'plen', case['plen']))]
    else:
        items = None
    if items is not None:
        if form == 'dict-extra-keys':
            items += [('zzz', 1)] + ([('packet_length', 999)] if m != 'effective_throughput' else [('num_streams', 1)])
        if form == 'dict-reversed':
            items = items[::-1]
        if form == 'keyword':
            o.set_ext_int_handling_metric(metric_func_extra_args_dict=dict(items), metric=m)
        else:
            o.set_ext_int_handling_metric(m, dict(items))
    elif m == 'capacity':
        o.set_ext_int_handling_metric(metric=m) if form == 'keyword' else o.set_ext_int_handling_metric(m)
    else:
        arg = None if case.get('none_obj') else 'None'
        o.set_ext_int_handling_metric(metric=arg, metric_func_extra_args_dict=None) if form == 'keyword' else \
            o.set_ext_int_handling_metric(arg)


def init_channel(ch, case):
    K, N = case['K'], case['N']
    rb = case.get('rb', {})
    nr = np.ones(K, dtype=rb.get('Nr', int)) * N
    nr = nr.astype(rb.get('Nr', int))
    src = case['src']
    full = arr_arg(case, np.hstack([dec(case['H']), dec(case['E'])]))
    nte = src[0] if len(src) == 1 else list(src)
    form = rb.get('NtE')
    if form == 'tuple':
        nte = tuple(src)
    elif form == 'ndarray':
        nte = np.array(src)
    elif form == 'ndarray-uint8':
        nte = np.array(src, dtype=np.uint8)
    elif form == 'list-mixed':
        nte = [np.int16(x) if i % 2 else int(x) for i, x in enumerate(src)]
    elif form == 'numpy-int' and len(src) == 1:
        nte = np.int_(src[0])
    nt = nr.copy() if rb.get('Nt') is None else nr.astype(rb['Nt'])
    ch.init_from_channel_matrix(full, nr, nt, K, nte)
    ch.noise_var = typed(case, 'nv', case['nv']) if case.get('ch_nv', 'set') == 'set' else None


def make_channel(case):
    if id(case) in _LIVE and _LIVE[id(case)].get('channel') is not None:
        return _LIVE[id(case)].pop('channel')
    _, MU, _ = _impl()
    ch = MU()
    init_channel(ch, case)
    return ch


def make_modulator(spec):
    _, _, f = _impl()
    kind, M = spec
    return {'PSK': lambda: f.PSK(M), 'QAM': lambda: f.QAM(M), 'BPSK': lambda: f.BPSK()}[kind]()


def fresh_solver(case):
    bd, _, _ = _impl()
    rb = case.get('rb', {})
    K = typed(case, 'K', case['K'])
    ipu, nv = typed(case, 'iPu', case['iPu']), typed(case, 'nv', case['nv'])
    cls = {'bd': bd.BlockDiagonalizer, 'white': bd.WhiteningBD, 'enh': bd.EnhancedBD}[case['variant']]
    kw = {'num_users': K, 'iPu': ipu, 'noise_var': nv}
    if case['variant'] != 'bd':
        kw['pe'] = typed(case, 'pe', case['pe'])
    ctor = rb.get('ctor')                         # R8: constructor path vs keyword path vs later replacement
    if ctor == 'keywords':
        o = cls(**dict(reversed(list(kw.items()))))
    elif ctor == 'attributes':
        o = cls(*[v * 2 + 1 if k != 'num_users' else v for k, v in kw.items()])
        for k, v in kw.items():
            setattr(o, k, v)
    else:
        o = cls(*kw.values())
    if case['variant'] == 'enh':
        apply_metric(o, case)
    derive = rb.get('derive')                     # R13: a copy / pickle of the configured object
    if derive:
        parent = o
        o = {'copy': copy.copy, 'deepcopy': copy.deepcopy, 'pickle': lambda x: pickle.loads(pickle.dumps(x))}[derive](parent)
        parent.iPu = ipu * 7 + 3                   # the parent goes its own way afterwards
        if case['variant'] == 'enh':
            parent.set_ext_int_handling_metric('capacity')
    return o


def make_solver(case):
    """the solver the case is run on: a fresh one, or (with `history`) a long-lived one that has already
    served other channels / configurations; the channel object of the history is handed out by make_channel"""
    hist = case.get('history')
    _BUF.clear()
    if not hist:
        return fresh_solver(case)
    bd, MU, _ = _impl()
    first = dict(case)
    first.update(hist[0])
    first.pop('history', None)
    o = fresh_solver(first)
    ch = MU() if case['variant'] != 'bd' else None
    for step in hist:
        st = dict(case)
        st.update(step)
        st.pop('history', None)
        o.iPu, o.noise_var = st['iPu'], st['nv']
        if case['variant'] != 'bd':
            o.pe = st['pe']
            if case['variant'] == 'enh':
                apply_metric(o, st)
            if step.get('how') == 'randomize':
                ch.set_channel_seed(step['seed'])
                ch.randomize(st['N'], st['N'], st['K'], sum(st['src']))
                ch.noise_var = st['nv']
            else:
                init_channel(ch, st)
            if step.get('pathloss'):
                pl = np.array(step['pathloss'], dtype=float)
                ch.set_pathloss(pl[:, :st['K']], pl[:, st['K']:])
            o.block_diagonalize_no_waterfilling(ch)
            if step.get('pathloss'):
                ch.set_pathloss(None)
        else:
            arg = arr_arg(st, dec(st['H']))
            (o.block_diagonalize if step.get('wf', True) else o.block_diagonalize_no_waterfilling)(
                reuse_buffer(arg) if case.get('reuse_buffer') else arg)
    # now the configuration of the case itself, on the same objects
    o.iPu, o.noise_var = typed(case, 'iPu', case['iPu']), typed(case, 'nv', case['nv'])
    if case['variant'] != 'bd':
        o.pe = typed(case, 'pe', case['pe'])
        if case['variant'] == 'enh':
            apply_metric(o, case)
        init_channel(ch, case)
        _LIVE[id(case)] = {'channel': ch}
    return o


def blk(a, k, N, axis):
    return a[k * N:(k + 1) * N, :] if axis == 0 else a[:, k * N:(k + 1) * N]


# ------------------------------------------------------------------ oracles
def nrm(a):
    return float(np.sqrt(np.sum(np.abs(a) ** 2)))


def tol_scale(h):
    """forward-error scale of quantities that go through the null space / inverse of the channel"""
    return max(1.0, float(np.linalg.cond(h)))


def size_class(case):
    return 'K%d:N%d' % (case['K'], case['N'])


def check_offdiag(h, ms_blocks, N, what):
    """no user receives another user's streams: H_j . M_k = 0 for j != k, computed from the case's channel"""
    K = len(ms_blocks)
    c = tol_scale(h)
    for k in range(K):
        for j in range(K):
            if j == k:
                continue
            b = blk(h, j, N, 0) @ ms_blocks[k]
            lim = 1e-9 * c * nrm(blk(h, j, N, 0)) * nrm(ms_blocks[k]) + 1e-300
            if not np.abs(b).max() <= lim:
                own = nrm(blk(h, k, N, 0) @ ms_blocks[k])
                return ('interference:' + what, 'user %d receives the streams of user %d: |H_j M_k|max=%.3e (limit %.3e); '
                        'leaked / own energy = %.3e' % (j, k, float(np.abs(b).max()), lim,
                                                        (nrm(b) / max(own, 1e-300)) ** 2))
    return None


def o_bd_wf(case):
    bd, _, _ = _impl()
    K, N, ipu = case['K'], case['N'], case['iPu']
    h = dec(case['H'])
    o = make_solver(case)
    new_h, ms = o.block_diagonalize(h_arg(case))
    if ms.shape != (K * N, K * N) or new_h.shape != (K * N, K * N):
        return ('shape:wf', 'Ms %s newH %s' % (ms.shape, new_h.shape))
    if not (np.all(np.isfinite(ms)) and np.all(np.isfinite(new_h))):
        return ('non-finite:wf', 'Ms / newH contain inf or nan')
    nh_f, ms_f = bd.block_diagonalize(h_arg(case), typed(case, 'K', K), typed(case, 'iPu', ipu),
                                      typed(case, 'nv', case['nv']))     # the module-level entry point
    if not (np.array_equal(nh_f, new_h) and np.array_equal(ms_f, ms)
            and np.array_equal(bd.calc_receive_filter(new_h), o.calc_receive_filter(new_h))):
        return ('module-function-differs:wf', 'block_diagonalize(...) != BlockDiagonalizer(...).block_diagonalize(...)')
    blocks = [blk(ms, k, N, 1) for k in range(K)]
    r = check_offdiag(h, blocks, N, 'wf')
    if r:
        return r
    eff = h @ ms
    if not np.abs(new_h - eff).max() <= 1e-9 * (np.abs(h) @ np.abs(ms)).max():
        return ('newH-not-H.Ms:wf', 'max |newH - H Ms| = %.3e' % float(np.abs(new_h - eff).max()))
    pw = np.array([nrm(b) ** 2 for b in blocks])
    if not np.all(pw <= ipu * (1 + 1e-9)):
        return ('power-exceeded:wf', 'block powers %s > iPu %r' % (pw.tolist(), ipu))
    if not pw.max() >= ipu * (1 - 1e-9):
        return ('power-not-reached:wf', 'block powers %s, iPu %r' % (pw.tolist(), ipu))
    # receive filter against the power mask
    colp = np.sum(np.abs(ms) ** 2, axis=0)
    mask = (colp > 0).astype(float)
    sv = np.linalg.svd(eff, compute_uv=False)
    nz = int(mask.sum())
    if nz == 0:
        return ('no-stream-powered:wf', 'all columns of Ms are zero')
    cond_eff = sv[0] / sv[nz - 1]
    if cond_eff <= 1e6:       # (a powered stream at the rcond threshold of pinv is a near tie: not compared)
        w = bd.calc_receive_filter(new_h)
        d = w @ eff
        if not np.abs(d - np.diag(mask)).max() <= 1e-9 * cond_eff * K * N:
            return ('rx-not-inverse:wf', 'max |W H Ms - diag(mask)| = %.3e, %d of %d streams powered'
                    % (float(np.abs(d - np.diag(mask)).max()), nz, K * N))
    return None


def o_bd_nowf(case):
    bd, _, _ = _impl()
    K, N, ipu = case['K'], case['N'], case['iPu']
    h = dec(case['H'])
    o = make_solver(case)
    new_h, ms = o.block_diagonalize_no_waterfilling(h_arg(case))
    if ms.shape != (K * N, K * N) or new_h.shape != (K * N, K * N):
        return ('shape:nowf', 'Ms %s newH %s' % (ms.shape, new_h.shape))
    if not (np.all(np.isfinite(ms)) and np.all(np.isfinite(new_h))):
        return ('non-finite:nowf', 'Ms / newH contain inf or nan')
    blocks = [blk(ms, k, N, 1) for k in range(K)]
    r = check_offdiag(h, blocks, N, 'nowf')
    if r:
        return r
    eff = h @ ms
    if not np.abs(new_h - eff).max() <= 1e-9 * (np.abs(h) @ np.abs(ms)).max():
        return ('newH-not-H.Ms:nowf', 'max |newH - H Ms| = %.3e' % float(np.abs(new_h - eff).max()))
    pw = np.array([nrm(b) ** 2 for b in blocks])
    if not np.all(np.abs(pw - ipu) <= 1e-9 * ipu):
        return ('power-not-exact:nowf', 'block powers %s, iPu %r' % (pw.tolist(), ipu))
    w = bd.calc_receive_filter(new_h)
    d = w @ eff
    c = float(np.linalg.cond(eff))
    if not np.abs(d - np.eye(K * N)).max() <= 1e-9 * c * K * N:
        return ('rx-not-inverse:nowf', 'max |W H Ms - I| = %.3e' % float(np.abs(d - np.eye(K * N)).max()))
    return None


def ext_rank(e_k):
    return int(np.linalg.matrix_rank(e_k))


def o_ext(case):
    """WhiteningBD / EnhancedBD: interference null, exact power, stream counts, receive filter, ext. int. removal"""
    K, N, ipu = case['K'], case['N'], case['iPu']
    h = dec(case['H'])
    e = dec(case['E'])
    what = case['variant'] if case['variant'] == 'white' else 'enh-' + case['metric']
    o = make_solver(case)
    ch = make_channel(case)
    ms, wk, ns = o.block_diagonalize_no_waterfilling(ch)
    if not (len(ms) == K and len(wk) == K and len(ns) == K):
        return ('shape:' + what, 'lengths %d %d %d' % (len(ms), len(wk), len(ns)))
    for k in range(K):
        n = int(ns[k])
        if not (1 <= n <= N and ms[k].shape == (K * N, n) and wk[k].shape == (n, N)):
            return ('stream-count:' + what, 'user %d: Ns=%d precoder %s filter %s' % (k, n, ms[k].shape, wk[k].shape))
        if what in ('white', 'enh-None') and n != N:
            return ('stream-count:' + what, 'user %d: Ns=%d but no stream was to be sacrificed' % (k, n))
        if what in ('enh-naive', 'enh-fixed') and n != case['ns']:
            return ('stream-count:' + what, 'user %d: Ns=%d but num_streams=%d' % (k, n, case['ns']))
    if not all(np.all(np.isfinite(ms[k])) and np.all(np.isfinite(wk[k])) for k in range(K)):
        return ('non-finite:' + what, 'precoders / filters contain inf or nan')
    r = check_offdiag(h, list(ms), N, what)
    if r:
        return r
    pw = np.array([nrm(m) ** 2 for m in ms])
    if not np.all(np.abs(pw - ipu) <= 1e-9 * ipu):
        return ('power-not-exact:' + what, 'user powers %s, iPu %r' % (pw.tolist(), ipu))
    for k in range(K):
        n = int(ns[k])
        heq = blk(h, k, N, 0) @ ms[k]
        d = wk[k] @ heq
        sv = np.linalg.svd(heq, compute_uv=False)
        c = float(sv[0] / sv[-1]) * max(1.0, nrm(wk[k]) * nrm(heq))
        if what == 'white':     # the filter is computed on the whitened channel: conditioning of the whitening enters
            e_k0 = blk(e, k, N, 0)
            c *= math.sqrt(float(np.linalg.cond(case['pe'] * e_k0 @ Hm(e_k0) + case['nv'] * np.eye(N))))
        if c <= 1e7 and not np.abs(d - np.eye(n)).max() <= 1e-9 * c * N:
            return ('rx-not-inverse:' + what, 'user %d: max |W_k H_k M_k - I| = %.3e' % (k, float(np.abs(d - np.eye(n)).max())))
        if what in ('enh-fixed', 'enh-capacity', 'enh-effective_throughput') and n < N:
            e_k = blk(e, k, N, 0)
            if n <= N - ext_rank(e_k) and case['pe'] * nrm(e_k) ** 2 >= 1e-6 * case['nv']:
                leak = np.abs(wk[k] @ e_k).max()
                gap = case['pe'] * np.linalg.svd(e_k, compute_uv=False)[ext_rank(e_k) - 1] ** 2 / case['nv']
                sv_e = np.linalg.svd(e_k, compute_uv=False)
                cond_e = float(sv_e[0] / sv_e[ext_rank(e_k) - 1])
                # accuracy of the noise eigenspace LAPACK returns: eps.|Re| / (eigenvalue gap pe.smin(E)^2)
                lim = (1e-9 * nrm(wk[k]) * nrm(e_k) * max(1.0, 1.0 / gap) * max(1.0, cond_e ** 2)
                       * max(1.0, float(np.linalg.cond(heq))))
                if not leak <= lim:
                    return ('ext-int-not-removed:' + what,
                            'user %d keeps %d of %d streams (interference rank %d): |W_k E_k|max = %.3e (limit %.3e)'
                            % (k, n, N, ext_rank(e_k), float(leak), lim))
    return None


def o_scale_covariance(case):
    """H -> c.H (c != 0) leaves the precoder directions and powers unchanged: per transmitter block the Gram
    matrix M_k M_k^H is the same (without water-filling always; with water-filling when the noise follows
    with c^2), and the effective channel is c times the old one up to the basis of the streams"""
    bd, _, _ = _impl()
    K, N, ipu, nv = case['K'], case['N'], case['iPu'], case['nv']
    h = dec(case['H'])
    c = case['cov_scale']
    o = make_solver(case)
    o2 = bd.BlockDiagonalizer(K, ipu, nv * c * c)
    tol = 1e-9 * tol_scale(h) * ipu * K * N
    for what, a, b in (('nowf', o.block_diagonalize_no_waterfilling(h), o.block_diagonalize_no_waterfilling(h * c)),
                       ('wf', o.block_diagonalize(h), o2.block_diagonalize(h * c))):
        (nh1, ms1), (nh2, ms2) = a, b
        if ms1.shape != ms2.shape or not (np.all(np.isfinite(ms2)) and np.all(np.isfinite(nh2))):
            return ('scale-covariance:' + what, 'scaled channel (x%g): Ms %s vs %s' % (c, ms1.shape, ms2.shape))
        for k in range(K):
            g1 = blk(ms1, k, N, 1) @ Hm(blk(ms1, k, N, 1))
            g2 = blk(ms2, k, N, 1) @ Hm(blk(ms2, k, N, 1))
            if not np.abs(g1 - g2).max() <= tol:
                return ('scale-covariance:' + what, 'channel x%g: transmitter %d changes its precoder subspace / power: '
                        '|M M^H - M\' M\'^H|max = %.3e (limit %.3e)' % (c, k, float(np.abs(g1 - g2).max()), tol))
            e1 = blk(nh1, k, N, 0) @ Hm(blk(nh1, k, N, 0)) * abs(c) ** 2
            e2 = blk(nh2, k, N, 0) @ Hm(blk(nh2, k, N, 0))
            ref = max((abs(c) * nrm(nh1)) ** 2, 1e-300)     # relative to the whole effective channel (a user whose
            lim = 1e-9 * tol_scale(h) * K * N * ref          # streams all got zero power has a zero block)
            if not np.abs(e1 - e2).max() <= lim:
                return ('scale-covariance:' + what, 'channel x%g: effective channel of user %d is not c times the old one: '
                        'relative %.3e' % (c, k, float(np.abs(e1 - e2).max() / ref)))
    return None


def o_bd(case):
    return o_bd_wf(case) or o_bd_nowf(case)


# ================================================================ robustness classes R1 - R7
def run_case(case, which=None):
    """outputs of the method the case addresses, as a list of arrays (on the case's own solver / channel objects)"""
    o = make_solver(case)
    if case['variant'] == 'bd':
        fn = o.block_diagonalize if (which or case.get('method', 'wf')) == 'wf' else o.block_diagonalize_no_waterfilling
        h = h_arg(case)
        new_h, ms = fn(reuse_buffer(h) if case.get('reuse_buffer') and case.get('history') else h)
        return [new_h, ms], o, None
    ch = make_channel(case)
    ms, wk, ns = o.block_diagonalize_no_waterfilling(ch)
    return list(ms) + list(wk) + [np.asarray(ns)], o, ch


def plain_twin(case):
    t = {k: v for k, v in case.items() if k not in ('rb', 'history')}
    return t


def rb_prefix(case):
    f = set(case.get('rb', {}))
    if f <= {'layout'}:
        return 'R2'
    if f & {'ctor', 'mform'}:
        return 'R12' if case['rb'].get('mform') == 'dict-reversed' else 'R8'
    if f & {'derive'}:
        return 'R13'
    if f & {'NtE', 'Nt'}:
        return 'R10'
    return 'R1'


def rb_class(case):
    rb = case.get('rb', {})
    return ','.join('%s=%s' % (k, rb[k]) for k in sorted(rb)) or 'plain'


def variant_tag(case):
    return case['variant'] + ('-' + case['metric'] if 'metric' in case else '') + \
        (':' + case.get('method', 'wf') if case['variant'] == 'bd' else '')


def narrow_array(case):
    return case.get('rb', {}).get('H') in ('float32', 'complex64')


def o_twin(case):
    """R1 / R2: the same VALUES in another element type / memory layout give the same result as the
    float64 / complex128 C-contiguous twin, in a dtype that does not truncate"""
    cls = rb_prefix(case) + ':' + rb_class(case) + ':' + variant_tag(case)
    try:
        got, _, _ = run_case(case)
    except Exception as e:
        return (cls + ':exception:' + type(e).__name__, repr(e)[:300])
    ref, _, _ = run_case(plain_twin(case))
    rtol = 1e-4 if narrow_array(case) else 1e-9
    scale = max(nrm(x) for x in ref[:-1]) if case['variant'] != 'bd' else None
    for i, (a, b) in enumerate(zip(got, ref)):
        a, b = np.asarray(a), np.asarray(b)
        if a.shape != b.shape:
            return (cls + ':shape', 'output %d: %s, twin %s' % (i, a.shape, b.shape))
        if b.dtype.kind in 'fc' and (a.dtype.kind not in 'fc' or a.dtype.itemsize < b.dtype.itemsize and not narrow_array(case)):
            return (cls + ':dtype', 'output %d has dtype %s, twin %s' % (i, a.dtype, b.dtype))
        if not np.all(np.isfinite(a)):
            return (cls + ':non-finite', 'output %d' % i)
        ref_n = max(nrm(b), 1e-300) if scale is None else max(nrm(b), 1e-300)
        if not np.abs(a - b).max() <= rtol * ref_n * tol_scale(dec(case['H'])):
            return (cls + ':differs', 'output %d differs from the float64 twin by %.3e (relative to its norm %.3e)'
                    % (i, float(np.abs(a - b).max()), float(np.abs(a - b).max() / ref_n)))
    return None


def snapshot_channel(ch):
    return {'big_H': np.array(ch.big_H, copy=True), 'Nr': np.array(ch.Nr, copy=True), 'Nt': np.array(ch.Nt, copy=True),
            '_Nr': np.array(ch._Nr, copy=True), '_Nt': np.array(ch._Nt, copy=True), 'K': int(ch.K),
            'noise_var': ch.noise_var, 'extIntK': int(ch.extIntK),
            'pathloss': None if ch.pathloss is None else np.array(ch.pathloss, copy=True)}


def same_snapshot(a, b):
    for k in a:
        x, y = a[k], b[k]
        if isinstance(x, np.ndarray) or isinstance(y, np.ndarray):
            if x is None or y is None or not (np.asarray(x).shape == np.asarray(y).shape and np.array_equal(x, y)):
                return k
        elif x != y:
            return k
    return None


def solver_state(o):
    st = {'num_users': o.num_users, 'iPu': o.iPu, 'noise_var': o.noise_var, 'pe': getattr(o, 'pe', None)}
    if hasattr(o, '_metric_func_name'):
        st['metric_name'] = o.metric_name
        st['metric_func'] = getattr(o._metric_func, '__name__', None)
        st['extra_args'] = sorted((k, v if isinstance(v, (int, float, np.integer)) else type(v).__name__)
                                  for k, v in o._metric_func_extra_args.items())
    return st


def o_immutable(case):
    """R3: inputs are not modified, outputs do not alias inputs / internal buffers, earlier outputs survive
    later calls"""
    cls = 'R3:' + variant_tag(case)
    o = make_solver(case)
    if case['variant'] == 'bd':
        h_in = h_arg(case)
        h_copy = np.array(h_in, copy=True)
        outs = []
        for fn in (o.block_diagonalize, o.block_diagonalize_no_waterfilling):
            res = fn(h_in)
            if not np.array_equal(h_in, h_copy):
                return (cls + ':input-modified', fn.__name__ + ' changed the channel matrix it was given')
            for a in res:
                if np.shares_memory(a, h_in):
                    return (cls + ':output-aliases-input', fn.__name__)
            outs.append((res, [np.array(a, copy=True) for a in res]))
        w = o.calc_receive_filter(outs[0][0][0])
        if np.shares_memory(w, outs[0][0][0]) or not np.array_equal(outs[0][0][0], outs[0][1][0]):
            return (cls + ':receive-filter-aliases-or-modifies-newH', '')
        other = np.array(h_copy[::-1, :], copy=True)     # a later call on another channel
        o.block_diagonalize(other)
        o.block_diagonalize_no_waterfilling(other)
        for res, snap in outs:
            for a, b in zip(res, snap):
                if not np.array_equal(a, b):
                    return (cls + ':earlier-output-changed', 'an array returned earlier changed after a later call')
        return None
    ch = make_channel(case)
    before = snapshot_channel(ch)
    st_before = solver_state(o)
    ms, wk, ns = o.block_diagonalize_no_waterfilling(ch)
    k = same_snapshot(before, snapshot_channel(ch))
    if k is not None:
        return (cls + ':channel-modified:' + k, 'the call changed `%s` of the channel object' % k)
    if solver_state(o) != st_before:
        return (cls + ':solver-modified', '%s -> %s' % (st_before, solver_state(o)))
    internal = [('big_H', ch.big_H), ('_Nr', ch._Nr), ('_Nt', ch._Nt), ('_H', ch._big_H_no_pathloss)]
    for name, arr in [('Ns', ns)] + [('Ms[%d]' % i, m) for i, m in enumerate(ms)] + [('W[%d]' % i, m) for i, m in enumerate(wk)]:
        for iname, iarr in internal:
            if iarr is not None and np.shares_memory(np.asarray(arr), iarr):
                return (cls + ':output-aliases-channel:' + name.split('[')[0] + ':' + iname,
                        'returned %s shares memory with the channel object\'s %s' % (name, iname))
    snap = [np.array(a, copy=True) for a in list(ms) + list(wk) + [np.asarray(ns)]]
    # writing into the returned stream counts must not reach the channel object
    ns_arr = np.asarray(ns)
    if ns_arr.flags.writeable:
        old = ns_arr.copy()
        ns_arr[...] = 0
        k = same_snapshot(before, snapshot_channel(ch))
        ns_arr[...] = old
        if k is not None:
            return (cls + ':output-aliases-channel:Ns:' + k, 'writing into the returned Ns changed the channel object')
    # later calls (same objects, new realisation and another solver on the same channel)
    case2 = dict(case)
    case2['H'] = enc(dec(case['H'])[::-1, :].copy())
    init_channel(ch, case2)
    o.block_diagonalize_no_waterfilling(ch)
    for a, b in zip(list(ms) + list(wk) + [np.asarray(ns)], snap):
        if not np.array_equal(np.asarray(a), b):
            return (cls + ':earlier-output-changed', 'an array returned earlier changed after a later call')
    return None


METRIC_OPS = [
    ('None', None), ('None-obj', None), ('capacity', None), ('naive', 2), ('naive', 1), ('fixed', 1), ('fixed', 2),
    ('effective_throughput', 'ok'),
    # rejected requests
    ('naive', 'missing'), ('fixed', 'missing'), ('effective_throughput', 'no-modulator'),
    ('effective_throughput', 'no-length'), ('effective_throughput', 'missing'), ('bogus', None), ('CAPACITY', None),
]


def do_metric_op(o, op):
    """returns the exception type name (or None)"""
    name, arg = op
    try:
        if name == 'None-obj':
            o.set_ext_int_handling_metric(None)
        elif arg == 'missing':
            o.set_ext_int_handling_metric(name) if name != 'fixed' else o.set_ext_int_handling_metric(name, {})
        elif name in ('naive', 'fixed'):
            d = {'num_streams': arg, 'comment': 'caller data'}
            o.set_ext_int_handling_metric(name, d)
            d['num_streams'] = arg + 1          # the caller goes on using its dictionary (R3: no aliasing of inputs)
            d['packet_length'] = 7
        elif name == 'effective_throughput':
            d = {'modulator': make_modulator(['PSK', 4]), 'packet_length': 120}
            if arg == 'no-modulator':
                del d['modulator']
            if arg == 'no-length':
                del d['packet_length']
            o.set_ext_int_handling_metric(name, d)
        else:
            o.set_ext_int_handling_metric(name)
    except Exception as e:
        return type(e).__name__
    return None


def op_is_valid(op):
    name, arg = op
    return name in ('None', 'None-obj', 'capacity') or (name in ('naive', 'fixed') and isinstance(arg, int)) or \
        (name == 'effective_throughput' and arg == 'ok')


def o_rejected(case):
    """R4: a rejected call leaves the solver exactly as it was, and the rest of the history behaves as on an
    object that never saw the rejected call"""
    bd, _, _ = _impl()
    K, N = case['K'], case['N']
    ops = [tuple(x) for x in case['ops']]
    o = bd.EnhancedBD(K, case['iPu'], case['nv'], case['pe'])
    clean = bd.EnhancedBD(K, case['iPu'], case['nv'], case['pe'])
    ch = make_channel(case)
    for i, op in enumerate(ops):
        before = solver_state(o)
        err = do_metric_op(o, op)
        valid = op_is_valid(op)
        tag = '%s/%s' % (op[0], op[1])
        if valid and err is not None:
            return ('R4:valid-request-rejected:' + tag, err)
        if valid and op[0] in ('naive', 'fixed') and dict(solver_state(o)['extra_args']).get('num_streams') != op[1]:
            return ('R3:metric-arguments-alias-caller-dict:' + op[0],
                    'num_streams requested %r, object now uses %r after the caller changed ITS dictionary'
                    % (op[1], dict(solver_state(o)['extra_args']).get('num_streams')))
        if not valid:
            if err is None:
                return ('R4:invalid-request-accepted:' + tag, 'no exception')
            if solver_state(o) != before:
                return ('R4:rejected-call-changed-state:set_ext_int_handling_metric:' + tag,
                        'state before %s, after the rejected call %s' % (before, solver_state(o)))
        else:
            do_metric_op(clean, op)
        # a rejected block diagonalisation (rows not a multiple of the users / wrong object) in between
        if i % 3 == 1:
            before = solver_state(o)
            try:
                bd.BlockDiagonalizer.block_diagonalize_no_waterfilling(o, np.ones((K * N + 1, K * N)))
                return ('R4:invalid-request-accepted:channel-rows-not-multiple-of-users', 'no exception')
            except Exception:
                pass
            if solver_state(o) != before:
                return ('R4:rejected-call-changed-state:block_diagonalize', '')
        try:
            a = o.block_diagonalize_no_waterfilling(ch)
        except Exception as e:
            return ('R4:history-raises-after:' + tag, 'after ops %s: %r' % (ops[:i + 1], e))
        b = clean.block_diagonalize_no_waterfilling(ch)
        for x, y in zip(list(a[0]) + list(a[1]) + [a[2]], list(b[0]) + list(b[1]) + [b[2]]):
            if np.asarray(x).shape != np.asarray(y).shape or not np.array_equal(np.asarray(x), np.asarray(y)):
                return ('R4:history-differs-from-clean-object-after:' + tag,
                        'after ops %s the object does not behave like one that saw only the accepted requests' % (ops[:i + 1],))
    return None


def o_boundary(case):
    """R5: degenerate parameter values where the property still says what must come out"""
    bd, _, _ = _impl()
    what = case['boundary']
    K, N = case['K'], case['N']
    h = dec(case['H'])
    if what == 'iPu=0':
        o = bd.BlockDiagonalizer(K, case['zero'], case['nv'])
        for name, fn in (('wf', o.block_diagonalize), ('nowf', o.block_diagonalize_no_waterfilling)):
            try:
                with np.errstate(all='ignore'):
                    new_h, ms = fn(h)
            except Exception as e:
                return ('R5:iPu=0:%s:exception:%s' % (name, type(e).__name__), repr(e)[:200])
            if not (np.all(np.isfinite(ms)) and np.all(np.isfinite(new_h))):
                return ('R5:iPu=0:%s:non-finite' % name, 'zero power must give the zero precoder, got nan / inf')
            if np.abs(ms).max() != 0 or np.abs(new_h).max() != 0:
                return ('R5:iPu=0:%s:power-exceeded' % name, 'max |Ms| = %.3e' % float(np.abs(ms).max()))
        return None
    if what == 'K=1':
        o = bd.BlockDiagonalizer(1, case['iPu'], case['nv'])
        hk = h[:N, :N]
        for name, fn in (('wf', o.block_diagonalize), ('nowf', o.block_diagonalize_no_waterfilling)):
            try:
                new_h, ms = fn(hk)
            except Exception as e:
                return ('R5:K=1:%s:exception:%s' % (name, type(e).__name__), repr(e)[:200])
            p = nrm(ms) ** 2
            if not abs(p - case['iPu']) <= 1e-9 * case['iPu']:
                return ('R5:K=1:%s:power' % name, 'power %r, iPu %r' % (p, case['iPu']))
            if not np.abs(new_h - hk @ ms).max() <= 1e-9 * (np.abs(hk) @ np.abs(ms)).max():
                return ('R5:K=1:%s:newH' % name, '')
        return None
    if what == 'noise-changed':
        # the noise variance attribute changed to 0.0 / back on a long-lived object
        o = bd.BlockDiagonalizer(K, case['iPu'], case['nv'])
        first = o.block_diagonalize(h)
        o.noise_var = case['zero']
        r0 = o.block_diagonalize(h)
        f0 = bd.BlockDiagonalizer(K, case['iPu'], case['zero']).block_diagonalize(h)
        o.noise_var = case['nv']
        again = o.block_diagonalize(h)
        if not all(np.all(np.isfinite(x)) for x in r0):
            return ('R5:noise_var=0:non-finite', '')
        if not (np.array_equal(r0[1], f0[1]) and np.array_equal(again[1], first[1])):
            return ('R5:noise_var=0:differs-from-fresh-object', '')
        pw = np.array([nrm(blk(r0[1], k, N, 1)) ** 2 for k in range(K)])
        if not (np.all(pw <= case['iPu'] * (1 + 1e-9)) and pw.max() >= case['iPu'] * (1 - 1e-9)):
            return ('R5:noise_var=0:power', '%s' % pw.tolist())
        return check_offdiag(h, [blk(r0[1], k, N, 1) for k in range(K)], N, 'R5:noise_var=0')
    raise ValueError(what)


def o_shared(case):
    """R7: one channel object used by several long-lived solvers, re-randomised between calls, in any order;
    every result equals the one of fresh objects with the current configuration and satisfies the property"""
    bd, MU, _ = _impl()
    K, N = case['K'], case['N']
    rs = np.random.RandomState(case['seed'])
    ch = MU()
    nvs = case.get('nv_solver', case['nv'])      # the solvers' own noise attribute differs from the channel's
    solvers = {'white': bd.WhiteningBD(K, case['iPu'], nvs, case['pe'])}
    for m in METRICS:
        o = bd.EnhancedBD(K, case['iPu'], nvs, case['pe'])
        o.set_ext_int_handling_metric(m, {'num_streams': case['ns'], 'modulator': make_modulator(case['mod']),
                                          'packet_length': case['plen']} if m != 'None' else None)
        solvers[m] = o
    src = case['src']
    nte = src[0] if len(src) == 1 else list(src)
    for step, (how, order) in enumerate(case['steps']):
        if how == 'randomize':
            ch.set_channel_seed(int(rs.randint(1 << 30)))
            ch.randomize(N, N, K, nte)
        elif how == 'init':
            full = (rs.randn(K * N, K * N + sum(src)) + 1j * rs.randn(K * N, K * N + sum(src))) * case.get('scale', 1.0)
            ch.init_from_channel_matrix(full, np.ones(K, dtype=int) * N, np.ones(K, dtype=int) * N, K, nte)
        elif how == 'pathloss':
            pl = 10.0 ** rs.uniform(-3, 0, size=(K, K + len(src)))
            ch.set_pathloss(pl[:, :K], pl[:, K:])
        elif how == 'pathloss-off':
            ch.set_pathloss(None)
        ch.noise_var = case['nv']
        h = np.array(ch.big_H_no_ext_int, copy=True)
        full_now = np.array(ch.big_H, copy=True)
        if np.linalg.cond(h) > 1e5:
            continue
        for name in order:
            o = solvers[name]
            tag = ('white' if name == 'white' else 'enh-' + name) + ':after-' + how
            if case.get('queries', True):      # R11: calls that are not setters, in between
                pick = int(rs.randint(7))
                st0, snap0 = solver_state(o), snapshot_channel(ch)
                try:
                    query_calls(o, ch, pick)
                except Exception as e:
                    return ('R11:query-raises:%d:%s' % (pick, type(e).__name__), 'step %d: %r' % (step, e))
                k = same_snapshot(snap0, snapshot_channel(ch))
                if solver_state(o) != st0 or k is not None:
                    return ('R11:query-mutates:%d' % pick, 'step %d: query group %d changed %s' % (step, pick, k or 'the solver'))
            try:
                ms, wk, ns = o.block_diagonalize_no_waterfilling(ch)
            except Exception as e:
                return ('R7:exception:%s:%s' % (type(e).__name__, tag), 'step %d: %r' % (step, e))
            if not np.array_equal(ch.big_H, full_now) or ch.noise_var != case['nv']:
                return ('R7:shared-channel-modified:' + tag, 'step %d' % step)
            r = check_offdiag(h, list(ms), N, 'R7:' + tag)
            if r:
                return (r[0], 'step %d (%s, solvers %s): %s' % (step, how, order, r[1]))
            pw = np.array([nrm(m) ** 2 for m in ms])
            if not np.all(np.abs(pw - case['iPu']) <= 1e-9 * case['iPu']):
                return ('R7:power-not-exact:' + tag, 'step %d: %s' % (step, pw.tolist()))
            # fresh objects with the current configuration
            fcase = dict(case)
            fcase.update({'variant': 'white' if name == 'white' else 'enh', 'metric': name, 'H': enc(h),
                          'E': enc(full_now[:, K * N:])})
            fcase.pop('history', None)
            fo = fresh_solver(fcase)
            fo.noise_var = nvs
            fch = MU()
            fch.init_from_channel_matrix(full_now, np.ones(K, dtype=int) * N, np.ones(K, dtype=int) * N, K, nte)
            fch.noise_var = case['nv']
            fms, fwk, fns = fo.block_diagonalize_no_waterfilling(fch)
            for x, y in zip(list(ms) + list(wk) + [np.asarray(ns)], list(fms) + list(fwk) + [np.asarray(fns)]):
                x, y = np.asarray(x), np.asarray(y)
                if x.shape != y.shape or not np.abs(x - y).max() <= 1e-9 * max(nrm(y), 1e-300) * tol_scale(h):
                    return ('R7:differs-from-fresh-objects:' + tag,
                            'step %d (%s, solvers %s): long-lived objects give another result than fresh ones' % (step, how, order))
    return None


def o_history_bd(case):
    """R7 for the plain BlockDiagonalizer: attribute changes and many channels on one object"""
    got, _, _ = run_case(case)
    ref, _, _ = run_case(plain_twin(case))
    for a, b in zip(got, ref):
        if a.shape != b.shape or not np.array_equal(a, b):
            return ('R7:differs-from-fresh-objects:' + variant_tag(case), 'after %d earlier calls' % len(case['history']))
    return None


# ================================================================ robustness classes R8 - R14
INDEX_TYPES = {
    'pyint': int, 'bool': bool, 'int8': np.int8, 'uint8': np.uint8, 'int16': np.int16, 'uint16': np.uint16,
    'int32': np.int32, 'uint32': np.uint32, 'int64': np.int64, 'uint64': np.uint64, 'intp': np.intp,
    '0d': lambda v: np.array(int(v)), '0d-uint16': lambda v: np.array(int(v), dtype=np.uint16),
}


def index_forms(v):
    """every integer form that can hold the value v"""
    out = []
    for name, f in INDEX_TYPES.items():
        if name == 'bool' and v > 1:
            continue
        if name in ('int8',) and v > 127 or name == 'uint8' and v > 255 or name == 'int16' and v > 32767 or \
                name in ('uint16', '0d-uint16') and v > 65535:
            continue
        out.append((name, f(v)))
    return out


def marker_matrix(K, N):
    """column c of row r holds r (and r + 0.5): the rows a slicing helper returns identify themselves"""
    r = np.arange(K * N, dtype=float)
    return np.stack([r, r + 0.5], axis=1)


def expected_rows(N, users):
    return [u * N + i for u in users for i in range(N)]


def o_index(case):
    """R9 / R14: `_get_sub_channel` / `_get_tilde_channel` select rows by the VALUE of the user index, for
    every integer form of the index and any number of users"""
    bd, _, _ = _impl()
    K, N = case['K'], case['N']
    o = bd.BlockDiagonalizer(typed(case, 'K', K), 1.0, 1.0)
    m = marker_matrix(K, N)
    size = 'K>256' if K > 256 else 'K<=256'
    for u in case['users']:
        forms = index_forms(u) if case.get('forms', True) else [('pyint', u)]
        for tname, uv in forms:
            tag = '%s:user%s:%s' % (size, '>=257' if u >= 257 else '<=256', tname)
            for what, fn, exp in (('_get_sub_channel', o._get_sub_channel, expected_rows(N, [u])),
                                  ('_get_tilde_channel', o._get_tilde_channel,
                                   expected_rows(N, [x for x in range(K) if x != u]))):
                try:
                    got = fn(m, uv)
                except Exception as e:
                    return ('R9:%s:exception:%s:%s' % (what, type(e).__name__, tag), 'user %r (%s): %r' % (u, tname, e))
                if got.shape != (len(exp), 2) or not np.array_equal(got[:, 0], np.array(exp, dtype=float)):
                    rows = got[:, 0].astype(int).tolist() if got.ndim == 2 else []
                    wrong = sorted(set(rows) ^ set(exp))[:6]
                    return ('R9:%s:wrong-rows:%s' % (what, tag),
                            'user %r (%s) of %d: %d rows instead of %d, differing rows %s' % (u, tname, K, len(rows), len(exp), wrong))
    # iterables of users (R10: elements of different integer types, list / tuple / ndarray / range)
    for coll in case.get('collections', []):
        users, kind = coll['users'], coll['kind']
        if kind == 'list-mixed':
            forms = [index_forms(u) for u in users]
            arg = [forms[i][(i * 5 + 3) % len(forms[i])][1] for i in range(len(users))]
        elif kind == 'tuple':
            arg = tuple(users)
        elif kind.startswith('ndarray:'):
            arg = np.array(users, dtype=kind.split(':')[1])
        elif kind == 'range':
            arg = range(users[0], users[-1] + 1, users[1] - users[0]) if len(users) > 1 else range(users[0], users[0] + 1)
            users = list(arg)
        else:
            arg = list(users)
        try:
            got = o._get_sub_channel(m, arg)
        except Exception as e:
            return ('R10:_get_sub_channel:exception:%s:%s:%s' % (type(e).__name__, kind, size), repr(e)[:200])
        exp = expected_rows(N, users)
        if got.shape != (len(exp), 2) or not np.array_equal(got[:, 0], np.array(exp, dtype=float)):
            return ('R10:_get_sub_channel:wrong-rows:%s:%s' % (kind, size), 'users %s' % (users[:8],))
    return None


def first_principles_ms_bad(h, K, N):
    """an orthonormal basis of the null space of every tilde channel WITHOUT any svd of it: the columns of
    inv(H) that belong to user k span it (H inv(H) = 1)"""
    hinv = np.linalg.inv(h)
    cols = []
    for k in range(K):
        q, _ = np.linalg.qr(hinv[:, k * N:(k + 1) * N])
        cols.append(q)
    return np.hstack(cols)


def large_property_checks(case, h, ms_blocks, what, exact_power=True):
    K, N, ipu = case['K'], case['N'], case['iPu']
    if len(ms_blocks) != K:
        return ('R14:shape:' + what, '%d precoder blocks for %d users' % (len(ms_blocks), K))
    for k, m in enumerate(ms_blocks):
        if m.shape[0] != K * N or m.ndim != 2 or m.shape[1] < 1 or m.shape[1] > N:
            return ('R14:shape:' + what, 'user %d: precoder block %s' % (k, m.shape))
    big = np.hstack(ms_blocks)
    if not np.all(np.isfinite(big)):
        return ('R14:non-finite:' + what, '')
    eff = h @ big
    own = 0.0
    leak = 0.0
    col = 0
    worst = (0.0, -1)
    for k, m in enumerate(ms_blocks):
        w = m.shape[1]
        blkc = eff[:, col:col + w]
        o_ = nrm(blkc[k * N:(k + 1) * N]) ** 2
        l_ = nrm(blkc) ** 2 - o_
        own += o_
        leak += max(l_, 0.0)
        if l_ / max(o_, 1e-300) > worst[0]:
            worst = (l_ / max(o_, 1e-300), k)
        col += w
    amp = 1e-9 * tol_scale(h)
    if what.endswith('white') and 'E' in case:      # null spaces computed on the whitened channel: its conditioning enters
        e = dec(case['E'])
        amp *= math.sqrt(1.0 + case['pe'] * max(nrm(blk(e, k, N, 0)) ** 2 for k in range(K)) / case['nv'])
    if not leak <= amp ** 2 * max(own, 1e-300) * K * N:
        return ('R14:interference:%s:user%s' % (what, '>=257' if worst[1] >= 257 else '<=256'),
                'K=%d N=%d: leaked / own energy = %.3e (worst: the streams of user %d, %.3e)' % (K, N, leak / max(own, 1e-300), worst[1], worst[0]))
    pw = np.array([nrm(m) ** 2 for m in ms_blocks])
    if exact_power:
        bad = np.where(np.abs(pw - ipu) > 1e-9 * ipu)[0]
        if bad.size:
            return ('R14:power-not-exact:%s:user%s' % (what, '>=257' if bad[0] >= 257 else '<=256'),
                    'user %d has power %r, iPu %r' % (int(bad[0]), float(pw[bad[0]]), ipu))
    else:
        if not (np.all(pw <= ipu * (1 + 1e-9)) and pw.max() >= ipu * (1 - 1e-9)):
            return ('R14:power:' + what, 'max block power %r, iPu %r' % (float(pw.max()), ipu))
    return None


def o_large(case):
    """R14: the whole method for a large number of users (or of antennas per user)"""
    bd, _, _ = _impl()
    K, N = case['K'], case['N']
    h = dec(case['H'])
    what = variant_tag(case) if case['variant'] != 'bd' else 'bd:' + case['method']
    try:
        outs, o, ch = run_case(case)
    except Exception as e:
        return ('R14:exception:%s:%s' % (type(e).__name__, what), 'K=%d N=%d: %r' % (K, N, e))
    if case['variant'] == 'bd':
        new_h, ms = outs
        if ms.shape != (K * N, K * N) or new_h.shape != (K * N, K * N):
            return ('R14:shape:' + what, 'K=%d N=%d: Ms %s newH %s' % (K, N, ms.shape, new_h.shape))
        r = large_property_checks(case, h, [blk(ms, k, N, 1) for k in range(K)], what, exact_power=case['method'] == 'nowf')
        if r:
            return r
        if not np.abs(new_h - h @ ms).max() <= 1e-9 * (np.abs(h) @ np.abs(ms)).max():
            return ('R14:newH-not-H.Ms:' + what, '')
        return None
    ms, wk, ns = outs[:K], outs[K:2 * K], outs[2 * K]
    if len(outs) != 2 * K + 1 or len(ns) != K:
        return ('R14:shape:' + what, '%d outputs for %d users' % (len(outs), K))
    for k in range(K):
        if not (ms[k].shape[1] == int(ns[k]) == wk[k].shape[0]):
            return ('R14:stream-count:' + what, 'user %d' % k)
    r = large_property_checks(case, h, list(ms), what)
    if r:
        return r
    for k in list(range(0, K, max(1, K // 7))) + [K - 1]:
        d = wk[k] @ (blk(h, k, N, 0) @ ms[k])
        if not np.abs(d - np.eye(d.shape[0])).max() <= 1e-6:
            return ('R14:rx-not-inverse:%s:user%s' % (what, '>=257' if k >= 257 else '<=256'), 'user %d' % k)
    return None


def o_large_downstream(case):
    """R14: everything AFTER the null-space computation for many users: the null-space basis is supplied from
    first principles (columns of inv(H)), so the per-user loops of the power scaling, of the whitening and of the
    stream reduction run at K = 257 ... 300 at negligible cost"""
    bd, _, _ = _impl()
    K, N, ipu = case['K'], case['N'], case['iPu']
    h = dec(case['H'])
    ms_bad = first_principles_ms_bad(h, K, N)
    sv = []
    for k in range(K):
        sv.extend(np.linalg.svd(blk(h, k, N, 0) @ blk(ms_bad, k, N, 1), compute_uv=False)[::-1])
    sigma = np.array(sv)
    what = variant_tag(case) if case['variant'] != 'bd' else 'bd:' + case.get('method', 'wf')
    o = fresh_solver(case)
    o._calc_BD_matrix_no_power_scaling = lambda hh: (ms_bad.copy(), sigma.copy())
    try:
        if case['variant'] == 'bd':
            for meth, fn in (('wf', o.block_diagonalize), ('nowf', o.block_diagonalize_no_waterfilling)):
                new_h, ms = fn(h)
                if ms.shape != (K * N, K * N):
                    return ('R14:shape:downstream:bd:' + meth, '%s' % (ms.shape,))
                r = large_property_checks(case, h, [blk(ms, k, N, 1) for k in range(K)], 'downstream:bd:' + meth,
                                          exact_power=meth == 'nowf')
                if r:
                    return r
                if not np.abs(new_h - h @ ms).max() <= 1e-9 * (np.abs(h) @ np.abs(ms)).max():
                    return ('R14:newH-not-H.Ms:downstream:bd:' + meth, '')
            return None
        ch = make_channel(case)
        ms, wk, ns = o.block_diagonalize_no_waterfilling(ch)
    except Exception as e:
        return ('R14:exception:%s:downstream:%s' % (type(e).__name__, what), 'K=%d N=%d: %r' % (K, N, e))
    if not (len(ms) == K and len(wk) == K and len(ns) == K):
        return ('R14:shape:downstream:' + what, 'lengths %d %d %d for %d users' % (len(ms), len(wk), len(ns), K))
    r = large_property_checks(case, h, list(ms), 'downstream:' + what)
    if r:
        return r
    for k in range(K):
        if not (ms[k].shape[1] == int(ns[k]) == wk[k].shape[0]):
            return ('R14:stream-count:downstream:' + what, 'user %d: Ns=%s precoder %s filter %s' % (k, ns[k], ms[k].shape, wk[k].shape))
        d = wk[k] @ (blk(h, k, N, 0) @ ms[k])
        if not np.abs(d - np.eye(d.shape[0])).max() <= 1e-6:
            return ('R14:rx-not-inverse:downstream:%s:user%s' % (what, '>=257' if k >= 257 else '<=256'), 'user %d' % k)
    return None


def o_runs(case):
    """the library must not raise on an input the property covers"""
    try:
        if case['variant'] == 'bd':
            run_case(case, 'wf')
            run_case(case, 'nowf')
        else:
            run_case(case)
    except Exception as e:
        return ('exception:%s:%s%s%s' % (type(e).__name__, variant_tag(case), (':' + rb_class(case)) if case.get('rb') else '',
                                        ':long-lived' if case.get('history') else ''), repr(e)[:300])
    return None


def outputs_equal(a, b, tol=0.0, h=None):
    if len(a) != len(b):
        return 'different number of outputs'
    for i, (x, y) in enumerate(zip(a, b)):
        x, y = np.asarray(x), np.asarray(y)
        if x.shape != y.shape:
            return 'output %d: shape %s vs %s' % (i, x.shape, y.shape)
        if tol == 0.0:
            if not np.array_equal(x, y):
                return 'output %d differs (max %.3e)' % (i, float(np.abs(x - y).max()))
        elif not np.abs(x - y).max() <= tol * max(nrm(y), 1e-300):
            return 'output %d differs by %.3e (relative)' % (i, float(np.abs(x - y).max() / max(nrm(y), 1e-300)))
    return None


def flat(res):
    out = []
    for r in res:
        if isinstance(r, np.ndarray) and r.dtype == object:
            out.extend(list(r))
        else:
            out.append(np.asarray(r))
    return out


def o_forms(case):
    """R8: positional / keyword / default / explicit-default argument forms, constructor vs attribute path,
    documented equivalent entry points; R12: insertion order of the metric's argument dictionary"""
    bd, MU, _ = _impl()
    K, N, ipu, nv = case['K'], case['N'], case['iPu'], case['nv']
    h = dec(case['H'])
    if case['variant'] == 'bd':
        ref_o = bd.BlockDiagonalizer(K, ipu, nv)
        ref = {'wf': flat(ref_o.block_diagonalize(h)), 'nowf': flat(ref_o.block_diagonalize_no_waterfilling(h))}
        kw = bd.BlockDiagonalizer(noise_var=nv, iPu=ipu, num_users=K)
        attr = bd.BlockDiagonalizer(K, ipu * 3 + 1, nv * 2 + 1)     # configured later through its attributes
        attr.iPu, attr.noise_var = ipu, nv
        attr2 = bd.BlockDiagonalizer(K + 1, ipu, nv)
        attr2.num_users = K
        forms = {
            'constructor-keywords': lambda: (kw.block_diagonalize(h), kw.block_diagonalize_no_waterfilling(h)),
            'method-keyword': lambda: (ref_o.block_diagonalize(mtChannel=h), ref_o.block_diagonalize_no_waterfilling(mtChannel=h)),
            'attributes-replaced': lambda: (attr.block_diagonalize(h), attr.block_diagonalize_no_waterfilling(h)),
            'num_users-replaced': lambda: (attr2.block_diagonalize(h), attr2.block_diagonalize_no_waterfilling(h)),
            'module-function-positional': lambda: (bd.block_diagonalize(h, K, ipu, nv), None),
            'module-function-keywords': lambda: (bd.block_diagonalize(noise_var=nv, iPu=ipu, num_users=K, mtChannel=h), None),
        }
        for name, f in forms.items():
            try:
                a, b = f()
            except Exception as e:
                return ('R8:%s:exception:%s' % (name, type(e).__name__), repr(e)[:200])
            for meth, got in (('wf', a), ('nowf', b)):
                if got is None:
                    continue
                why = outputs_equal(flat(got), ref[meth])
                if why:
                    return ('R8:%s:differs:%s' % (name, meth), why)
        w_ref = np.linalg.pinv(ref['wf'][0])
        for name, f in (('module', lambda: bd.calc_receive_filter(ref['wf'][0])), ('module-keyword', lambda: bd.calc_receive_filter(newH=ref['wf'][0])),
                        ('static', lambda: bd.BlockDiagonalizer.calc_receive_filter(ref['wf'][0])),
                        ('instance-keyword', lambda: ref_o.calc_receive_filter(newH=ref['wf'][0]))):
            try:
                why = outputs_equal([f()], [w_ref])
            except Exception as e:
                return ('R8:calc_receive_filter:%s:exception:%s' % (name, type(e).__name__), repr(e)[:200])
            if why:
                return ('R8:calc_receive_filter:%s:differs' % name, why)
        return None
    pe = case['pe']
    cls = bd.WhiteningBD if case['variant'] == 'white' else bd.EnhancedBD
    metric = case.get('metric')

    def args_for(order=0, extra=False):
        if metric in ('naive', 'fixed'):
            items = [('num_streams', case['ns'])]
            if extra:
                items += [('packet_length', 999), ('zzz', 1)]
        elif metric == 'effective_throughput':
            items = [('modulator', make_modulator(case['mod'])), ('packet_length', case['plen'])]
            if extra:
                items += [('num_streams', 1)]
        else:
            return None
        if order:
            items = items[::-1]
        return dict(items)

    def configure(o, form):
        if cls is bd.WhiteningBD:
            return
        if metric == 'None':
            {'default': lambda: None, 'none-object': lambda: o.set_ext_int_handling_metric(None),
             'none-string': lambda: o.set_ext_int_handling_metric('None'),
             'keyword': lambda: o.set_ext_int_handling_metric(metric=None, metric_func_extra_args_dict=None),
             'empty-dict': lambda: o.set_ext_int_handling_metric('None', {}),
             'after-other-metric': lambda: (o.set_ext_int_handling_metric('capacity'), o.set_ext_int_handling_metric(None))}[form]()
        else:
            a = args_for(order=1 if form == 'dict-reversed' else 0, extra=form == 'dict-extra-keys')
            if form == 'keyword':
                o.set_ext_int_handling_metric(metric_func_extra_args_dict=a, metric=metric)
            elif form == 'after-other-metric':
                o.set_ext_int_handling_metric('naive', {'num_streams': 1})
                o.set_ext_int_handling_metric('effective_throughput', {'modulator': make_modulator(['BPSK', 2]), 'packet_length': 7})
                o.set_ext_int_handling_metric(metric, a)
            elif a is None:
                o.set_ext_int_handling_metric(metric) if form != 'explicit-none-args' else o.set_ext_int_handling_metric(metric, None)
            else:
                o.set_ext_int_handling_metric(metric, a)

    ch = make_channel(case)
    ref_o = cls(K, ipu, nv, pe)
    configure(ref_o, 'default' if metric == 'None' else 'positional')
    ref = flat(ref_o.block_diagonalize_no_waterfilling(ch))
    mforms = ['default', 'none-object', 'none-string', 'keyword', 'empty-dict', 'after-other-metric'] if metric == 'None' else \
        ['positional', 'keyword', 'dict-reversed', 'dict-extra-keys', 'after-other-metric', 'explicit-none-args']
    if cls is bd.WhiteningBD:
        mforms = ['positional']
    for cform in ('positional', 'keywords', 'attributes-replaced'):
        for mform in mforms:
            if cform == 'positional' and mform in ('default', 'positional'):
                continue
            try:
                if cform == 'keywords':
                    o = cls(pe=pe, noise_var=nv, iPu=ipu, num_users=K)
                elif cform == 'attributes-replaced':
                    o = cls(K, ipu * 2 + 1, nv * 3 + 1, pe * 5 + 1)
                    o.iPu, o.noise_var, o.pe = ipu, nv, pe
                else:
                    o = cls(K, ipu, nv, pe)
                configure(o, mform)
                got = flat(o.block_diagonalize_no_waterfilling(mu_channel=ch) if mform == 'keyword'
                           else o.block_diagonalize_no_waterfilling(ch))
            except Exception as e:
                return ('R8:%s:%s:exception:%s:%s' % (cform, mform, type(e).__name__, variant_tag(case)), repr(e)[:200])
            why = outputs_equal(got, ref)
            if why:
                cl = 'R12:metric-dict-order' if mform == 'dict-reversed' else 'R8:%s:%s' % (cform, mform)
                return ('%s:differs:%s' % (cl, variant_tag(case)), why)
    # documented equivalences
    if cls is bd.EnhancedBD and metric == 'None':
        plain = bd.BlockDiagonalizer(K, ipu, nv).block_diagonalize_no_waterfilling(np.array(ch.big_H_no_ext_int))
        why = outputs_equal([np.hstack(list(ref[:K]))], [plain[1]])
        if why:
            return ('R8:equivalent:EnhancedBD[None]-vs-BlockDiagonalizer', why)
        o = bd.EnhancedBD(K, ipu, nv, pe)
        o.set_ext_int_handling_metric('naive', {'num_streams': N})
        why = outputs_equal(flat(o.block_diagonalize_no_waterfilling(ch)), ref, tol=1e-9 * tol_scale(h))
        if why:
            return ('R8:equivalent:naive[num_streams=N]-vs-None', why)
    return None


def query_calls(o, ch, rng_int):
    """R11: calls that are not setters"""
    bd, _, _ = _impl()
    pick = rng_int % 7
    if pick == 0:
        repr(o), str(o), getattr(o, 'metric_name', None)
    elif pick == 1 and ch is not None:
        o.calc_whitening_matrices(ch)
    elif pick == 2 and ch is not None:
        ch.calc_cov_matrix_extint_plus_noise(o.pe)
        ch.calc_cov_matrix_extint_without_noise(pe=o.pe)
        ch.big_H_no_ext_int
    elif pick == 3 and ch is not None:
        h = np.array(ch.big_H_no_ext_int)
        o._get_sub_channel(h, 0)
        o._get_tilde_channel(h, o.num_users - 1)
        o.calc_receive_filter(h)
    elif pick == 4 and ch is not None:
        h = np.array(ch.big_H_no_ext_int)
        bd.BlockDiagonalizer.block_diagonalize(o, h)           # the inherited water-filling method
        o._calc_BD_matrix_no_power_scaling(h)
    elif pick == 5 and ch is not None:
        n = int(ch.Nr[0])
        p = np.eye(n)[:, :1]
        bd.EnhancedBD.calc_receive_filter_user_k(np.eye(n)[:, :1] + 0j, p)
        bd.EnhancedBD.calc_receive_filter_user_k(np.eye(n) + 0j)
        bd.EnhancedBD._calc_linear_SINRs(np.eye(n) + 0j, np.eye(n) + 0j, np.eye(n) + 0j)
    elif ch is not None:
        ch.get_Hk_without_ext_int(0)
        ch.K, ch.Nr, ch.Nt, ch.extIntK, ch.noise_var


def o_derived(case):
    """R13: copies / pickles of a configured solver behave like the original when they were taken and are
    independent of it afterwards (both directions)"""
    import copy
    import pickle
    bd, _, _ = _impl()
    o = fresh_solver(case)
    ch = make_channel(case) if case['variant'] != 'bd' else None
    h = dec(case['H'])

    def run(x):
        if case['variant'] == 'bd':
            return flat(x.block_diagonalize(h)) + flat(x.block_diagonalize_no_waterfilling(h))
        return flat(x.block_diagonalize_no_waterfilling(ch))

    ref = run(o)
    st = solver_state(o)
    for how, mk in (('copy', copy.copy), ('deepcopy', copy.deepcopy), ('pickle', lambda x: pickle.loads(pickle.dumps(x)))):
        tag = '%s:%s' % (how, variant_tag(case))
        try:
            child = mk(o)
            got = run(child)
        except Exception as e:
            return ('R13:%s:exception:%s' % (tag, type(e).__name__), repr(e)[:200])
        if solver_state(child) != st:
            return ('R13:%s:child-state-differs' % tag, '%s vs %s' % (solver_state(child), st))
        why = outputs_equal(got, ref)
        if why:
            return ('R13:%s:child-result-differs' % tag, why)
        # mutate the child: the parent must not notice
        child.iPu = case['iPu'] * 4 + 1
        child.noise_var = case['nv'] * 2 + 1
        if hasattr(child, 'set_ext_int_handling_metric'):
            child.set_ext_int_handling_metric('naive', {'num_streams': 1})
            child._metric_func_extra_args['num_streams'] = 1
        if solver_state(o) != st or outputs_equal(run(o), ref):
            return ('R13:%s:parent-changed-by-child' % tag, '%s vs %s' % (solver_state(o), st))
        # mutate the parent: an earlier child must not notice
        child2 = mk(o)
        o.iPu = case['iPu'] * 3 + 2
        if hasattr(o, 'set_ext_int_handling_metric'):
            o.set_ext_int_handling_metric('capacity')
        why = outputs_equal(run(child2), ref)
        o.iPu = case['iPu']
        if hasattr(o, 'set_ext_int_handling_metric'):
            apply_metric(o, case)
        if why or solver_state(child2) != st:
            return ('R13:%s:child-changed-by-parent' % tag, str(why))
    return None


ORACLES = {
    'robust.index': o_index,
    'robust.large': o_large,
    'robust.large-downstream': o_large_downstream,
    'robust.runs': o_runs,
    'robust.forms': o_forms,
    'robust.derived': o_derived,
    'robust.twin': o_twin,
    'robust.immutable': o_immutable,
    'robust.rejected': o_rejected,
    'robust.boundary': o_boundary,
    'robust.shared-channel': o_shared,
    'robust.history': o_history_bd,
    'BlockDiagonalizer.scale_covariance': o_scale_covariance,
    'BlockDiagonalizer.block_diagonalize': o_bd_wf,
    'BlockDiagonalizer.block_diagonalize_no_waterfilling': o_bd_nowf,
    'WhiteningBD.block_diagonalize_no_waterfilling': o_ext,
    'EnhancedBD.block_diagonalize_no_waterfilling': o_ext,
}


def calls_of(case):
    if case['variant'] == 'bd':
        return ['BlockDiagonalizer.block_diagonalize', 'BlockDiagonalizer.block_diagonalize_no_waterfilling'] + \
            (['BlockDiagonalizer.scale_covariance'] if 'cov_scale' in case else [])
    if case['variant'] == 'white':
        return ['WhiteningBD.block_diagonalize_no_waterfilling']
    return ['EnhancedBD.block_diagonalize_no_waterfilling']


def run_oracle(ctx, call, case, key=None, nontrivial=True):
    ctx.count((call, key if key is not None else core.hashlib.sha1(repr(case).encode()).hexdigest()), nontrivial)
    try:
        r = ORACLES[call](case)
    except Exception as e:  # an exception where the property promises a value
        r = ('exception:%s:%s%s%s' % (type(e).__name__, case['variant'] + ('-' + case['metric'] if 'metric' in case else ''),
                                      (':' + rb_class(case)) if case.get('rb') else '',
                                      ':long-lived' if case.get('history') else ''), repr(e)[:300])
    if r is not None:
        cls = r[0]
        if not call.startswith('robust.') and not cls.startswith('exception:'):
            if case.get('rb'):
                cls += ':' + rb_prefix(case) + ':' + rb_class(case)
            if case.get('history'):
                cls += ':R7:long-lived'
            if case.get('pe') == 0 and case['variant'] != 'bd':
                cls += ':R5:pe=0'
            if case.get('nv') == 0:
                cls += ':R5:noise_var=0'
        ctx.fail(call, cls, case, r[1])
        ctx.branch('oracle-fail:' + call)
    else:
        ctx.branch('oracle-ok:' + call)
    return r


def replay(ctx, rep):
    try:
        r = ORACLES[rep['call']](rep['case'])
    except Exception:
        return True
    return r is not None


# ------------------------------------------------------------ correspondence
class Lines:
    """driver request lines + the closures that judge the replies"""

    def __init__(self):
        self.lines = []
        self.judges = []

    def add(self, line, judge):
        self.lines.append(line)
        self.judges.append(judge)

    def run(self, drv, ctx=None):
        out = drv.ask(self.lines)
        for line, reply, judge in zip(self.lines, out, self.judges):
            try:
                judge(reply)
            except core.Infra:
                raise
            except Exception as e:
                if ctx is None:
                    raise
                ctx.branch('corr:judge-exception')
                ctx.tie_broken('correspondence', 'unusable-reply:' + line.split(' ', 1)[0],
                               '%s: %s; reply %s' % (type(e).__name__, str(e)[:200], reply[:200]))


def contract(ctx, name, ok, detail, case):
    ctx.branch('contract:' + name)
    if not ok:
        ctx.tie_broken('correspondence', 'contract:' + name, detail, case)


def corr_calc_bd(ctx, L, case, key, o, h, tap_calls, ms_bad, sigma):
    """`_calc_BD_matrix_no_power_scaling(h)`: tap_calls = its 3K kernel calls, in order"""
    K, N = case['K'], case['N']
    T = K * N
    names = [c[0] for c in tap_calls]
    exp = ['matrix_rank', 'svd', 'svd'] * K
    if not ctx.corr('_calc_BD_matrix_no_power_scaling.kernel-calls', case, 'calls=%s' % names, 'calls=%s' % exp,
                    key=key + ('calls',)):
        return None
    blocks = []
    kern = {'vh1': [], 'vh2': [], 's2': [], 'bound': []}
    for k in range(K):
        c_rank, c_svd1, c_svd2 = tap_calls[3 * k:3 * k + 3]
        tilde = o._get_tilde_channel(h, k)
        sub = o._get_sub_channel(h, k)
        rank = int(c_rank[3])
        vh1 = c_svd1[3][2]
        s2, vh2 = c_svd2[3][1], c_svd2[3][2]
        full = c_svd1[2].get('full_matrices', True) and c_svd2[2].get('full_matrices', True)
        ctx.corr('least_right_singular_vectors.svd-mode', case, 'full=%s' % full, 'full=True', key=key + ('mode', k))
        if vh1.shape != (T, T) or vh2.shape != (N, N) or s2.shape != (N,):
            ctx.corr('least_right_singular_vectors.svd-shapes', case,
                     'VH1 %s VH2 %s S2 %s' % (vh1.shape, vh2.shape, s2.shape), 'VH1 (T,T) VH2 (N,N) S2 (N,)',
                     key=key + ('shape', k))
            return None
        kern['vh1'].append(vh1)
        kern['vh2'].append(vh2)
        kern['s2'].append(s2)
        kern['bound'].append(np.abs(Hm(vh1)[:, ::-1][:, :N]) @ np.abs(Hm(vh2)[:, ::-1]))

        def j_tilde(reply, k=k, tilde=tilde, sub=sub, a1=c_svd1[1][0], ar=c_rank[1][0]):
            rows_s, sub_s, til_s = reply.split('|')
            ok1, w1 = same(sub, parse_c(sub_s, (N, T)))
            ctx.corr('_get_sub_channel', case, word(ok1, w1), 'agree', key=key + ('sub', k))
            ok2 = int(rows_s) == tilde.shape[0]
            ok3, w3 = same(tilde, parse_c(til_s, (int(rows_s), T))) if ok2 else (False, 'rows')
            ctx.corr('_get_tilde_channel', case, word(ok2 and ok3, w3), 'agree', key=key + ('tilde', k))
            ok4, w4 = same(a1, tilde)
            ok5, w5 = same(ar, tilde)
            ctx.corr('_calc_BD_matrix_no_power_scaling.svd-argument', case, word(ok4 and ok5, w4 + w5), 'agree',
                     key=key + ('arg1', k))
        L.add('tilde %d %d %d %s' % (K, N, k, cline(h)), j_tilde)

        # contracts assumed of the kernels by the theorems
        v = Hm(vh1)
        v0 = v[:, ::-1][:, :N]
        res_null = np.abs(tilde @ v0).max()
        scale = max(nrm(tilde), 1e-300)
        contract(ctx, 'svd:null-space', res_null <= 1e-10 * scale * T,
                 'user %d: |tilde_H V0|max = %.3e' % (k, res_null), case)
        contract(ctx, 'svd:unitary', np.abs(vh1 @ Hm(vh1) - np.eye(T)).max() <= 1e-10 * T
                 and np.abs(vh2 @ Hm(vh2) - np.eye(N)).max() <= 1e-10 * T,
                 'user %d: V_H not unitary' % k, case)
        u1, s1 = c_svd1[3][0], c_svd1[3][1]
        rows = tilde.shape[0]
        fact = (u1.shape == (rows, rows) and s1.shape == (rows,)
                and np.abs((u1 * s1) @ vh1[:rows, :] - tilde).max() <= 1e-10 * scale * T)
        contract(ctx, 'svd:factorisation', bool(fact), 'user %d: tilde_H != U S V_H' % k, case)
        contract(ctx, 'matrix_rank:full', rank == (K - 1) * N, 'user %d: rank %d of tilde channel' % (k, rank), case)

        def j_user(reply, k=k, sub=sub, a2=c_svd2[1][0], v0=v0, vh2=vh2):
            if reply == 'out-of-model':
                ctx.branch('out-of-model')
                ctx.corr('_calc_BD_matrix_no_power_scaling.nStreams', case, 'nStreams=%d' % (T - rank), 'nStreams=%d' % N,
                         key=key + ('ns', k))
                return
            v0_s, heq_s, v1_s, ms_s, sg_s = reply.split('|')
            ok, w = within(a2, parse_c(heq_s, (N, N)), np.abs(sub) @ np.abs(v0))
            ctx.corr('_calc_BD_matrix_no_power_scaling.svd2-argument', case, word(ok, w), 'agree', key=key + ('arg2', k))
            v1 = Hm(vh2)[:, ::-1]
            ok, w = within(blk(ms_bad, k, N, 1), parse_c(ms_s, (T, N)), np.abs(v0) @ np.abs(v1))
            ctx.corr('_calc_BD_matrix_no_power_scaling.Ms_bad', case, word(ok, w), 'agree', key=key + ('ms', k))
            ok, w = same(sigma[k * N:(k + 1) * N], parse_f(sg_s))
            ctx.corr('_calc_BD_matrix_no_power_scaling.Sigma', case, word(ok, w), 'agree', key=key + ('sigma', k))
        L.add('user %d %d %d %s %s %s %s' % (K, N, rank, cline(sub), cline(vh1), cline(vh2), fline(s2)), j_user)
        blocks.append(blk(ms_bad, k, N, 1))

    def j_stack(reply):
        ok, w = same(ms_bad, parse_c(reply, (T, T)))
        ctx.corr('_calc_BD_matrix_no_power_scaling.hstack', case, word(ok, w), 'agree', key=key + ('stack',))
    L.add('stack %d %d %s' % (K, N, ','.join(cline(b) for b in blocks)), j_stack)
    kern['bound'] = np.hstack(kern['bound'])
    return kern


def kern_fields(kern):
    return '%s %s %s' % (','.join(cline(x) for x in kern['vh1']), ','.join(cline(x) for x in kern['vh2']),
                         ','.join(fline(x) for x in kern['s2']))


def corr_nowf_scaling(ctx, L, case, key, h, ms_bad, new_h, ms_good, name):
    K, N = case['K'], case['N']
    T = K * N

    def j_nowf(reply):
        ok, w = within(ms_good, parse_c(reply, (T, T)), np.abs(ms_good))
        ctx.corr(name + '.Ms_good', case, word(ok, w), 'agree', key=key + ('nowf',))
    L.add('nowf %d %d %s %s' % (K, N, core.f2s(case['iPu']), cline(ms_bad)), j_nowf)

    def j_newh(reply):
        ok, w = within(new_h, parse_c(reply, (T, T)), np.abs(h) @ np.abs(ms_good))
        ctx.corr(name + '.newH', case, word(ok, w), 'agree', key=key + ('newh',))
    L.add('newh %d %d %s %s' % (K, N, cline(h), cline(ms_good)), j_newh)


def corr_bd(ctx, L, case, idx):
    bd, _, _ = _impl()
    K, N, ipu, nv = case['K'], case['N'], case['iPu'], case['nv']
    T = K * N
    h = dec(case['H'])
    key = ('bd', K, N, case['gen'], idx)
    ctx.branch('corr:bd')
    ctx.branch('scale:%g' % case.get('scale', 1.0))
    ctx.branch('gen:' + case['gen'])
    ctx.branch('size:K%d' % K)
    ctx.branch('size:N%d' % N)
    # ---- with water-filling
    o = make_solver(case)
    calc_log, glob_log = [], []
    record_method(o, '_calc_BD_matrix_no_power_scaling', calc_log)
    record_method(o, '_perform_global_waterfilling_power_scaling', glob_log)
    with Tap(bd) as tap:
        new_h, ms_good = o.block_diagonalize(h_arg(case))
    names = tap.names()
    if not ctx.corr('block_diagonalize.kernel-calls', case, 'calls=%s' % names,
                    'calls=%s' % (['matrix_rank', 'svd', 'svd'] * K + ['doWF']), key=key + ('calls-wf',)):
        return
    ms_bad, sigma = calc_log[0][1]
    kern = corr_calc_bd(ctx, L, case, key + ('wf',), o, h, tap.log[:3 * K], ms_bad, sigma)
    if kern is None:
        return
    contract(ctx, 'channel:full-rank', np.linalg.matrix_rank(h) == T and np.linalg.cond(h) <= 1e6,
             'cond %.3e' % float(np.linalg.cond(h)), case)
    wf = tap.log[3 * K]
    p = np.asarray(wf[3][0], dtype=float)
    wf_args = wf[1]
    noise_arg = wf_args[2] if len(wf_args) > 2 else wf[2].get('noiseVar')
    ok = float(wf_args[1]) == K * ipu and float(noise_arg) == nv
    ctx.corr('block_diagonalize.doWF-power-and-noise', case, 'P=%r N=%r' % (float(wf_args[1]), float(noise_arg)),
             'P=%r N=%r' % (float(K * ipu), float(nv)), key=key + ('wfargs',))
    contract(ctx, 'doWF:nonneg', bool(np.all(p >= 0)) and bool(np.any(p > 0)), 'powers %s' % p.tolist(), case)
    contract(ctx, 'doWF:sum', abs(p.sum() - K * ipu) <= 1e-9 * K * ipu, 'sum %r vs %r' % (float(p.sum()), K * ipu), case)
    ctx.branch('wf:zero-power-streams' if np.any(p == 0) else 'wf:all-streams-powered')
    glob = glob_log[0][1]

    def j_wf(reply):
        gains_s, glob_s, norms_s, max_s, good_s = reply.split('|')
        okg, wg = same(wf_args[0], parse_f(gains_s))
        ctx.corr('block_diagonalize.doWF-gains', case, word(okg, wg), 'agree', key=key + ('gains',))
        ok1, w1 = within(glob, parse_c(glob_s, (T, T)), np.abs(glob))
        ctx.corr('_perform_global_waterfilling_power_scaling', case, word(ok1, w1), 'agree', key=key + ('glob',))
        norms = np.array([nrm(blk(glob, k, N, 1)) for k in range(K)])
        ok2, w2 = within(norms, parse_f(norms_s), norms)
        ok3 = core.close(float(norms.max()), core.s2f(max_s), rtol=RTOL)
        ctx.corr('_perform_normalized_waterfilling_power_scaling.max_sqrt_P', case, word(ok2 and ok3, w2), 'agree',
                 key=key + ('max',))
        ok4, w4 = within(ms_good, parse_c(good_s, (T, T)), np.abs(ms_good))
        ctx.corr('_perform_normalized_waterfilling_power_scaling', case, word(ok4, w4), 'agree', key=key + ('good',))
    L.add('wf %d %d %s %s %s %s' % (K, N, core.f2s(ipu), cline(ms_bad), fline(sigma), fline(p)), j_wf)

    def j_newh(reply):
        ok, w = within(new_h, parse_c(reply, (T, T)), np.abs(h) @ np.abs(ms_good))
        ctx.corr('block_diagonalize.newH', case, word(ok, w), 'agree', key=key + ('newh-wf',))
    L.add('newh %d %d %s %s' % (K, N, cline(h), cline(ms_good)), j_newh)
    def j_whole(reply):
        nh_s, ms_s = reply.split('|')
        mb = scaled_bound(kern['bound'], ms_good, ms_bad)
        ok1, w1 = within(new_h, parse_c(nh_s, (T, T)), np.abs(h) @ mb)
        ok2, w2 = within(ms_good, parse_c(ms_s, (T, T)), mb)
        ctx.corr('block_diagonalize', case, word(ok1 and ok2, w1 + w2), 'agree', key=key + ('whole-wf',))
    # (the compiled model re-evaluates closures: the whole method costs O(T^6); the steps above cover every size)
    if T <= 9 or (T <= 12 and ctx.tier == 'thorough' and idx % 8 == 0):
        ctx.branch('corr:bd-whole-method')
        L.add('bdwf %d %d %s %s %s %s' % (K, N, core.f2s(ipu), cline(h), kern_fields(kern), fline(p)), j_whole)
    # receive filter: the Moore-Penrose contract of pinv on the code's newH
    with Tap(bd) as tap2:
        w_bd = bd.calc_receive_filter(new_h)
    pin = tap2.log
    ok = [c[0] for c in pin] == ['pinv'] and np.array_equal(pin[0][1][0], new_h) and np.array_equal(pin[0][3], w_bd)
    ctx.corr('calc_receive_filter', case, 'pinv(newH)' if ok else 'calls=%s' % [c[0] for c in pin], 'pinv(newH)',
             key=key + ('rx',))
    a = new_h
    sv = np.linalg.svd(a, compute_uv=False)
    nzs = sv[sv > sv[0] * 1e-15 * T]
    c = float(nzs[0] / nzs[-1])
    if c <= 1e6:
        sc = 1e-9 * c * T
        an = max(nrm(a), 1e-300)
        wn = max(nrm(w_bd), 1e-300)
        pen = (np.abs(a @ w_bd @ a - a).max() <= sc * an and np.abs(w_bd @ a @ w_bd - w_bd).max() <= sc * wn
               and np.abs(a @ w_bd - Hm(a @ w_bd)).max() <= sc and np.abs(w_bd @ a - Hm(w_bd @ a)).max() <= sc)
        contract(ctx, 'pinv:moore-penrose', bool(pen), 'Penrose conditions violated (cond %.2e)' % c, case)
    # ---- without water-filling
    o2 = make_solver(case)
    calc2 = []
    record_method(o2, '_calc_BD_matrix_no_power_scaling', calc2)
    with Tap(bd) as tap3:
        new_h2, ms_good2 = o2.block_diagonalize_no_waterfilling(h_arg(case))
    if not ctx.corr('block_diagonalize_no_waterfilling.kernel-calls', case, 'calls=%s' % tap3.names(),
                    'calls=%s' % (['matrix_rank', 'svd', 'svd'] * K), key=key + ('calls-nowf',)):
        return
    ms_bad2, sigma2 = calc2[0][1]
    ok, w = same(ms_bad2, ms_bad)
    ctx.corr('block_diagonalize_no_waterfilling.same-Ms_bad', case, word(ok, w), 'agree', key=key + ('same',))
    corr_nowf_scaling(ctx, L, case, key, h, ms_bad2, new_h2, ms_good2, 'block_diagonalize_no_waterfilling')

    def j_whole2(reply):
        nh_s, ms_s = reply.split('|')
        mb = scaled_bound(kern['bound'], ms_good2, ms_bad2)
        ok1, w1 = within(new_h2, parse_c(nh_s, (T, T)), np.abs(h) @ mb)
        ok2, w2 = within(ms_good2, parse_c(ms_s, (T, T)), mb)
        ctx.corr('block_diagonalize_no_waterfilling', case, word(ok1 and ok2, w1 + w2), 'agree', key=key + ('whole-nowf',))
    L.add('bdnowf %d %d %s %s %s' % (K, N, core.f2s(ipu), cline(h), kern_fields(kern)), j_whole2)
    w2_ = bd.calc_receive_filter(new_h2)
    c2 = float(np.linalg.cond(new_h2))
    contract(ctx, 'pinv:moore-penrose', np.abs(new_h2 @ w2_ @ new_h2 - new_h2).max() <= 1e-9 * c2 * T * max(nrm(new_h2), 1e-300)
             and np.abs(w2_ @ new_h2 - Hm(w2_ @ new_h2)).max() <= 1e-9 * c2 * T, 'no-wf newH (cond %.2e)' % c2, case)
    if idx < 2:
        ctx.sample({'call': 'block_diagonalize', 'K': K, 'N': N, 'iPu': ipu, 'noise_var': nv,
                    'block_powers': [nrm(blk(ms_good, k, N, 1)) ** 2 for k in range(K)],
                    'doWF_powers': p.tolist()})


def ext_cov_lines(ctx, L, case, key, ch, re_all):
    K, N = case['K'], case['N']
    e = dec(case['E'])
    r = e.shape[1]
    for k in range(K):
        e_k = blk(e, k, N, 0)

        def j_cov(reply, k=k, e_k=e_k):
            ok, w = within(re_all[k], parse_c(reply, (N, N)), case['pe'] * np.abs(e_k) @ np.abs(Hm(e_k)) + case['nv'] * np.eye(N))
            ctx.corr('calc_cov_matrix_extint_plus_noise', case, word(ok, w), 'agree', key=key + ('cov', k))
        L.add('cov %d %d %s %s %s' % (N, r, core.f2s(case['pe']), core.f2s(case['nv']), cline(e_k)), j_cov)


def corr_white(ctx, L, case, idx):
    bd, _, _ = _impl()
    K, N, ipu = case['K'], case['N'], case['iPu']
    T = K * N
    h = dec(case['H'])
    key = ('white', K, N, case['gen'], idx)
    ctx.branch('corr:white')
    ctx.branch('scale:%g' % case.get('scale', 1.0))
    o = make_solver(case)
    ch = make_channel(case)
    calc_log = []
    record_method(o, '_calc_BD_matrix_no_power_scaling', calc_log)
    with Tap(bd) as tap:
        ms_all, wk_all, ns_all = o.block_diagonalize_no_waterfilling(ch)
    exp = ['whiten'] * K + ['matrix_rank', 'svd', 'svd'] * K + ['pinv']
    if not ctx.corr('WhiteningBD.kernel-calls', case, 'calls=%s' % tap.names(), 'calls=%s' % exp, key=key + ('calls',)):
        return
    ww = [tap.log[k][3] for k in range(K)]
    re_all = [tap.log[k][1][0] for k in range(K)]
    ext_cov_lines(ctx, L, case, key, ch, re_all)
    ok, w = same(ch.big_H_no_ext_int, h)
    ctx.corr('big_H_no_ext_int', case, word(ok, w), 'agree', key=key + ('bigH',))
    for k in range(K):
        contract(ctx, 'whitening:invertible', np.all(np.isfinite(ww[k])) and np.linalg.cond(ww[k]) <= 1e8,
                 'user %d: whitening matrix singular' % k, case)
        res = np.abs(Hm(ww[k]) @ re_all[k] @ ww[k] - np.eye(N)).max()
        ctx.branch('whitening:identity' if res <= 1e-8 else 'whitening:not-identity(C20)')
    h_eq = calc_log[0][0][0]
    ms_bad, sigma = calc_log[0][1]

    def j_white(reply):
        f_s, heq_s = reply.split('|')
        big = np.zeros((T, T), dtype=complex)
        for k in range(K):
            big[k * N:(k + 1) * N, k * N:(k + 1) * N] = Hm(ww[k])
        ok, w = within(h_eq, parse_c(heq_s, (T, T)), np.abs(big) @ np.abs(h))
        ctx.corr('WhiteningBD.H_matrix_equiv', case, word(ok, w), 'agree', key=key + ('heq',))
    L.add('white %d %d %s %s' % (K, N, cline(h), ','.join(cline(x) for x in ww)), j_white)
    kern = corr_calc_bd(ctx, L, case, key, o, h_eq, tap.log[K:4 * K], ms_bad, sigma)
    if kern is None:
        return
    pin = tap.log[4 * K]
    new_h = pin[1][0]
    ms_good = np.hstack(list(ms_all))
    corr_nowf_scaling(ctx, L, case, key, h_eq, ms_bad, new_h, ms_good, 'WhiteningBD')
    w_p = pin[3]
    c = float(np.linalg.cond(new_h))
    contract(ctx, 'pinv:left-inverse', np.abs(w_p @ new_h - np.eye(T)).max() <= 1e-9 * c * T,
             '|W newH - I|max = %.3e (cond %.2e)' % (float(np.abs(w_p @ new_h - np.eye(T)).max()), c), case)

    def j_wrx(reply):
        m = parse_c(reply, (K, N, N))
        big = np.zeros((T, T), dtype=complex)
        for k in range(K):
            big[k * N:(k + 1) * N, k * N:(k + 1) * N] = Hm(ww[k])
        bound = np.abs(w_p) @ np.abs(big)
        ok = True
        why = ''
        for k in range(K):
            ok1, w1 = within(wk_all[k], m[k], bound[k * N:(k + 1) * N, k * N:(k + 1) * N])
            ok, why = ok and ok1, why + w1
        ctx.corr('WhiteningBD._calc_receive_filter_with_whitening', case, word(ok, why), 'agree', key=key + ('wrx',))
    L.add('wrx %d %d %s %s' % (K, N, cline(w_p), ','.join(cline(x) for x in ww)), j_wrx)
    ctx.corr('WhiteningBD.Ns', case, 'Ns=%s' % [int(x) for x in ns_all], 'Ns=%s' % ([N] * K), key=key + ('ns',))

    def j_whole(reply):
        parts = reply.split('#')
        mb = scaled_bound(kern['bound'], ms_good, ms_bad)
        ok, w = within(new_h, parse_c(parts[0], (T, T)), np.abs(h_eq) @ mb)
        ctx.corr('WhiteningBD.pinv-argument', case, word(ok, w), 'agree', key=key + ('whole-arg',))
        good, why = len(parts) == K + 1, ''
        big = np.zeros((T, T), dtype=complex)
        for k in range(K):
            big[k * N:(k + 1) * N, k * N:(k + 1) * N] = Hm(ww[k])
        bound = np.abs(w_p) @ np.abs(big)
        for k in range(K if good else 0):
            ns_s, cols_s, ms_s, w_s = parts[k + 1].split('|')
            ok0 = int(ns_s) == int(ns_all[k]) and int(cols_s) == ms_all[k].shape[1] == wk_all[k].shape[0]
            ok1, w1 = within(ms_all[k], parse_c(ms_s, (T, int(cols_s))), mb[:, k * N:(k + 1) * N])
            ok2, w2 = within(wk_all[k], parse_c(w_s, (int(cols_s), N)), bound[k * N:(k + 1) * N, k * N:(k + 1) * N])
            good, why = good and ok0 and ok1 and ok2, why + w1 + w2 + ('' if ok0 else ' counts')
        ctx.corr('WhiteningBD.block_diagonalize_no_waterfilling', case, word(good, why), 'agree', key=key + ('whole',))
    L.add('wbd %d %d %s %s %s %s %s' % (K, N, core.f2s(ipu), cline(h), ','.join(cline(x) for x in ww),
                                       kern_fields(kern), cline(w_p)), j_whole)


def corr_enh(ctx, L, case, idx):
    bd, _, _ = _impl()
    K, N, ipu = case['K'], case['N'], case['iPu']
    T = K * N
    metric = case['metric']
    h = dec(case['H'])
    key = ('enh', metric, K, N, case['gen'], idx)
    ctx.branch('corr:enh-' + metric)
    ctx.branch('scale:%g' % case.get('scale', 1.0))
    o = make_solver(case)
    ch = make_channel(case)
    calc_log = []
    record_method(o, '_calc_BD_matrix_no_power_scaling', calc_log)
    with Tap(bd) as tap:
        tap.wrap_metric(o)
        ms_all, wk_all, ns_all = o.block_diagonalize_no_waterfilling(ch)
    ms_bad, sigma = calc_log[0][1]
    log = tap.log
    names = tap.names()
    head = ['matrix_rank', 'svd', 'svd'] * K
    if names[:3 * K] != head:
        ctx.corr('EnhancedBD.kernel-calls', case, 'calls=%s' % names, 'calls=%s ...' % head, key=key + ('calls',))
        return
    kern = corr_calc_bd(ctx, L, case, key, o, h, log[:3 * K], ms_bad, sigma)
    if kern is None:
        return
    rest = log[3 * K:]
    if metric == 'None':
        exp = ['pinv'] * K
        if not ctx.corr('EnhancedBD.kernel-calls', case, 'calls=%s' % [c[0] for c in rest], 'calls=%s' % exp,
                        key=key + ('calls',)):
            return
        ms_good = np.hstack(list(ms_all))
        # newH is not returned: its diagonal blocks are the pinv arguments; compare those with the model
        args = [c[1][0] for c in rest]

        def j_nowf(reply):
            ok, w = within(ms_good, parse_c(reply, (T, T)), np.abs(ms_good))
            ctx.corr('EnhancedBD[None].Ms_good', case, word(ok, w), 'agree', key=key + ('nowf',))
        L.add('nowf %d %d %s %s' % (K, N, core.f2s(ipu), cline(ms_bad)), j_nowf)

        def j_newh(reply):
            m = parse_c(reply, (T, T))
            ok, why = True, ''
            bound = np.abs(h) @ np.abs(ms_good)
            for k in range(K):
                sl = slice(k * N, (k + 1) * N)
                ok1, w1 = within(args[k], m[sl, sl], bound[sl, sl])
                ok, why = ok and ok1, why + w1
            ctx.corr('EnhancedBD[None].pinv-argument', case, word(ok, why), 'agree', key=key + ('pinvarg',))
        L.add('newh %d %d %s %s' % (K, N, cline(h), cline(ms_good)), j_newh)
        for k in range(K):
            ok, w = same(wk_all[k], rest[k][3])
            ctx.corr('EnhancedBD[None].W_k', case, 'W_k=pinv result' if ok else 'differs: ' + w, 'W_k=pinv result',
                     key=key + ('wk', k))
            a = args[k]
            c = float(np.linalg.cond(a))
            contract(ctx, 'pinv:left-inverse', np.abs(rest[k][3] @ a - np.eye(N)).max() <= 1e-9 * c * N,
                     'user %d: |W A - I|' % k, case)

            def j_enone(reply, k=k, a=a):
                arg_s, out_s = reply.split('#')
                mb = scaled_bound(kern['bound'], ms_good, ms_bad)
                bound = (np.abs(h) @ mb)[k * N:(k + 1) * N, k * N:(k + 1) * N]
                ok, w = within(a, parse_c(arg_s, (N, N)), bound)
                ns_s, cols_s, ms_s, w_s = out_s.split('|')
                ok0 = int(ns_s) == int(ns_all[k]) and int(cols_s) == ms_all[k].shape[1] == wk_all[k].shape[0]
                ok1, w1 = within(ms_all[k], parse_c(ms_s, (T, int(cols_s))), mb[:, k * N:(k + 1) * N])
                ok2, w2 = same(wk_all[k], parse_c(w_s, (int(cols_s), N)))
                ctx.corr('EnhancedBD[None].block_diagonalize_no_waterfilling', case,
                         word(ok and ok0 and ok1 and ok2, w + w1 + w2 + ('' if ok0 else ' counts')), 'agree',
                         key=key + ('whole', k))
            L.add('enone %d %d %s %s %s %d %s' % (K, N, core.f2s(ipu), cline(h), kern_fields(kern), k, cline(rest[k][3])),
                  j_enone)
        ctx.corr('EnhancedBD[None].Ns', case, 'Ns=%s' % [int(x) for x in ns_all], 'Ns=%s' % ([N] * K), key=key + ('ns',))
        return
    # ---- stream reduction paths
    re_all = ch.calc_cov_matrix_extint_plus_noise(case['pe'])
    ext_cov_lines(ctx, L, case, key, ch, re_all)
    e = dec(case['E'])
    pos = 0
    for k in range(K):
        hk = blk(h, k, N, 0)
        msk = blk(ms_bad, k, N, 1)
        if metric in ('naive', 'fixed'):
            steps = [(case['ns'], metric)]
        else:
            steps = [(i + 1, 'eye' if i == N - 1 else 'fixed') for i in range(N)]
        results = []
        for (n, mode) in steps:
            exp = (['svd'] if mode == 'fixed' else []) + ['inv', 'pinv'] + (['metric'] if metric not in ('naive', 'fixed') else [])
            got = rest[pos:pos + len(exp)]
            if [c[0] for c in got] != exp:
                ctx.corr('EnhancedBD.kernel-calls', case, 'calls=%s' % [c[0] for c in rest], 'user %d step n=%d: %s' % (k, n, exp),
                         key=key + ('calls', k, n))
                return
            pos += len(exp)
            i0 = 0
            vh = None
            if mode == 'fixed':
                c_svd = got[0]
                i0 = 1
                vh = c_svd[3][2]
                ok, w = same(c_svd[1][0], re_all[k])
                ctx.corr('_calc_stream_reduction_matrix.svd-argument', case, word(ok, w), 'agree', key=key + ('svdarg', k, n))
                contract(ctx, 'svd:unitary', np.abs(vh @ Hm(vh) - np.eye(N)).max() <= 1e-10 * N, 'V_H of Re_k', case)
                u_re, s_re = c_svd[3][0], c_svd[3][1]
                contract(ctx, 'svd:factorisation',
                         np.abs((u_re * s_re) @ vh - re_all[k]).max() <= 1e-10 * N * max(1.0, nrm(re_all[k]))
                         and np.abs(Hm(u_re) @ u_re - np.eye(N)).max() <= 1e-10 * N, 'Re_k != U S V_H', case)
                if n <= N - ext_rank(blk(e, k, N, 0)):
                    # "enough streams are sacrificed", spectrally: the n smallest singular values are the noise variance
                    contract(ctx, 'svd:noise-singular-values',
                             np.abs(s_re[N - n:] - case['nv']).max() <= 1e-9 * max(1.0, nrm(re_all[k])),
                             'user %d n=%d: S=%s nv=%r' % (k, n, s_re.tolist(), case['nv']), case)
            c_inv, c_pinv = got[i0], got[i0 + 1]
            g = c_inv[3]
            wp = c_pinv[3]
            res = {'n': n, 'mode': mode, 'pinv_arg': c_pinv[1][0], 'wp': wp, 'inv_arg': c_inv[1][0], 'g': g,
                   're': re_all[k], 'vh': vh}
            if metric not in ('naive', 'fixed'):
                c_m = got[i0 + 2]
                res['sinrs'] = np.asarray(c_m[1][0], dtype=float)
                res['value'] = float(c_m[3])
            results.append(res)

            def j_red(reply, k=k, n=n, mode=mode, res=res, hk=hk, msk=msk, vh=vh):
                pk_s, gram_s, nt_s, mspk_s, hr_s, pb_s, pa_s = reply.split('|')
                pk = parse_c(pk_s, (N, n))
                res['pk'] = pk
                ok, w = within(res['inv_arg'], parse_c(gram_s, (n, n)), np.abs(Hm(pk)) @ np.abs(pk))
                ctx.corr('calcProjectionMatrix.inv-argument', case, word(ok, w), 'agree', key=key + ('invarg', k, n))
                contract(ctx, 'inv:left-inverse', np.abs(res['g'] @ res['inv_arg'] - np.eye(n)).max() <= 1e-9 * n,
                         'G (P^H P) != I', case)
                res['heq_red'] = parse_c(hr_s, (N, n))
                res['pbar'] = parse_c(pb_s, (N, N))
                res['mspk'] = parse_c(mspk_s, (T, n))
                res['nt'] = core.s2f(nt_s)
                res['msbound'] = np.abs(msk) @ np.abs(pk) / max(res['nt'], 1e-300)
                heq = hk @ msk
                bound = np.abs(parse_c(pb_s, (N, N))) @ (np.abs(heq) @ np.abs(pk) / max(res['nt'], 1e-300))
                ok, w = within(res['pinv_arg'], parse_c(pa_s, (N, n)), bound)
                ctx.corr('calc_receive_filter_user_k.pinv-argument', case, word(ok, w), 'agree', key=key + ('pinvarg', k, n))
                a = res['pinv_arg']
                sv = np.linalg.svd(a, compute_uv=False)
                c = float(sv[0] / sv[-1]) if sv[-1] > 0 else float('inf')
                res['cond'] = c
                if c <= 1e7:
                    contract(ctx, 'pinv:left-inverse', np.abs(res['wp'] @ a - np.eye(n)).max() <= 1e-9 * c * N,
                             'user %d n=%d: |W A - I| = %.3e' % (k, n, float(np.abs(res['wp'] @ a - np.eye(n)).max())), case)
                if mode == 'fixed' and n <= N - ext_rank(blk(e, k, N, 0)):
                    # contract of "enough streams sacrificed": P lies in the noise eigenspace of Re_k
                    resid = np.abs(re_all[k] @ pk - case['nv'] * pk).max()
                    contract(ctx, 'stream-reduction:noise-eigenspace',
                             resid <= 1e-9 * max(1.0, nrm(re_all[k])),
                             'user %d n=%d: |Re P - nv P| = %.3e' % (k, n, float(resid)), case)
                    ctx.branch('red:interference-free')
                elif mode == 'fixed':
                    ctx.branch('red:interference-remains')
            x = cline(vh) if mode == 'fixed' else '-'
            L.add('red %s %d %d %d %s %s %s %s %s' % (mode, N, T, n, core.f2s(ipu), cline(hk), cline(msk), x, cline(g)), j_red)
        # choice of the number of streams
        if metric in ('naive', 'fixed'):
            best = 0
        else:
            vals = [r_['value'] for r_ in results]
            best = int(np.argmax(vals))
            # (the model decides on the bit-identical metric values the code obtained: ties included)
            def j_arg(reply, k=k, best=best):
                b_s, n_s = reply.split('|')
                ctx.corr('_perform_BD_no_waterfilling_decide_number_streams.best_index', case,
                         'best=%d Ns=%d' % (best, int(ns_all[k])), 'best=%s Ns=%s' % (b_s, n_s), key=key + ('best', k))
            L.add('argmax %s' % fline(vals), j_arg)
            if len(set(vals)) < len(vals):
                ctx.branch('decide:exact-tie')
            ctx.branch('decide:kept-%s' % ('all' if best == N - 1 else 'fewer'))
        chosen = results[best]

        def j_rx_for(res, final):
            def j_rx(reply, k=k, res=res, final=final):
                n = res['n']
                wk_s, sinr_s, cap_s = reply.split('|')
                wk_m = parse_c(wk_s, (n, N))
                if final:
                    ok, w = within(wk_all[k], wk_m, np.abs(res['wp']) @ np.abs(res['pbar']))
                    ctx.corr('calc_receive_filter_user_k', case, word(ok, w), 'agree', key=key + ('wk', k))
                    ok, w = within(ms_all[k], res['mspk'], res['msbound'])
                    ctx.corr('EnhancedBD.MsPk', case, word(ok, w), 'agree', key=key + ('mspk', k))
                    ctx.corr('EnhancedBD.Ns', case, 'Ns=%d cols=%d rows=%d' % (int(ns_all[k]), ms_all[k].shape[1], wk_all[k].shape[0]),
                             'Ns=%d cols=%d rows=%d' % (n, n, n), key=key + ('ns', k))
                if 'sinrs' in res:
                    sm = parse_f(sinr_s)
                    tol, meaningful = sinr_tolerance(wk_m, res['heq_red'], res['re'])
                    if res['sinrs'].shape != sm.shape:
                        ctx.corr('_calc_linear_SINRs', case, 'shape %s' % (res['sinrs'].shape,), 'shape %s' % (sm.shape,),
                                 key=key + ('sinr', k, n))
                    elif np.all(meaningful):
                        err = np.abs(res['sinrs'] - sm)
                        ok = bool(np.all(err <= tol + 1e-300))
                        ctx.corr('_calc_linear_SINRs', case,
                                 word(ok, 'max err %.3e (tolerance %.3e)' % (float(err.max()), float(tol[np.argmax(err)]))),
                                 'agree', key=key + ('sinr', k, n))
                        if metric == 'capacity':
                            ctol = float(np.sum(tol / (1.0 + sm))) / math.log(2.0) + 1e-12 * max(1.0, abs(res['value']))
                            ok = abs(res['value'] - core.s2f(cap_s)) <= ctol
                            ctx.corr('calc_shannon_sum_capacity', case,
                                     word(ok, 'impl %r model %r (tolerance %.3e)' % (res['value'], core.s2f(cap_s), ctol)),
                                     'agree', key=key + ('cap', k, n))
                    else:
                        ctx.branch('sinr:ill-conditioned-skipped')
            return j_rx
        # the whole per-user method in the model
        def j_out(reply, k=k, chosen=chosen):
            if reply.startswith('error') or reply == 'bad-op':
                ctx.corr('EnhancedBD.block_diagonalize_no_waterfilling', case, 'returns a value', reply, key=key + ('whole', k))
                return
            ns_s, cols_s, ms_s, w_s = reply.split('|')
            cols = int(cols_s)
            ok0 = int(ns_s) == int(ns_all[k]) and cols == ms_all[k].shape[1] == wk_all[k].shape[0]
            ok1, w1 = within(ms_all[k], parse_c(ms_s, (T, cols)), chosen.get('msbound', np.abs(ms_all[k]))) if ok0 else (False, '')
            wb = np.abs(chosen['wp']) @ np.abs(chosen['pbar']) if 'pbar' in chosen else np.abs(wk_all[k])
            ok2, w2 = within(wk_all[k], parse_c(w_s, (cols, N)), wb) if ok0 else (False, '')
            ctx.corr('EnhancedBD.block_diagonalize_no_waterfilling', case,
                     word(ok0 and ok1 and ok2, w1 + w2 + ('' if ok0 else ' counts impl Ns=%d model ns=%s cols=%s'
                                                         % (int(ns_all[k]), ns_s, cols_s))), 'agree', key=key + ('whole', k))
        if metric in ('naive', 'fixed'):
            r0 = results[0]
            L.add(('ered', r0, k, '%s %d %d %d %s %s %s %%s %s %s' % (
                metric, N, T, r0['n'], core.f2s(ipu), cline(hk), cline(msk), cline(r0['g']), cline(r0['wp']))), j_out)
        else:
            vhs = [r_['vh'] for r_ in results if r_['vh'] is not None]
            same_vh = all(np.array_equal(v, vhs[0]) for v in vhs)
            ctx.corr('_calc_stream_reduction_matrix.deterministic', case, 'same V_H' if same_vh else 'V_H differs between calls',
                     'same V_H', key=key + ('vhs', k))
            vh0 = vhs[0] if vhs else np.zeros((N, N))
            L.add('edec %d %d %s %s %s %s %s %s %s' % (
                N, T, core.f2s(ipu), cline(hk), cline(msk), cline(vh0), ';'.join(cline(r_['g']) for r_ in results),
                ';'.join(cline(r_['wp']) for r_ in results), fline([r_['value'] for r_ in results])), j_out)
        for r_ in results:
            final = r_ is chosen
            # needs values parsed from the 'red' replies: sent in a second batch
            L.add(('rx', r_, k), j_rx_for(r_, final))
    if pos != len(rest):
        ctx.corr('EnhancedBD.kernel-calls', case, 'extra calls %s' % [c[0] for c in rest[pos:]], 'no extra calls', key=key + ('extra',))


def materialise(L):
    """'rx' requests need values parsed from earlier replies ('red'): they are sent in a second batch"""
    first = Lines()
    second = []
    for line, judge in zip(L.lines, L.judges):
        if isinstance(line, tuple):
            second.append((line, judge))
        else:
            first.add(line, judge)
    return first, second


def metric_line(op):
    name, arg = op
    if name in ('None', 'None-obj'):
        return 'None:-:-:-'
    if name in ('naive', 'fixed'):
        return '%s:%s:-:-' % (name, arg if isinstance(arg, int) else '-')
    if name == 'effective_throughput':
        return 'effective_throughput:-:%s:%s' % ('-' if arg in ('no-modulator', 'missing') else '1',
                                                 '-' if arg in ('no-length', 'missing') else '120')
    return '%s:-:-:-' % name


def corr_metric_histories(ctx, drv, rng, n):
    """R4 / R7: histories of set_ext_int_handling_metric calls (valid and rejected) on one EnhancedBD object
    against the model's state machine: state, exception and the path block_diagonalize_no_waterfilling takes"""
    bd, _, _ = _impl()
    lines, impls, cases = [], [], []
    for _ in range(n):
        ops = [tuple(rng.choice(METRIC_OPS)) for _ in range(rng.randint(1, 8))]
        o = bd.EnhancedBD(2, 1.0, 0.1, 1.0)
        taken = []
        o._perform_BD_no_waterfilling_no_stream_reduction = lambda ch: taken.append('no-reduction')
        o._perform_BD_no_waterfilling_fixed_or_naive_reduction = lambda ch: taken.append('fixed-or-naive')
        o._perform_BD_no_waterfilling_decide_number_streams = lambda ch: taken.append('decide')
        states = []
        for op in ops:
            err = do_metric_op(o, op)
            args = o._metric_func_extra_args
            o.block_diagonalize_no_waterfilling(None)
            states.append('%s,%s,%s,%s,%s,%s,%s' % (
                o.metric_name, getattr(o._metric_func, '__name__', None),
                args.get('num_streams', '-'), '1' if 'modulator' in args else '-', args.get('packet_length', '-'),
                err or 'ok', taken[-1]))
            extra = sorted(set(args) - {'num_streams', 'modulator', 'packet_length'})
            if extra:
                states[-1] += ',extra-keys=%s' % extra
        lines.append('metric ' + ';'.join(metric_line(op) for op in ops))
        impls.append(';'.join(states))
        cases.append({'ops': [list(op) for op in ops]})
    out = drv.ask(lines)
    for i, (impl, model, case) in enumerate(zip(impls, out, cases)):
        ctx.corr('set_ext_int_handling_metric.history', case, impl, model, key=('metric-history', i))
    ctx.branch('corr:metric-setter-histories', n)


def correspondence(ctx, n_bd, n_white, n_enh):
    g = Gen(ctx.rng.fork('corr'))
    drv = core.Driver(DRIVER)
    corr_metric_histories(ctx, drv, ctx.rng.fork('metric-histories'), 40 if ctx.tier == 'quick' else 400)
    corr_index(ctx, drv)
    jobs = []
    for i in range(n_bd):
        jobs.append(('bd', g.bd_case(), i))
    for i in range(n_white):
        jobs.append(('white', g.ext_case('white'), i))
    for i in range(n_enh):
        jobs.append(('enh', g.ext_case('enh', metric=METRICS[i % len(METRICS)]), i))
    if ctx.tier == 'thorough':
        for i, case in enumerate(sweep(g)):
            jobs.append(({'bd': 'bd', 'white': 'white', 'enh': 'enh'}[case['variant']], case, 100000 + i))
        ctx.branch('corr:sweep')
    # robustness classes: exact element types, layouts, zero parameters, long-lived objects
    gr = Gen(ctx.rng.fork('robust-corr'))
    nrob = max(24, (n_bd + n_white + n_enh) // 3)
    it = 0
    for kind, case in robust_cases(gr, nrob):
        if kind == 'typed' and narrow_array(case):
            case = gr.typed_case(exact_only=True, dev=('H', case['rb']['H']))
        robust_branch(ctx, kind, case, 'corr')
        jobs.append((case['variant'], case, 200000 + it))
        it += 1
    batch = 40
    for b0 in range(0, len(jobs), batch):
        L = Lines()
        for kind, case, i in jobs[b0:b0 + batch]:
            n_lines = len(L.lines)
            try:
                {'bd': corr_bd, 'white': corr_white, 'enh': corr_enh}[kind](ctx, L, case, i)
            except core.Infra:
                raise
            except Exception as e:   # the code under test raised (or returned something unusable) on a valid input
                del L.lines[n_lines:]
                del L.judges[n_lines:]
                ctx.branch('corr:exception')
                ctx.tie_broken('correspondence', 'exception:' + kind, '%s: %s' % (type(e).__name__, str(e)[:300]), case)
                run_oracle(ctx, 'robust.runs', case)     # an exception of the LIBRARY on this input is a failing input
        first, second = materialise(L)
        first.run(drv, ctx)
        L2 = Lines()
        for item, judge in second:
            tag, res, k = item[0], item[1], item[2]
            if tag == 'ered':
                L2.add('ered ' + item[3] % (cline(res['vh']) if res['vh'] is not None else '-'), judge)
                continue
            if 'pbar' not in res:
                continue
            n = res['n']
            N = res['pbar'].shape[0]
            L2.add('rx %d %d %s %s %s %s' % (N, n, cline(res['wp']), cline(res['pbar']), cline(res['heq_red']),
                                             cline(res['re'])), judge)
        L2.run(drv, ctx)


# ------------------------------------------------------------------ check
CORPUS = [
    # the docstring example of BlockDiagonalizer (2 users, 2 antennas)
    {'variant': 'bd', 'K': 2, 'N': 2, 'iPu': 1.5, 'nv': 1e-4, 'gen': 'corpus',
     'H': enc(np.array([[-0.9834 - 0.0123j, 0.6503 - 0.3189j, 0.5484 + 1.7049j, -1.0891 - 0.1025j],
                        [-0.5911 - 0.3055j, -0.6205 + 0.3375j, -0.7995 + 0.3723j, 0.7412 - 1.2537j],
                        [-0.2732 + 0.475j, -0.4191 + 0.4019j, 0.1047 - 0.5592j, 0.7548 - 1.0214j],
                        [0.5377 - 0.208j, -0.1480 - 1.0527j, -0.6373 + 0.4081j, -0.5854 - 0.8135j]]))},
    # one user far away and a high noise level: water-filling switches streams off
    {'variant': 'bd', 'K': 2, 'N': 2, 'iPu': 1.0, 'nv': 5.0, 'gen': 'corpus',
     'H': enc(np.array([[1.0, 2, 0.5, -1], [0.5, -1, 2, 1], [0.01, 0.02, -0.01, 0.03], [0.02, -0.01, 0.03, 0.01]])
              + 0j)},
    {'variant': 'bd', 'K': 3, 'N': 1, 'iPu': 2.0, 'nv': 0.1, 'gen': 'corpus',
     'H': enc(np.array([[1.0, 2j, 0.5], [0.5, -1, 2], [1j, 1, 1]]))},
]


ALL_SHAPES = [(K, N) for K in (2, 3, 4) for N in (1, 2, 3, 4)]


def sweep(g):
    """every (K, N) x every method / metric x every num_streams"""
    for shape in ALL_SHAPES:
        yield g.bd_case(shape)
        yield g.ext_case('white', shape=shape)
        for m in METRICS:
            for ns in (range(1, shape[1] + 1) if m in ('naive', 'fixed') else [1]):
                yield g.ext_case('enh', metric=m, shape=shape, ns=ns)


def oracles(ctx, n_bd, n_ext):
    g = Gen(ctx.rng.fork('oracle'))
    for case in CORPUS:
        for call in calls_of(case):
            run_oracle(ctx, call, case, key=('corpus', call, repr(case)[:120]))
    if ctx.tier == 'thorough':
        for rep in range(3):
            for case in sweep(g):
                for call in calls_of(case):
                    run_oracle(ctx, call, case)
        ctx.branch('oracle:sweep')
    for _ in range(n_bd):
        case = g.bd_case()
        for call in calls_of(case):
            run_oracle(ctx, call, case)
        ctx.branch('oracle:bd:' + case['gen'])
    for i in range(n_ext):
        case = g.ext_case(metric=METRICS[i % len(METRICS)])
        run_oracle(ctx, calls_of(case)[0], case)
        ctx.branch('oracle:' + case['variant'] + (':' + case['metric'] if 'metric' in case else ''))


def robust_cases(g, n):
    """(kind, case) stream of the robustness classes; kinds: typed (R1/R2), history (R7), zero (R5 values that the
    ordinary methods must digest)"""
    devs = g.deviations()
    off = g.rng.below(len(devs) - 12)
    for i in range(n):
        yield 'typed', g.typed_case(dev=devs[i] if i < 12 else devs[12 + (off + i) % (len(devs) - 12)])
    for i in range(max(2, n // 2)):
        yield 'history', g.history_case(variant=['bd', 'white', 'enh', 'enh', 'enh'][i % 5],
                                        metric=METRICS[i % len(METRICS)])
    for i in range(max(2, n // 4)):
        c = g.ext_case(metric=METRICS[i % len(METRICS)])
        c['pe'] = [0.0, 0][i % 2]
        yield 'zero', c
        c = g.bd_case()
        c.pop('cov_scale', None)
        c['nv'] = [0.0, 0][i % 2]
        yield 'zero', c


def robust_branch(ctx, kind, case, where):
    rb = case.get('rb', {})
    if kind == 'typed':
        for f, t in rb.items():
            if f == 'layout':
                ctx.branch('%s:R2:layout:%s' % (where, t))
                ctx.branch('%s:R2:layout' % where)
            elif f == 'H':
                ctx.branch('%s:R1:array:%s' % (where, 'narrow-float' if t in ('float32', 'complex64') else
                                               'integer' if np.dtype(t).kind in 'iu' else 'float64'))
            elif f in ('NtE', 'Nt'):
                ctx.branch('%s:R10:count-collections' % where)
            elif f == 'ctor':
                ctx.branch('%s:R8:constructor-forms' % where)
            elif f == 'mform':
                ctx.branch('%s:%s' % (where, 'R12:dict-order' if t == 'dict-reversed' else 'R8:setter-forms'))
            elif f == 'derive':
                ctx.branch('%s:R13:derived-objects' % where)
            elif t in ('0d', '0d-int'):
                ctx.branch('%s:R2:0d-scalar' % where)
            else:
                ctx.branch('%s:R1:scalar:%s' % (where, 'narrow-int' if t in ('int8', 'uint8', 'int16', 'uint16') else
                                                'float16/32' if t in ('float16', 'float32') else 'other'))
    elif kind == 'history':
        ctx.branch('%s:R7:long-lived:%s' % (where, case['variant']))
        if case.get('reuse_buffer'):
            ctx.branch('%s:R16:argument-buffer-refilled-in-place' % where)
    else:
        ctx.branch('%s:R5:zero-%s' % (where, 'pe' if case['variant'] != 'bd' else 'noise'))


def robust_oracles(ctx, n):
    g = Gen(ctx.rng.fork('robust-oracle'))
    for kind, case in robust_cases(g, n):
        robust_branch(ctx, kind, case, 'oracle')
        if kind == 'typed':
            run_oracle(ctx, 'robust.twin', case)
        if kind == 'history' and case['variant'] == 'bd':
            run_oracle(ctx, 'robust.history', case)
        if not narrow_array(case):          # the first-principles property oracles on the same case
            for call in calls_of(case):
                run_oracle(ctx, call, case)
    for i in range(max(3, n // 3)):
        case = g.bd_case() if i % 3 == 0 else g.ext_case(metric=METRICS[i % len(METRICS)])
        case.pop('cov_scale', None)
        if i % 2:
            case['rb'] = {'layout': g.rng.choice(LAYOUTS)}
        run_oracle(ctx, 'robust.immutable', case)
        ctx.branch('oracle:R3:immutability')
    for i in range(max(3, n // 3)):
        run_oracle(ctx, 'robust.rejected', g.rejected_case())
        ctx.branch('oracle:R4:rejected-calls')
        case = g.boundary_case(['iPu=0', 'K=1', 'noise-changed'][i % 3])
        run_oracle(ctx, 'robust.boundary', case)
        ctx.branch('oracle:R5:' + case['boundary'])
        run_oracle(ctx, 'robust.shared-channel', g.shared_case())
        ctx.branch('oracle:R7:shared-channel')


LARGE_PLAN = [('bd', 'nowf', None), ('bd', 'wf', None), ('white', None, None), ('enh', None, 'naive'), ('enh', None, 'fixed'),
              ('enh', None, 'None'), ('enh', None, 'capacity'), ('enh', None, 'effective_throughput')]


def run_isolated(ctx, pairs, timeout=1500):
    """run (oracle, case) pairs in a child interpreter with single-threaded BLAS: the K = 260 ... 300 cases do a few
    hundred LAPACK calls on 300 x 300 matrices, which takes seconds with one thread but is unpredictable when 16
    BLAS threads compete with other processes"""
    if not pairs:
        return
    path = os.path.join(ctx.scratch, 'c09_isolated_%d.json' % ctx.rng.below(1 << 30))
    with open(path, 'w') as f:
        json.dump(pairs, f, default=core.json_default)
    env = dict(os.environ, OPENBLAS_NUM_THREADS='1', OMP_NUM_THREADS='1', MKL_NUM_THREADS='1', PYPHYSIM_REPO=core.REPO)
    try:
        p = subprocess.run([sys.executable, '-m', 'harness.props.c09', path], cwd=core.VERIF, env=env, stdout=subprocess.PIPE,
                           stderr=subprocess.PIPE, text=True, timeout=timeout)
    except subprocess.TimeoutExpired:
        raise core.Infra('isolated oracle run timed out')
    lines = [ln for ln in p.stdout.split('\n') if ln.startswith('RESULTS ')]
    if p.returncode != 0 or not lines:
        raise core.Infra('isolated oracle run failed: rc=%s stderr=%s' % (p.returncode, p.stderr[-400:]))
    results = json.loads(lines[-1][8:])
    for (call, case), r in zip(pairs, results):
        ctx.count((call, core.hashlib.sha1(repr(case).encode()).hexdigest()), True)
        if r is not None:
            ctx.fail(call, r[0], case, r[1])
            ctx.branch('oracle-fail:' + call)
        else:
            ctx.branch('oracle-ok:' + call)


def isolated_main(path):
    core.import_repo()
    with open(path) as f:
        pairs = json.load(f)
    out = []
    for call, case in pairs:
        try:
            r = ORACLES[call](case)
        except Exception as e:
            r = ('exception:%s:%s' % (type(e).__name__, variant_tag(case) if 'variant' in case else call), repr(e)[:300])
        out.append(None if r is None else [r[0], r[1]])
    print('RESULTS ' + json.dumps(out))


def count_oracles(ctx):
    """R9 / R14 (+ R8, R13 oracles that need no large matrices)"""
    g = Gen(ctx.rng.fork('counts'))
    quick = ctx.tier == 'quick'
    for size in ['small'] * (4 if quick else 30) + ['medium'] * (2 if quick else 12) + ['big'] * (2 if quick else 12) + \
            ['huge'] * (1 if quick else 3):
        case = g.index_case(size)
        run_oracle(ctx, 'robust.index', case)
        ctx.branch('oracle:R9:index-forms:' + size)
        if case['K'] > 256:
            ctx.branch('oracle:R14:users>256:row-bookkeeping')
    for i in range(6 if quick else 40):
        case = g.bd_case() if i % 3 == 0 else g.ext_case(metric=METRICS[i % len(METRICS)])
        case.pop('cov_scale', None)
        run_oracle(ctx, 'robust.forms', case)
        ctx.branch('oracle:R8:argument-forms')
        run_oracle(ctx, 'robust.derived', case)
        ctx.branch('oracle:R13:derived-objects')
    # many users: everything after the null spaces (cheap), and one / a few complete methods
    pairs = []
    off = ctx.seed + (0 if quick else 3)
    for i in range(2 if quick else 10):
        variant, method, metric = LARGE_PLAN[(off + i) % len(LARGE_PLAN)]
        shape = Gen.BIG[(off + i) % len(Gen.BIG)]
        case = g.large_case(variant, shape, method or 'nowf', metric)
        pairs.append(('robust.large-downstream', case))
        ctx.branch('oracle:R14:users>256:downstream')
    for i in range(1 if quick else 6):
        variant, method, metric = LARGE_PLAN[(off + 5 * i + 1) % len(LARGE_PLAN)] if not quick else LARGE_PLAN[ctx.seed % len(LARGE_PLAN)]
        shape = [(258, 1), (260, 1), (300, 1), (257, 1)][(ctx.seed + i) % 4]
        pairs.append(('robust.large', g.large_case(variant, shape, method or 'nowf', metric)))
        ctx.branch('oracle:R14:users>256:whole-method')
    # many antennas per user (indices above 256 inside one user's block)
    pairs.append(('robust.large', g.large_case(['bd', 'white', 'enh'][ctx.seed % 3], (2, 257 + ctx.seed % 2),
                                               ['nowf', 'wf'][ctx.seed % 2], 'fixed')))
    ctx.branch('oracle:R14:antennas>256')
    run_isolated(ctx, pairs)


def corr_index(ctx, drv):
    """R9 / R14: the rows `_get_tilde_channel` / `_get_sub_channel` select (read off a marker matrix) against the
    model's `tildeIdx` / `subIdx`, up to 2^16 + 1 users and for every integer form of the index"""
    bd, _, _ = _impl()
    g = Gen(ctx.rng.fork('corr-index'))
    quick = ctx.tier == 'quick'
    lines, judges = [], []
    for size in ['small'] * 3 + ['medium'] * 2 + ['big'] * (2 if quick else 6) + ['huge']:
        case = g.index_case(size)
        K, N = case['K'], case['N']
        o = bd.BlockDiagonalizer(typed(case, 'K', K), 1.0, 1.0)
        m = marker_matrix(K, N)
        users = case['users'] if size != 'big' or quick else list(range(K))
        for u in users:
            forms = index_forms(u)
            uv = forms[(u * 7 + 1) % len(forms)][1] if case['forms'] else u
            try:
                got_t = o._get_tilde_channel(m, uv)[:, 0].astype(int).tolist()
                got_s = o._get_sub_channel(m, uv)[:, 0].astype(int).tolist()
            except Exception as e:
                ctx.tie_broken('correspondence', 'exception:_get_tilde_channel', '%s: %s' % (type(e).__name__, e), case)
                run_oracle(ctx, 'robust.index', case)
                break
            lines.append('tidx %d %d %d' % (K, N, u))
            judges.append(('_get_tilde_channel.rows', {'K': K, 'N': N, 'user': u, 'index_type': type(uv).__name__}, got_t))
            lines.append('sidx %d %d %d' % (K, N, u))
            judges.append(('_get_sub_channel.rows', {'K': K, 'N': N, 'user': u, 'index_type': type(uv).__name__}, got_s))
        coll = case['collections'][0]['users']
        try:
            got = o._get_sub_channel(m, np.array(coll))[:, 0].astype(int).tolist()
            lines.append('sidx %d %d %s' % (K, N, ','.join(str(x) for x in coll)))
            judges.append(('_get_sub_channel.rows', {'K': K, 'N': N, 'users': coll}, got))
        except Exception as e:
            ctx.tie_broken('correspondence', 'exception:_get_sub_channel', '%s: %s' % (type(e).__name__, e), case)
        ctx.branch('corr:R9:index-forms:' + size)
        if K > 256:
            ctx.branch('corr:R14:users>256:row-bookkeeping')
    out = drv.ask(lines)
    for reply, (name, case, got) in zip(out, judges):
        ctx.corr(name, case, hashlib_rows(got), hashlib_rows([int(x) for x in reply.split(',')] if reply and reply[0].isdigit() else reply),
                 key=(name, case.get('K'), case.get('N'), case.get('user', -1), tuple(case.get('users', []))))


def hashlib_rows(rows):
    if not isinstance(rows, list):
        return str(rows)
    return '%d rows, first %s last %s, sha1 %s' % (len(rows), rows[:3], rows[-3:],
                                                   core.hashlib.sha1(','.join(map(str, rows)).encode()).hexdigest()[:12])


ROBUST_BRANCHES = [
    'oracle:R1:scalar:narrow-int', 'oracle:R1:scalar:float16/32', 'oracle:R1:array:integer', 'oracle:R1:array:narrow-float',
    'oracle:R2:layout', 'oracle:R2:0d-scalar', 'oracle:R3:immutability', 'oracle:R4:rejected-calls', 'oracle:R5:iPu=0',
    'oracle:R5:K=1', 'oracle:R5:noise-changed', 'oracle:R5:zero-pe', 'oracle:R5:zero-noise', 'oracle:R7:shared-channel',
    'oracle:R7:long-lived:bd', 'oracle:R7:long-lived:white', 'oracle:R7:long-lived:enh',
    'oracle:R16:argument-buffer-refilled-in-place', 'corr:R16:argument-buffer-refilled-in-place',
    'corr:R1:scalar:narrow-int', 'corr:R1:array:integer', 'corr:R2:layout', 'corr:R5:zero-pe', 'corr:R5:zero-noise',
    'corr:R7:long-lived:bd', 'corr:R7:long-lived:white', 'corr:R7:long-lived:enh', 'corr:metric-setter-histories',
    'scale:1e-12', 'scale:1e+12',
    # R8 - R14
    'oracle:R8:argument-forms', 'oracle:R8:constructor-forms', 'oracle:R9:index-forms:small', 'oracle:R9:index-forms:big',
    'oracle:R9:index-forms:huge', 'oracle:R9:index-forms:medium', 'oracle:R10:count-collections', 'oracle:R12:dict-order', 'oracle:R13:derived-objects',
    'oracle:R14:users>256:row-bookkeeping', 'oracle:R14:users>256:downstream', 'oracle:R14:users>256:whole-method',
    'oracle:R14:antennas>256', 'corr:R8:constructor-forms', 'corr:R9:index-forms:big', 'corr:R9:index-forms:huge',
    'corr:R10:count-collections', 'corr:R12:dict-order', 'corr:R13:derived-objects', 'corr:R14:users>256:row-bookkeeping',
]


def check(ctx):
    ctx.rule = ('K in 2..4 users x N in 1..4 antennas per user (K.N <= 16; N >= 2 with external interference), square '
                'full-rank channels (cond <= 1e4) drawn gaussian / real / Gaussian-integer / per-user path loss / '
                'prescribed condition number, times an overall scale in {1e-12,1e-9,1e-7,1e-6,1e-4,1,1e3,1e6,1e12} (noise following '
                'with scale^2 or not; interferer scaled or not); iPu in 1e-2..1e2, noise 1e-4..10 (low-SNR cases so that water-filling '
                'drops streams); external interference of rank 1-2 (one or two sources), pe 1e-2..1e2; all five '
                'stream-reduction metrics, every num_streams; robustness classes R1-R7 (element types, layouts, aliasing, '
                'rejected calls, zero / boundary values, scale 1e-12..1e12, long-lived and shared objects); non-trivial = distinct (method, K, N, generator, case index, '
                'compared quantity)')
    quick = ctx.tier == 'quick'
    scale = 1 if quick else 20
    core.prove(ctx, MODULE, generated=[], drivers=[DRIVER], scratch=ctx.scratch)
    ctx.required_branches = ['corr:bd', 'corr:white'] + ['corr:enh-' + m for m in METRICS] + \
        ['wf:zero-power-streams', 'wf:all-streams-powered', 'red:interference-free', 'red:interference-remains',
         'size:K2', 'size:K3', 'size:K4', 'size:N1', 'size:N2', 'size:N3', 'size:N4'] + \
        ['scale:%g' % c for c in Gen.SCALES] + [b for b in ROBUST_BRANCHES if not b.startswith('scale:')]
    try:
        correspondence(ctx, 40 * scale, 20 * scale, 50 * scale)
    except core.Infra as e:
        if not ctx.broken:
            raise
        ctx.notes.append('correspondence skipped: %s' % e)
        ctx.required_branches = []
    except Exception as e:      # (on a changed tree) never exit 2: record, then let the oracles find the input
        import traceback
        ctx.tie_broken('correspondence', 'harness-exception:correspondence', traceback.format_exc()[-1500:])
        ctx.required_branches = []
    for stage in (lambda: oracles(ctx, 60 * scale, 100 * scale), lambda: robust_oracles(ctx, 48 * (1 if quick else 8)),
                  lambda: count_oracles(ctx)):
        try:
            stage()
        except core.Infra:
            raise
        except Exception as e:
            import traceback
            ctx.tie_broken('correspondence', 'harness-exception:oracles', traceback.format_exc()[-1500:])
            ctx.required_branches = []


def search(ctx):
    """deeper failing-input search, used when a proof / correspondence broke"""
    before = len(ctx.failures)
    for _ in range(4):
        oracles(ctx, 150, 250)
        robust_oracles(ctx, 100)
        if len(ctx.failures) > before:
            return


if __name__ == '__main__':
    from harness.props import c09 as _self      # (the functions must live in the importable module)
    _self.isolated_main(sys.argv[1])
