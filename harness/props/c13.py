"""C13 — path-loss and antenna-gain models (DESIGN.md §5 C13).

Tie to source: Generated/C13Constants.lean (every formula, literal, setter guard
and decision ladder of pathloss.py / antennagain.py / the dB conversions) is
re-emitted by harness/gen/c13.py on every run; the object / setter machines,
negative-loss policy and scalar-array dispatch are the hand model
Model/C13.lean, tied by the seeded correspondence below (model at Float).
Oracles are first-principles checks on the real code: they never evaluate the
path-loss formulas themselves (order relations, round trips, 10^(-dB/10),
history independence against a freshly constructed object, the Friis formula).
"""
import math
import warnings

import numpy as np

from harness import core

MODULE = 'PyPhysim.Properties.C13'
DRIVER = 'drv_c13'
CLAIM = {
    'technique': 'Lean 4 theorems over the reals about formulas regenerated from the source (log/exp algebra, '
                 'setter-machine induction, interval enclosure of log10(c/4pi)) + Float correspondence of the '
                 'compiled model against the code',
    'text': 'Every numeric formula, literal, setter guard and area-type ladder of pathloss.py, antennagain.py and '
            'dB2Linear/linear2dB is re-translated into Lean on every run. Over the reals (log10 = Real.logb 10, '
            '10**x = Real.rpow) the kernel checks, for General/3GPP/free-space/METIS-PS7 (LOS, NLOS, any wall count)/'
            'Okumura-Hata (all area types), every positive distance (scalar and array) and every setter history: loss '
            'non-decreasing in distance; linear value = 10^(-dB/10) in (0,1]; which_distance(_dB) two-sided inverse of '
            'calc_path_loss(_dB) wherever offered; negative loss raises or clamps to exactly 0 dB per flag; every '
            'free-space setter recomputes C (history independence); Okumura-Hata guards keep the parameters in range and '
            'the slope positive; free space with n = 2 within 0.01 dB of Friis (proved, not sampled); sector antenna '
            'gain peaks at boresight, is symmetric, decreasing in |angle| and floored at ant_gain*10^(-Am/10).',
    'note': 'Trusted beyond the common base: harness/gen/c13.py (float-expression fragment: Python float + - * / **2 '
            '10**x log10 np.minimum <-> the same operations on reals; if-ladders on strings/comparisons; setter-guard '
            'and setter-recompute patterns), and the seeded Float correspondence (98% of numeric outputs bit-identical, '
            'rest within 1e-9) for the hand-written object machines, negative-loss policy and scalar/array dispatch. '
            'Outside the theorems: binary64 rounding, numpy broadcasting, shadowing (random; switched off), non-positive '
            'or NaN distances in arrays. Monotonicity of the General family carries the guard n >= 0 and the inverse '
            'n != 0 (the setters accept any float; the negative-exponent counter-theorem is proved). '
            'Robustness classes: R1 (element types) and R2 (shape / memory layout) by THEOREM on the model side '
            '(array_query_positional, clamp_policy_commutes_with_reshape: array queries are positional functions of '
            'the logical values) and by correspondence + oracle on the code side (the same logical values as Python '
            'int, numpy int8..int64/uint8/uint16 and float32/float16 scalars, int16/int32/int64/uint8/uint16/float32 '
            'arrays, lists/tuples, 0-d, size-0, (N,1), (1,N), 2-D, 3-D, Fortran, transposed, reversed, strided and '
            'broadcast views, 2-D wall-count arrays; compared positionally with float64 scalar queries under both '
            'policies; complex dtypes do not apply to distances/angles). R3 (inputs unmodified, outputs fresh and not '
            'aliased) oracle only. R4 (rejected calls) by theorem for the Okumura-Hata setters '
            '(oh_rejected_setter_is_noop, oh_rejected_call_can_be_dropped), oracle for policy-raise / d<=0 / bad '
            'type / negative walls / not-offered / failed plot. R5 (boundary: d=1, zero-loss distance, exponent 0, '
            'guard bounds, single-element and empty arrays, angles 0/90/180/360/720) oracle + corpus; the model facts '
            'are instances of the general theorems. R6 (scale 1e-12..1e12, relative comparisons) oracle; the model '
            'statement is the affine-in-log10 form proved in generalDb_real etc. R7 (long-lived / shared objects) by '
            'theorem for setter histories (fs_C_invariant, fs_history_independent, oh_ranges_after_history), '
            'oracle for query purity, idempotent repeated setters and a second user of the same object. '
            'R8 (argument forms / equivalent entry points): positional vs keyword vs default vs explicit-default for '
            'every parameter, scalar = 0-d = length-1, constructor = setter = replacement path, wrappers forward '
            'num_walls / extra_args — oracle robust.argforms + alternating call forms in the correspondence; model side '
            'theorem equivalent_entry_points. R9 (counts): wall / sector count as int, numpy int8..uint64, intp, bool, '
            '0-d, values up to 1000 — oracle robust.counts + typed counts in the correspondence; theorem '
            'ps7_wall_count_linear (the count enters through its value only). R10 (heterogeneous lists): distance '
            'lists mixing int / float / float32 / int16 / float16 elements vs the promoted twin — oracle + '
            'correspondence (layout "mixed"); per-user lists-of-arrays do not exist in this API. R11 (non-mutating '
            'API): plot helpers (stub / recording / raising / Agg axes, stand-alone figure, list / 2-D / empty / '
            'too-small distances, extra_args, direct _impl call), every calc_* / which_* query, repr / str / latex / '
            'getters / helper methods, copy / deepcopy / pickle, with all four flag combinations and a non-default '
            'sigma — oracle robust.nonmutating, `plot` / `plotx` / `nop` / `flags` / `shadow` ops in the driver protocol '
            'and the histories; theorems plot_helper_restores_flags_in_source (pattern regenerated from the source), '
            'plot_leaves_object_unchanged, plot_calls_can_be_dropped, plot_outcome. R12 (container insertion order): '
            'does NOT apply — no dict / set / named containers in the path-loss and antenna API (setter ORDER '
            'independence is covered by fs_history_independent and the history oracle). R13 (derived objects): copies '
            'and pickle round trips changed further, parent changed after the child was derived — oracle robust.derived; '
            'in the model states are values, so independence holds by construction. R14 (counts 257 / 258 / 300 / 65537 '
            'distances, angles, wall-count arrays and setter calls): oracle robust.bigcount + three N >= 257 histories '
            'in every correspondence run; all theorems are for unbounded lists / histories. '
            'R15 (distinct values that are merely close — what an np.isclose / rounded-key / absolute-threshold shortcut '
            'would identify): the four places where the code compares or stores by value — the zero test of the '
            'negative-loss policy, the Okumura-Hata guards, the large-city fc > 300 switch, the setters that recompute a '
            'constant — and every query argument. Theorems policy_has_no_dead_zone (a loss of +eps dB is returned as it '
            'is, -eps raises / clamps, for every eps > 0), policy_identifies_no_two_losses, '
            'close_distances_are_distinguished (strictly monotone, hence injective, in the distance for every model), '
            'setter_takes_effect_for_every_new_value (= a fresh object with exactly that value; distinct carrier '
            'frequencies give distinct losses), oh_guards_and_switch_compare_exactly. Oracle robust.close (model-free: '
            'fresh object given exactly that value, getter returns the value set, LOCAL SENSITIVITY — the change between '
            'x and x(1+delta), delta = 1e-6 / 3e-9, is the change over a 1e-3 step scaled by the steps — for setter values, '
            'distances, losses, linear losses 1e-9..1e-15, angles, dB conversions; exactly representable losses of '
            '+-1e-9..+-5e-324 dB at d = 1; distances a relative 1e-6 / 1e-9 on either side of the zero-loss distance, margin '
            '>= 1e3 rounding errors from the code\'s own deterministic value; adjacent doubles at every guard bound and at '
            '300 MHz) + correspondence streams corr:R15:* (the compiled model is given exactly those values; tiny exact '
            'losses compared bit for bit, near-threshold losses relative to their own size). '
            'R16 (argument identity and buffer reuse): oracle robust.buffer — ONE ndarray (1-D, 2-D, column, 0-d, int64, '
            'float32, Fortran, strided) / list / extra_args dict refilled in place before each of 2-4 calls of every public '
            'entry point taking such an argument (calc_path_loss_dB, calc_path_loss, which_distance_dB, which_distance, '
            '_calc_deterministic_path_loss_dB, plot helper, PS7 with a wall-count array buffer, get_antenna_gain of both '
            'antenna classes, dB2Linear, linear2dB), for every object kind: the k-th answer equals bit for bit that of a '
            'freshly built object on a copy of the contents, the argument is unchanged, earlier answers do not change when '
            'the buffer is refilled or modified after the call, results share no memory, an equal-content copy gives the '
            'same answer; the same array as distance AND wall count, the same array through two methods / two objects, '
            'distance -> loss -> distance through one buffer. Correspondence corr:R16:* (every array op of a history uses one '
            'buffer per shape; the model receives the logical contents). Model side: caller machine CallerOp (refill / '
            'setter / call), theorems caller_earlier_answers_never_change, '
            'caller_answer_is_fresh_object_on_current_contents. An exception raised by the '
            'library while a history or oracle case is being prepared is reported as a failing input (call '
            'history.exception), never as a harness error. Defects '
            'fixed: PS7 which_distance_dB was `pass`; integer-dtype / list distances (reduced precision, TypeError '
            'in Okumura-Hata); failed plot left shadowing switched off; policy flags tested with `is True`; PS7 wall '
            'count overflowing in int8 / uint8; 0-d wall count with a scalar distance.',
}

PYERRS = ['ValueError', 'TypeError', 'IndexError', 'AssertionError', 'ZeroDivisionError', 'AttributeError',
          'KeyError', 'RuntimeError']
AREAS = ['open', 'suburban', 'medium city', 'large city']
C_LIGHT = 299792458.0


def _impl():
    from pyphysim.channels import pathloss, antennagain
    return pathloss, antennagain


def errname(e):
    for c in type(e).__mro__:
        if c.__name__ in PYERRS:
            return 'error:' + c.__name__
    return 'error:' + type(e).__name__


# ------------------------------------------------------------------ building objects
def build(case):
    """construct the object of a case and apply its setter history (`hist`);
    returns (object, list of setter outcomes)"""
    pl, ag = _impl()
    kind = case['kind']
    if kind == 'gen':
        o = pl.PathLossGeneral(*case['ctor'])
    elif kind == 'gpp':
        o = pl.PathLoss3GPP1()
    elif kind == 'fs':
        _FORM[0] += 1
        if not case.get('ctor'):
            o = pl.PathLossFreeSpace()
        elif _FORM[0] % 3 == 0:
            o = pl.PathLossFreeSpace(*case['ctor'])
        elif _FORM[0] % 3 == 1:
            o = pl.PathLossFreeSpace(fc=case['ctor'][1], n=case['ctor'][0])
        else:
            o = pl.PathLossFreeSpace(case['ctor'][0], fc=case['ctor'][1])
    elif kind == 'ps7':
        _FORM[0] += 1
        if not case.get('ctor'):
            o = pl.PathLossMetisPS7()
        else:
            o = pl.PathLossMetisPS7(*case['ctor']) if _FORM[0] % 2 else pl.PathLossMetisPS7(fc=case['ctor'][0])
    elif kind == 'oh':
        o = pl.PathLossOkomuraHata()
    elif kind == 'ant':
        o = ag.AntGainBS3GPP25996(*case['ctor'])
    else:
        raise ValueError(kind)
    outs = []
    for name, v in case.get('hist', []):
        outs.append(apply_setter(o, name, v))
    return o, outs


def apply_setter(o, name, v):
    try:
        if name == 'small':
            o.handle_small_distances_bool = bool(v)
        elif name == 'area':
            o.area_type = v
        else:
            setattr(o, name, v)
        return 'ok'
    except Exception as e:
        return errname(e)


_FORM = [0]     # R8: successive calls alternate between the positional and the keyword form of the arguments


def call_db(o, d, nw=None):
    _FORM[0] += 1
    with warnings.catch_warnings():
        warnings.simplefilter('ignore')
        if nw is None:
            return o.calc_path_loss_dB(d) if _FORM[0] % 2 else o.calc_path_loss_dB(d=d)
        return o.calc_path_loss_dB(d, num_walls=nw) if _FORM[0] % 2 else o.calc_path_loss_dB(num_walls=nw, d=d)


def call_lin(o, d, nw=None):
    _FORM[0] += 1
    with warnings.catch_warnings():
        warnings.simplefilter('ignore')
        if nw is None:
            return o.calc_path_loss(d) if _FORM[0] % 2 else o.calc_path_loss(d=d)
        return o.calc_path_loss(d, num_walls=nw) if _FORM[0] % 2 else o.calc_path_loss(num_walls=nw, d=d)


def det_db(o, d, nw=None):
    """deterministic loss before the policy (used only to locate the policy branch / margins)"""
    with warnings.catch_warnings():
        warnings.simplefilter('ignore')
        if nw is None:
            return o._calc_deterministic_path_loss_dB(d)
        return o._calc_deterministic_path_loss_dB(d, num_walls=nw)


# ------------------------------------------------------------------ correspondence
def tok_f(x):
    return core.f2s(float(x))


def tok_fl(xs):
    return ','.join(core.f2s(float(x)) for x in xs)


# ---- R1 / R2: the same logical values in another element type / memory layout / shape.
# An op may end with a dict `fmt`; the MODEL always receives the logical float64 values
# (its queries are functions of the logical value only), the CODE receives the typed / shaped object.
#   scalars : {'stype': 'int'|'int8'|'uint8'|'int16'|'uint16'|'int32'|'int64'|'float32'|'float16'}
#   arrays  : {'dtype': <numpy dtype name>, 'shape': [...], 'layout': 'C'|'F'|'T'|'rev'|'stride2'|'bcast'|
#              '0d'|'list'|'tuple', 'wcol': bool (PS7 walls given as a (k,1) column broadcast against (k,m))}
INT_TYPES = ('int8', 'uint8', 'int16', 'uint16', 'int32', 'int64')
NARROW_FLOATS = ('float32', 'float16')


def split_fmt(op):
    if isinstance(op[-1], dict):
        return list(op[:-1]), op[-1]
    return list(op), None


def logical_values(values, fmt):
    """flattened (C order) logical content of the array built by make_array"""
    if fmt and fmt.get('layout') == 'bcast':
        k = fmt['shape'][0]
        return list(values) * k
    return list(values)


def logical_shape(values, fmt):
    if not fmt:
        return (len(values),)
    if fmt.get('layout') == '0d':
        return ()
    if fmt.get('layout') in ('list', 'tuple', 'mixed'):
        return (len(values),)
    return tuple(fmt.get('shape', [len(values)]))


def logical_walls(nws, fmt, n):
    """PS7 array walls: per-entry wall counts in C order"""
    if fmt and fmt.get('wcol'):
        m = fmt['shape'][-1]
        return [w for w in nws for _ in range(m)]
    if fmt and fmt.get('layout') == 'bcast':
        return list(nws) * fmt['shape'][0]
    return list(nws)


COUNT_TYPES = ['int', 'int8', 'uint8', 'int16', 'uint16', 'int32', 'uint32', 'int64', 'uint64', 'intp', 'bool', '0d']


def count_fits(w, ct):
    if ct == 'bool':
        return w in (0, 1)
    if ct in ('int', '0d'):
        return True
    if w < 0 and ct.startswith('u'):
        return False
    info = np.iinfo(ct)
    return info.min <= w <= info.max


def make_count(w, fmt):
    """R9: the wall count / sector count as another integer type"""
    ct = (fmt or {}).get('wstype', 'int')
    if ct == 'int':
        return int(w)
    if ct == 'bool':
        return bool(w)
    if ct == '0d':
        return np.array(int(w))
    return np.dtype(ct).type(w)


def make_scalar(v, fmt):
    st = (fmt or {}).get('stype', 'float')
    if st == 'float':
        return float(v)
    if st == 'int':
        return int(v)
    return np.dtype(st).type(v)


def make_array(values, fmt, dtype_default='float64'):
    """the array object handed to the code; logical content = logical_values(values, fmt) in C order"""
    fmt = fmt or {}
    dt = fmt.get('dtype', dtype_default)
    lay = fmt.get('layout', 'C')
    base = np.array(values, dtype=float).astype(dt)
    if lay in ('list', 'tuple'):
        seq = [int(v) if dt.startswith(('int', 'uint')) else float(v) for v in values]
        return seq if lay == 'list' else tuple(seq)
    if lay == 'mixed':
        # R10: a list whose ELEMENTS differ in type (values are multiples of 0.5, exact in every type used)
        seq = []
        for i, v in enumerate(values):
            whole = float(v).is_integer()
            t = i % 6
            seq.append(int(v) if (t == 0 and whole) else np.float32(v) if t == 1 else
                       np.int16(v) if (t == 2 and whole and abs(v) < 3e4) else np.float64(v) if t == 3 else
                       np.float16(v) if (t == 4 and abs(v) <= 2048) else float(v))
        if fmt.get('first') == 'int' and values and float(values[0]).is_integer():
            seq[0] = int(values[0])
        return seq
    if lay == '0d':
        return np.array(base[0])
    shape = tuple(fmt.get('shape', [len(values)]))
    if lay == 'bcast':
        a = np.broadcast_to(base, shape)
        return a                       # read-only broadcast view, strides (0, itemsize)
    a = base.reshape(shape)
    if lay == 'C':
        return a
    if lay == 'F':
        return np.asfortranarray(a)
    if lay == 'T':
        return np.ascontiguousarray(a.T).T
    if lay == 'rev':
        return np.ascontiguousarray(a[::-1])[::-1]
    if lay == 'stride2':
        buf = np.ones(a.shape[:-1] + (2 * a.shape[-1],), dtype=a.dtype)
        buf[..., ::2] = a
        return buf[..., ::2]
    raise ValueError(lay)


_make_array, _make_walls = make_array, None      # (run_impl shadows the two names with buffer-aware versions)


def refill_buffer(bufs, values, fmt):
    """R16: the caller's preallocated array (or list) `fmt['buf']`, refilled in place with `values`"""
    dt = fmt.get('dtype', 'float64')
    lay = fmt.get('layout', 'C')
    shape = tuple(fmt.get('shape', [len(values)]))
    key = (fmt['buf'], lay, dt, shape)
    if lay == 'list':
        if key not in bufs:
            bufs[key] = []
        bufs[key][:] = [int(v) if dt.startswith(('int', 'uint')) else float(v) for v in values]
        return bufs[key]
    if key not in bufs:
        if lay == 'stride2':
            bufs[key] = np.zeros(shape[:-1] + (2 * shape[-1],), dtype=dt)[..., ::2]
        else:
            bufs[key] = np.zeros(shape, dtype=dt, order='F' if lay == 'F' else 'C')
    bufs[key][...] = np.array(values, dtype=float).astype(dt).reshape(shape)
    return bufs[key]


def fmt_tolerance(fmt):
    """(relative tolerance factor for dB values, for positive linear values)"""
    dt = (fmt or {}).get('dtype', (fmt or {}).get('stype', 'float64'))
    if dt == 'float32':
        return 5e-4, 5e-4          # intermediate terms of a few hundred dB cancel in float32
    if dt == 'float16':
        return 5e-3, 5e-2
    return 1e-9, 1e-9


def fmt_branches(ctx, fmt, prefix=''):
    if not fmt:
        return
    st = fmt.get('stype')
    if st:
        ctx.branch(prefix + ('R1:int-scalar' if st == 'int' else 'R1:npint-scalar' if st in INT_TYPES
                             else 'R1:narrow-float-scalar'))
        return
    dt, lay, shape = fmt.get('dtype', 'float64'), fmt.get('layout', 'C'), fmt.get('shape')
    if dt in INT_TYPES:
        ctx.branch(prefix + ('R1:uint8-array' if dt == 'uint8' else 'R1:int-array'))
    elif dt in NARROW_FLOATS:
        ctx.branch(prefix + 'R1:narrow-float-array')
    if lay == 'mixed':
        ctx.branch(prefix + 'R10:mixed-list')
    elif lay in ('list', 'tuple'):
        ctx.branch(prefix + 'R1:list-or-tuple')
    elif lay == '0d':
        ctx.branch(prefix + 'R2:0d')
    else:
        ctx.branch(prefix + {'C': 'R2:c-order', 'F': 'R2:fortran', 'T': 'R2:transposed', 'rev': 'R2:reversed',
                             'stride2': 'R2:strided', 'bcast': 'R2:broadcast'}[lay])
        if shape is not None:
            if 0 in shape:
                ctx.branch(prefix + 'R2:size0')
            elif len(shape) == 2 and shape[1] == 1:
                ctx.branch(prefix + 'R2:Nx1')
            elif len(shape) == 2 and shape[0] == 1:
                ctx.branch(prefix + 'R2:1xN')
            elif len(shape) == 2:
                ctx.branch(prefix + 'R2:2d')
            elif len(shape) >= 3:
                ctx.branch(prefix + 'R2:3d')


def case_line(case):
    kind = case['kind']
    head = {'gen': lambda: 'gen %s %s' % (tok_f(case['ctor'][0]), tok_f(case['ctor'][1])),
            'gpp': lambda: 'gpp',
            'fs': lambda: ('fs %s %s' % (tok_f(case['ctor'][0]), tok_f(case['ctor'][1]))) if case.get('ctor')
            else 'fsdefault',
            'ps7': lambda: ('ps7 %s' % tok_f(case['ctor'][0])) if case.get('ctor') else 'ps7default',
            'oh': lambda: 'oh',
            'ant': lambda: 'ant %d' % case['ctor'][0]}[kind]()
    toks = []
    for op in case['ops']:
        op, fmt = split_fmt(op)
        name = op[0]
        if name == 'small':
            toks.append('small:%d' % int(op[1]))
        elif name == 'shadow':
            toks.append('shadow:%d' % int(op[1]))
        elif name == 'flags':
            toks.append('flags')
        elif name == 'nop':
            toks.append('nop:' + op[1])
        elif name in ('plot', 'plotx'):
            toks.append('%s:%s' % (name, tok_fl(logical_values(op[1], fmt))))
        elif name == 'area':
            toks.append('area:' + op[1].replace(' ', '~'))
        elif name in ('n', 'fc', 'hbs', 'hms'):
            toks.append('%s:%s' % (name, tok_f(op[1])))
        elif kind == 'ps7' and name in ('db', 'lin', 'wdb', 'wl'):
            toks.append('%s:%d:%s' % (name, op[1], tok_f(op[2])))
        elif kind == 'ps7' and name in ('dba', 'wdba'):
            toks.append('%s:%d:%s' % (name, op[1], tok_fl(logical_values(op[2], fmt))))
        elif kind == 'ps7' and name == 'dbw':
            ds = logical_values(op[2], fmt)
            toks.append('dbw:%s:%s' % (','.join(str(w) for w in logical_walls(op[1], fmt, len(ds))), tok_fl(ds)))
        elif name in ('db', 'lin', 'wdb', 'wl', 'g'):
            toks.append('%s:%s' % (name, tok_f(op[1])))
        elif name in ('dba', 'lina', 'wdba', 'wla', 'ga'):
            toks.append('%s:%s' % (name, tok_fl(logical_values(op[1], fmt))))
        else:
            raise ValueError(op)
    return head + ' ' + ' '.join(toks)


def make_walls(nws, fmt):
    fmt = fmt or {}
    wdt = fmt.get('wdtype', 'int64')
    if fmt.get('wcol'):
        return np.array(nws, dtype=wdt).reshape(len(nws), 1)
    if fmt.get('layout') == 'bcast':
        return np.broadcast_to(np.array(nws, dtype=wdt), tuple(fmt['shape']))
    a = make_array(nws, {k: v for k, v in fmt.items() if k in ('shape', 'layout')}, 'int64')
    return a.astype(wdt) if fmt.get('layout', 'C') == 'C' else a


_make_walls = make_walls


# ---- public calls that are NOT setters (R7): plot helpers, representations, copies, getters, helper methods
class _Ax:
    """stand-in for a matplotlib axes (plot_deterministic_path_loss_in_dB only calls ax.plot)"""

    def plot(self, *a, **k):
        return None


class _AxRaises:
    """an axes object whose plot command fails"""

    def plot(self, *a, **k):
        raise ValueError('axes refuse to plot')


_AGG = {}


def agg_axes():
    """a real matplotlib axes on the Agg canvas (None when matplotlib is not importable)"""
    if 'ax' not in _AGG:
        try:
            import matplotlib
            matplotlib.use('Agg')
            import matplotlib.pyplot as plt
            _AGG['plt'] = plt
            _AGG['ax'] = plt.figure().add_subplot(111)
        except Exception:
            _AGG['ax'] = None
    ax = _AGG['ax']
    _AGG['uses'] = _AGG.get('uses', 0) + 1
    if ax is not None and _AGG['uses'] % 64 == 0:
        ax.cla()
    return ax


def flags_of(o):
    return 's%dh%d' % (int(bool(o.handle_small_distances_bool)), int(bool(o.use_shadow_bool)))


def do_plot(o, d, variant, raises=False, force_mpl=False):
    """one of the entry points / argument forms of the plot helper"""
    with warnings.catch_warnings():
        warnings.simplefilter('ignore')
        if raises:
            return o.plot_deterministic_path_loss_in_dB(d, ax=_AxRaises())
        v = variant % 5
        if v >= 3 and not force_mpl and (variant // 5) % 6:
            v = 0                      # matplotlib is slow: the real axes take part in a sixth of these calls
        if v == 0:
            return o.plot_deterministic_path_loss_in_dB(d, ax=_Ax())
        if v == 1:
            return o.plot_deterministic_path_loss_in_dB(d, _Ax(), {'label': 'curve', 'linewidth': 2})
        if v == 2:
            return o._plot_deterministic_path_loss_in_dB_impl(d, _Ax(), None, 'Km')
        if v == 3:
            ax = agg_axes()
            return o.plot_deterministic_path_loss_in_dB(d, ax=ax if ax is not None else _Ax())
        if agg_axes() is not None and np.size(d):
            r = o.plot_deterministic_path_loss_in_dB(d)        # stand-alone figure (plt.axes / plt.show on Agg)
            _AGG['plt'].close('all')
            _AGG.pop('ax', None)
            return r
        return o.plot_deterministic_path_loss_in_dB(d, ax=_Ax())


NOPS = ['repr', 'str', 'latex', 'type', 'getters', 'helpers', 'det', 'copy', 'deepcopy', 'pickle', 'vars']


def do_nop(o, name, kind):
    """a public call that must not change the object; copies REPLACE the object (the history goes on with the copy)"""
    import copy
    import pickle
    with warnings.catch_warnings():
        warnings.simplefilter('ignore')
        if name == 'repr':
            repr(o)
        elif name == 'str':
            str(o)
            format(o)
        elif name == 'latex':
            if hasattr(o, '_repr_latex_'):
                o._repr_latex_()
            if hasattr(o, '_get_latex_repr'):
                o._get_latex_repr()
            if hasattr(o, 'get_latex_repr'):
                o.get_latex_repr()
                o.get_latex_repr(0)
                o.get_latex_repr(3)
        elif name == 'type':
            o.type
            type(o)._TYPE
        elif name == 'getters':
            for a in ('n', 'fc', 'hbs', 'hms', 'area_type', 'sigma_shadow', 'use_shadow_bool',
                      'handle_small_distances_bool', 'type'):
                getattr(o, a, None)
        elif name == 'helpers':
            if hasattr(o, '_calculate_C_from_fc_and_n'):
                o._calculate_C_from_fc_and_n(2400.0, 3.0)
            if hasattr(o, '_calc_K'):
                o._calc_K()
                o._calc_mobile_antenna_height_correction_factor()
            if hasattr(o, '_calc_PS7_path_loss_dB_same_floor'):
                o._calc_PS7_path_loss_dB_same_floor(10.0, 2)
                o._calc_PS7_path_loss_dB_LOS_same_floor(np.array([3.0, 7.0]))
                o._calc_PS7_path_loss_dB_NLOS_same_floor(5.0, 1)
                o._which_distance_dB_LOS_same_floor(70.0)
                o._which_distance_dB_NLOS_same_floor(np.array([70.0]), 2)
        elif name == 'det':
            o._calc_deterministic_path_loss_dB(3.0)
            o._calc_deterministic_path_loss_dB(np.array([[2.0, 1e-9]]))
        elif name == 'copy':
            return copy.copy(o)
        elif name == 'deepcopy':
            return copy.deepcopy(o)
        elif name == 'pickle':
            return pickle.loads(pickle.dumps(o))
        elif name == 'vars':
            dict(vars(o))
            dir(o)
        else:
            raise ValueError(name)
    return o


def run_impl(case):
    """execute the ops of a case on the real code; one result per op:
    'ok' | 'error:<Name>' | float | [floats] | 'None' | 'shape:<got>!=<expected>'"""
    try:
        o, _ = build({'kind': case['kind'], 'ctor': case.get('ctor')})
    except Exception as e:
        return [errname(e)]
    kind = case['kind']
    res = []
    warnings.simplefilter('ignore')
    bufs = {}

    def make_array(values, fmt, dtype_default='float64'):
        # R16: ops marked {'buf': name} hand the code ONE array / list object per name, refilled in place
        if fmt and fmt.get('buf'):
            return refill_buffer(bufs, values, fmt)
        return _make_array(values, fmt, dtype_default)

    def make_walls(nws, fmt):
        if fmt and fmt.get('same'):
            return refill_buffer(bufs, nws, fmt)            # the SAME object as the distances
        if fmt and fmt.get('buf'):
            return refill_buffer(bufs, nws, dict(fmt, buf=fmt['buf'] + ':walls', dtype='int64'))
        return _make_walls(nws, fmt)
    for op in case['ops']:
        op, fmt = split_fmt(op)
        name = op[0]
        want_shape = None
        try:
            if name in ('small', 'area'):
                r = apply_setter(o, name, op[1])
            elif name == 'shadow':
                o.use_shadow_bool = bool(op[1])
                r = 'ok'
            elif name == 'flags':
                r = flags_of(o)
            elif name == 'nop':
                o = do_nop(o, op[1], kind)
                r = 'ok'
            elif name in ('plot', 'plotx'):
                do_plot(o, make_array(op[1], fmt), len(res), raises=(name == 'plotx'))
                r = 'ok'
            elif name in ('n', 'fc', 'hbs', 'hms'):
                r = apply_setter(o, name, make_scalar(op[1], fmt))
            elif kind == 'ps7' and name == 'db':
                r = call_db(o, make_scalar(op[2], fmt), make_count(op[1], fmt))
            elif kind == 'ps7' and name == 'lin':
                r = call_lin(o, make_scalar(op[2], fmt), make_count(op[1], fmt))
            elif kind == 'ps7' and name == 'dba':
                want_shape = logical_shape(op[2], fmt)
                r = call_db(o, make_array(op[2], fmt), make_count(op[1], fmt))
            elif kind == 'ps7' and name == 'dbw':
                want_shape = logical_shape(op[2], fmt)
                r = call_db(o, make_array(op[2], fmt), make_walls(op[1], fmt))
            elif kind == 'ps7' and name == 'wdb':
                wc = make_count(op[1], fmt)
                if op[1] == 0 and len(res) % 2 == 0 and not (fmt or {}).get('wstype'):
                    r = o.which_distance_dB(make_scalar(op[2], fmt))               # default wall count
                elif len(res) % 3 == 0:
                    r = o.which_distance_dB(make_scalar(op[2], fmt), wc)           # positional
                else:
                    r = o.which_distance_dB(PL=make_scalar(op[2], fmt), num_walls=wc)
            elif kind == 'ps7' and name == 'wdba':
                want_shape = logical_shape(op[2], fmt)
                r = o.which_distance_dB(make_array(op[2], fmt), num_walls=make_count(op[1], fmt))
            elif kind == 'ps7' and name == 'wl':
                wc = make_count(op[1], fmt)
                if op[1] == 0 and len(res) % 2 == 0 and not (fmt or {}).get('wstype'):
                    r = o.which_distance(make_scalar(op[2], fmt))
                else:
                    r = o.which_distance(pl=make_scalar(op[2], fmt), num_walls=wc) if len(res) % 3 \
                        else o.which_distance(make_scalar(op[2], fmt), num_walls=wc)
            elif name == 'db':
                r = call_db(o, make_scalar(op[1], fmt))
            elif name == 'dba':
                if fmt is None and kind in ('gen', 'gpp', 'fs') and len(op[1]) % 2 == 0:
                    arg = list(op[1])      # lists are accepted (the suite passes lists)
                else:
                    arg = make_array(op[1], fmt)
                want_shape = logical_shape(op[1], fmt)
                r = call_db(o, arg)
            elif name == 'lin':
                r = call_lin(o, make_scalar(op[1], fmt))
            elif name == 'lina':
                want_shape = logical_shape(op[1], fmt)
                r = call_lin(o, make_array(op[1], fmt))
            elif name == 'wdb':
                r = o.which_distance_dB(make_scalar(op[1], fmt))
            elif name == 'wdba':
                want_shape = logical_shape(op[1], fmt)
                r = o.which_distance_dB(make_array(op[1], fmt))
            elif name == 'wl':
                r = o.which_distance(make_scalar(op[1], fmt))
            elif name == 'wla':
                want_shape = logical_shape(op[1], fmt)
                r = o.which_distance(make_array(op[1], fmt))
            elif name == 'g':
                r = o.get_antenna_gain(make_scalar(op[1], fmt))
            elif name == 'ga':
                want_shape = logical_shape(op[1], fmt)
                r = o.get_antenna_gain(make_array(op[1], fmt))
            else:
                raise ValueError(op)
        except Exception as e:
            r = errname(e)
        if r is None:
            r = 'None'
        elif isinstance(r, str):
            pass
        elif want_shape is not None:
            got = tuple(np.shape(r))
            if got != tuple(want_shape):
                r = 'shape:%r!=%r' % (got, tuple(want_shape))
            elif np.asarray(r).dtype.kind != 'f':
                r = 'dtype:%s' % np.asarray(r).dtype
            else:
                r = [float(x) for x in np.asarray(r).ravel()]
        elif isinstance(r, np.ndarray):
            r = [float(x) for x in r.ravel()]
        else:
            r = float(r)
        res.append(r)
    return res


LINEAR_OPS = {'lin', 'lina', 'g', 'ga', 'wdb', 'wdba', 'wl', 'wla'}   # positive quantities: relative tolerance


def out_of_narrow_range(e, fmt):
    """the exact answer is not representable as a normal number of the (narrow float) input type: the result
    legitimately overflows / underflows there"""
    dt = (fmt or {}).get('dtype', (fmt or {}).get('stype', 'float64'))
    if dt == 'float32':
        return abs(e) > 1e37 or (e != 0.0 and abs(e) < 1e-36)
    if dt == 'float16':
        return abs(e) > 6e4 or (e != 0.0 and abs(e) < 1e-4)
    return False


def num_close(a, b, relative, tol=1e-9):
    if a == b:
        return True
    if math.isnan(a) or math.isnan(b) or math.isinf(a) or math.isinf(b):
        return False
    if relative:
        return abs(a - b) <= tol * max(abs(a), abs(b))
    return abs(a - b) <= tol * max(1.0, abs(a), abs(b))


def compare(case, impl, model_line):
    """returns (agree, impl_repr, model_repr, n_exact, n_num)"""
    if len(impl) == 1 and len(case['ops']) != 1 and isinstance(impl[0], str) and impl[0].startswith('error'):
        return impl[0] == model_line, impl[0], model_line, 0, 0
    toks = model_line.split(' ')
    if len(toks) != len(impl):
        return False, repr(impl), model_line, 0, 0
    exact = nums = 0
    for op, a, t in zip(case['ops'], impl, toks):
        op, fmt = split_fmt(op)
        rel = op[0] in LINEAR_OPS
        tol = fmt_tolerance(fmt)[1 if rel else 0]
        if fmt and fmt.get('exact'):
            rel, tol = True, 0.0          # R15: exactly representable tiny losses: bit for bit
        elif fmt and fmt.get('reltol'):
            rel, tol = True, fmt['reltol']    # R15: a tiny loss next to the threshold: relative to ITS size
        if isinstance(a, str):
            ok = (a == t)
        elif isinstance(a, float):
            ok = t.startswith('f') and ',' not in t and (num_close(a, core.s2f(t), rel, tol)
                                                         or out_of_narrow_range(core.s2f(t), fmt))
            nums += 1
            exact += int(ok and core.f2s(a) == t)
        else:
            parts = t.split(',') if t else []
            ok = (len(parts) == len(a) and all(p.startswith('f') for p in parts)
                  and all(num_close(x, core.s2f(p), rel, tol) or out_of_narrow_range(core.s2f(p), fmt)
                          for x, p in zip(a, parts)))
            nums += len(a)
            exact += sum(1 for x, p in zip(a, parts) if ok and core.f2s(x) == p)
        if not ok:
            return False, '%s %s -> %r' % (op, fmt or '', a), '%s -> %s' % (op[0], decode(t)), exact, nums
    return True, 'agree', 'agree', exact, nums


def decode(t):
    try:
        return ','.join(repr(core.s2f(p)) if p.startswith('f') else p for p in t.split(','))
    except Exception:
        return t


# ------------------------------------------------------------------ generators
def logu(rng, lo, hi):
    """log-uniform in [10^lo, 10^hi]"""
    return 10.0 ** rng.uniform(lo, hi)


def nice(rng, x):
    """sometimes round to few digits so that literals like 1.2, 900.0 occur"""
    if rng.chance(0.3):
        return float('%.3g' % x)
    return x


def gen_dist(rng, lo=-3.0, hi=3.0):
    return nice(rng, logu(rng, lo, hi))


def gen_dists(rng, lo=-3.0, hi=3.0):
    return [gen_dist(rng, lo, hi) for _ in range(rng.randint(1, 6))]


def safe_scalar(o, d, nw=None):
    """distance whose deterministic loss is not within 1e-6 dB of the policy threshold 0"""
    v = det_db(o, d, nw)
    return abs(float(v)) > 1e-6


def nonmut_block(ctx, rng, kind, lo, hi, prefix='corr:'):
    """ops: put the two policy flags into a chosen combination (mostly DIFFERENT from each other and from
    the defaults), make 1-4 public calls that are not setters with `flags` observations in between, then switch
    shadowing off again (numeric queries are only comparable without the random shadowing)"""
    small, shadow = rng.choice([(1, 0), (1, 0), (0, 1), (0, 1), (1, 1), (0, 0)])
    ops = [['small', small], ['shadow', shadow], ['flags']]
    ctx.branch(prefix + 'R7:flags=s%dh%d' % (small, shadow))
    for _ in range(rng.randint(1, 4)):
        r = rng.below(10)
        if r < 5:
            ds = [gen_dist(rng, lo, hi) for _ in range(rng.randint(1, 4))]
            if rng.chance(0.4):
                ds[rng.below(len(ds))] = 1e-30           # far below every model's 0 dB distance
                ctx.branch(prefix + 'R7:plot-too-small')
            fmt = None
            if rng.chance(0.3):
                fmt = {'dtype': 'float64', 'layout': rng.choice(['list', 'tuple'])}
            ops.append(['plot', ds] + ([fmt] if fmt else []))
            ctx.branch(prefix + 'R7:plot')
        elif r < 6:
            ops.append(['plotx', [gen_dist(rng, lo, hi) for _ in range(rng.randint(1, 3))]])
            ctx.branch(prefix + 'R7:plot-axes-raise')
        else:
            name = rng.choice(NOPS)
            ops.append(['nop', name])
            ctx.branch(prefix + 'R7:nop:' + ('copy' if name in ('copy', 'deepcopy', 'pickle') else 'call'))
        ops.append(['flags'])
    ops += [['shadow', 0], ['flags']]
    return ops, small


def fs_setter(rng, typed=False):
    r = rng.below(3)
    if r == 0:
        if typed and rng.chance(0.2):
            return ['n', float(rng.randint(1, 5)), {'stype': rng.choice(['int', 'int8', 'int32', 'int64'])}]
        return ['n', nice(rng, rng.uniform(0.3, 6.0))]
    if r == 1:
        if typed and rng.chance(0.2):
            return ['fc', float(rng.randint(1, 30000)), {'stype': rng.choice(['int', 'int16', 'int64', 'uint16'])}]
        return ['fc', nice(rng, logu(rng, 0.0, 5.0))]
    return ['small', rng.below(2)]


def oh_setter(rng):
    r = rng.below(6)
    bad = rng.chance(0.2)
    if r == 0:
        v = rng.choice([150.0, 1500.0, 300.0, 300.5, 299.0]) if rng.chance(0.25) else (
            rng.uniform(150.0, 300.0) if rng.chance(0.3) else rng.uniform(150.0, 1500.0))
        if bad:
            v = rng.choice([149.999, 1500.001, 10.0, 3000.0, rng.uniform(1.0, 149.0), rng.uniform(1501.0, 9000.0)])
        return ['fc', v]
    if r == 1:
        v = rng.choice([30.0, 200.0]) if rng.chance(0.2) else rng.uniform(30.0, 200.0)
        if bad:
            v = rng.choice([29.999, 200.001, 1.0, 1e8, rng.uniform(0.1, 29.0), rng.uniform(201.0, 900.0)])
        return ['hbs', v]
    if r == 2:
        v = rng.choice([1.0, 10.0]) if rng.chance(0.2) else rng.uniform(1.0, 10.0)
        if bad:
            v = rng.choice([0.999, 10.001, rng.uniform(0.01, 0.99), rng.uniform(10.1, 90.0)])
        return ['hms', v]
    if r in (3, 4):
        return ['area', rng.choice(['rural', 'Open', 'largecity', 'large_city', 'sub urban']) if bad else rng.choice(AREAS)]
    return ['small', rng.below(2)]


def gen_case_general(ctx, rng, kind, hist_len):
    """gen / gpp / fs: setters interleaved with queries"""
    pl, _ = _impl()
    if kind == 'gen':
        ctor = [nice(rng, rng.uniform(0.3, 6.0)), nice(rng, rng.uniform(-20.0, 150.0))]
    elif kind == 'fs':
        ctor = None if rng.chance(0.3) else [nice(rng, rng.uniform(0.3, 6.0)), nice(rng, logu(rng, 0.0, 5.0))]
    else:
        ctor = None
    case = {'kind': kind, 'ctor': ctor, 'ops': []}
    _CURRENT.append(case)
    o, _ = build(case)
    n_ops = rng.randint(2, hist_len)
    for _ in range(n_ops):
        r = rng.below(10)
        if r < 4:
            op = fs_setter(rng, typed=True) if kind == 'fs' else ['small', rng.below(2)]
            apply_setter(o, op[0], make_scalar(op[1], op[2]) if len(op) == 3 else op[1])
            fmt_branches(ctx, op[2] if len(op) == 3 else None, 'corr:')
            ctx.branch('setter:%s.%s' % (kind, op[0]))
        elif r < 6:
            small = rng.chance(0.25)
            d = gen_dist(rng, -9.0, -4.0) if small else gen_dist(rng)
            fmt = None
            if rng.chance(0.2):
                fmt = rand_scalar_fmt(rng, 'dist')
                d = conv_value(10.0 ** rng.uniform(0.0, 2.0) if fmt['stype'] not in NARROW_FLOATS else d,
                               fmt['stype'], 'dist')
            if not safe_values(o, [d], None, {'dtype': (fmt or {}).get('stype', 'float64')}):
                continue
            op = [rng.choice(['db', 'lin']), d] + ([fmt] if fmt else [])
            fmt_branches(ctx, fmt, 'corr:')
        elif r < 8:
            if rng.chance(0.45):
                tv = typed_dists(rng, o, None, -3.0, 3.0)
                if tv is None:
                    continue
                op = [rng.choice(['dba', 'lina']), tv[0], tv[1]]
                fmt_branches(ctx, tv[1], 'corr:')
            else:
                ds = gen_dists(rng)
                if rng.chance(0.3):
                    ds[rng.below(len(ds))] = gen_dist(rng, -9.0, -4.0)
                if not all(safe_scalar(o, d) for d in ds):
                    continue
                op = [rng.choice(['dba', 'lina']), ds]
        elif r == 8:
            if rng.chance(0.5):
                op = [rng.choice(['wdb', 'wdba']), None]
                vals = [nice(rng, rng.uniform(0.0, 200.0)) for _ in range(rng.randint(1, 4))]
                op[1] = vals[0] if op[0] == 'wdb' else vals
                if op[0] == 'wdba' and rng.chance(0.5):
                    n, fmt = rand_array_fmt(rng, 'db', allow_seq=False)
                    op = ['wdba', [conv_value(rng.uniform(0.0, 200.0), fmt['dtype'], 'db') for _ in range(n)], fmt]
                    fmt_branches(ctx, fmt, 'corr:')
                elif op[0] == 'wdb' and rng.chance(0.3):
                    fmt = rand_scalar_fmt(rng, 'db')
                    op = ['wdb', conv_value(rng.uniform(0.0, 200.0), fmt['stype'], 'db'), fmt]
                    fmt_branches(ctx, fmt, 'corr:')
            else:
                op = [rng.choice(['wl', 'wla']), None]
                vals = [nice(rng, logu(rng, -18.0, 0.0)) for _ in range(rng.randint(1, 4))]
                op[1] = vals[0] if op[0] == 'wl' else vals
        else:
            blk, sm = nonmut_block(ctx, rng, kind, -3.0, 3.0)
            apply_setter(o, 'small', sm)
            case['ops'] += blk
            continue
        case['ops'].append(op)
    return case


def gen_case_ps7(ctx, rng, hist_len):
    ctor = None if rng.chance(0.3) else [nice(rng, logu(rng, 2.0, 5.0))]
    case = {'kind': 'ps7', 'ctor': ctor, 'ops': []}
    _CURRENT.append(case)
    o, _ = build(case)
    for _ in range(rng.randint(2, hist_len)):
        r = rng.below(10)
        if r == 2 and rng.chance(0.7):
            blk, sm = nonmut_block(ctx, rng, 'ps7', -1.0, 5.0)
            apply_setter(o, 'small', sm)
            case['ops'] += blk
            continue
        if r < 3:
            op = ['fc', nice(rng, logu(rng, 2.0, 5.0))] if rng.chance(0.6) else ['small', rng.below(2)]
            apply_setter(o, op[0], op[1])
            ctx.branch('setter:ps7.' + op[0])
        elif r < 6:
            nw = -rng.randint(1, 3) if rng.chance(0.08) else (0 if rng.chance(0.4) else rng.randint(1, 6))
            wfmt = None
            if nw >= 0 and rng.chance(0.3):
                if rng.chance(0.3):
                    nw = rng.choice([27, 53, 100, 127, 128, 255, 256, 257, 300])
                ct = rng.choice([t for t in COUNT_TYPES if count_fits(nw, t)])
                wfmt = {'wstype': ct}
                ctx.branch('corr:R9:count-type')
                if nw >= 256:
                    ctx.branch('corr:R9:count>=256')
            d = gen_dist(rng, -9.0, -3.0) if rng.chance(0.2) else gen_dist(rng, -1.0, 5.0)
            if nw >= 0 and not safe_scalar(o, d, nw):
                continue
            op = [rng.choice(['db', 'lin']), nw, d] + ([wfmt] if wfmt else [])
            ctx.branch('ps7:' + ('negative-walls' if nw < 0 else 'los' if nw == 0 else 'nlos'))
        elif r == 6 and rng.chance(0.6):
            nw = -rng.randint(1, 3) if rng.chance(0.08) else (0 if rng.chance(0.4) else rng.randint(1, 6))
            k = rng.below(3)
            if k == 0:
                op = ['wdb', nw, nice(rng, rng.uniform(0.0, 250.0))]
            elif k == 1:
                op = ['wdba', nw, [nice(rng, rng.uniform(0.0, 250.0)) for _ in range(rng.randint(1, 4))]]
            else:
                op = ['wl', nw, nice(rng, logu(rng, -20.0, 0.0))]
            if nw >= 0 and rng.chance(0.3):
                if rng.chance(0.3):
                    op[1] = nw = rng.choice([27, 53, 100, 255, 257, 300])
                op.append({'wstype': rng.choice([t for t in COUNT_TYPES if count_fits(nw, t)])})
                ctx.branch('corr:R9:count-type')
            ctx.branch('ps7:which_distance')
        elif r < 8:
            nw = 0 if rng.chance(0.4) else rng.randint(1, 6)
            if rng.chance(0.45):
                tv = typed_dists(rng, o, nw, -1.0, 5.0)
                if tv is None:
                    continue
                op = ['dba', nw, tv[0], tv[1]]
                fmt_branches(ctx, tv[1], 'corr:')
            else:
                ds = gen_dists(rng, -1.0, 5.0)
                if rng.chance(0.25):
                    ds[rng.below(len(ds))] = gen_dist(rng, -9.0, -3.0)
                if not all(safe_scalar(o, d, nw) for d in ds):
                    continue
                op = ['dba', nw, ds]
        else:
            if rng.chance(0.5):
                k, m = rng.choice([1, 2, 3]), rng.choice([1, 2, 3, 4])
                wcol = rng.chance(0.5)
                ds = [gen_dist(rng, -9.0, -3.0) if rng.chance(0.25) else gen_dist(rng, -1.0, 5.0) for _ in range(k * m)]
                nws = [0 if rng.chance(0.4) else rng.randint(1, 6) for _ in range(k if wcol else k * m)]
                fmt = {'dtype': 'float64', 'shape': [k, m], 'layout': rng.choice(['C', 'F', 'T']), 'wcol': wcol,
                       'wdtype': rng.choice(['int64', 'int32', 'uint8', 'int8'])}
                if not safe_values(o, ds, logical_walls(nws, fmt, k * m), fmt):
                    continue
                op = ['dbw', nws, ds, fmt]
                fmt_branches(ctx, fmt, 'corr:')
            else:
                ds = gen_dists(rng, -1.0, 5.0)
                nws = [0 if rng.chance(0.4) else rng.randint(1, 6) for _ in ds]
                if not all(safe_scalar(o, d, w) for d, w in zip(ds, nws)):
                    continue
                op = ['dbw', nws, ds]
            ctx.branch('ps7:array-walls')
        case['ops'].append(op)
    return case


def gen_case_oh(ctx, rng, hist_len):
    case = {'kind': 'oh', 'ctor': None, 'ops': []}
    _CURRENT.append(case)
    o, _ = build(case)
    first = True
    for _ in range(rng.randint(2, hist_len)):
        r = rng.below(10)
        if first and rng.chance(0.7):
            first = False
            op = ['area', rng.choice(AREAS)]
            out = apply_setter(o, op[0], op[1])
            ctx.branch('setter:oh.area:accepted')
        elif r < 5:
            op = oh_setter(rng)
            out = apply_setter(o, op[0], op[1])
            ctx.branch('setter:oh.%s:%s' % (op[0], 'accepted' if out == 'ok' else 'rejected'))
        elif r < 7:
            d = gen_dist(rng, -9.0, -5.0) if rng.chance(0.2) else gen_dist(rng)
            if not safe_scalar(o, d):
                continue
            op = [rng.choice(['db', 'lin']), d]
            ctx.branch('oh:area=' + o.area_type)
            if o.area_type == 'large city':
                ctx.branch('oh:large-city:' + ('fc>300' if o.fc > 300 else 'fc<=300'))
        elif r < 9:
            if rng.chance(0.45):
                tv = typed_dists(rng, o, None, -3.0, 3.0)
                if tv is None:
                    continue
                op = ['dba', tv[0], tv[1]]
                fmt_branches(ctx, tv[1], 'corr:')
            else:
                ds = gen_dists(rng)
                if rng.chance(0.25):
                    ds[rng.below(len(ds))] = gen_dist(rng, -9.0, -5.0)
                if not all(safe_scalar(o, d) for d in ds):
                    continue
                op = ['dba', ds]
        elif rng.chance(0.5):
            blk, sm = nonmut_block(ctx, rng, 'oh', -3.0, 3.0)
            apply_setter(o, 'small', sm)
            case['ops'] += blk
            continue
        else:
            op = ['wdb', nice(rng, rng.uniform(50.0, 200.0))]
        case['ops'].append(op)
    return case


def gen_case_ant(ctx, rng):
    k = rng.choice([3, 6, 3, 6, 3, 6, 1, 4, 9, 0])
    case = {'kind': 'ant', 'ctor': [k], 'ops': []}
    for _ in range(rng.randint(1, 6)):
        if rng.chance(0.6):
            a = rng.choice([0.0, 180.0, -180.0, 70.0, 35.0]) if rng.chance(0.2) else nice(rng, rng.uniform(-180.0, 180.0))
            case['ops'].append(['g', a])
        elif rng.chance(0.5):
            n, fmt = rand_array_fmt(rng, 'angle', allow_seq=False)
            vals = [conv_value(rng.uniform(-180.0, 180.0), fmt['dtype'], 'angle') for _ in range(n)]
            if fmt['dtype'] == 'uint8':
                vals = [abs(v) for v in vals]
            if fmt['dtype'] == 'int8':
                vals = [max(-127.0, min(127.0, v)) for v in vals]
            case['ops'].append(['ga', vals, fmt])
            fmt_branches(ctx, fmt, 'corr:')
        else:
            case['ops'].append(['ga', [nice(rng, rng.uniform(-180.0, 180.0)) for _ in range(rng.randint(1, 5))]])
    return case


def policy_branches(ctx, case, impl):
    for op, r in zip(case['ops'], impl):
        if op[0] in ('db', 'lin') and r == 'error:RuntimeError':
            ctx.branch('policy:raise-scalar')
        elif op[0] in ('dba', 'lina', 'dbw') and r == 'error:RuntimeError':
            ctx.branch('policy:raise-array')
        elif op[0] == 'db' and isinstance(r, float) and r == 0.0:
            ctx.branch('policy:clamp-scalar')
        elif op[0] in ('dba', 'dbw') and isinstance(r, list) and any(x == 0.0 for x in r):
            ctx.branch('policy:clamp-array')
        elif op[0] == 'wdb' and r == 'error:RuntimeError':
            ctx.branch('oh:which_distance-not-offered')
        elif op[0] in ('g', 'ga'):
            ctx.branch('ant:gain')


_CURRENT = []     # the history being generated (for reporting an exception the LIBRARY raises meanwhile)


def library_exception(ctx, kind, e, case):
    """an exception raised by the library while a history / oracle case over covered inputs is being prepared is a
    failing input (exit 1 with a replay), never a harness error"""
    import traceback
    tb = traceback.extract_tb(e.__traceback__)
    where = ['%s:%d %s' % (f.filename.split('/')[-1], f.lineno, f.name) for f in tb[-3:]]
    if not any('pyphysim' in f.filename for f in tb):
        raise e                           # a bug of the harness itself: keep it visible (exit 2)
    ctx.fail('history.exception', 'exception:%s:%s' % (kind, type(e).__name__), case,
             '%r at %s' % (e, ' <- '.join(reversed(where))))
    ctx.branch('oracle-fail:history.exception')


def correspondence(ctx, n_cases, hist_len, depth):
    drv = core.Driver(DRIVER)
    rng = ctx.rng.fork('corr')
    cases = []
    kinds = ['fs', 'fs', 'fs', 'gen', 'gpp', 'ps7', 'ps7', 'oh', 'oh', 'oh', 'ant']
    for i in range(n_cases):
        kind = kinds[i % len(kinds)]
        del _CURRENT[:]
        try:
            if kind in ('fs', 'gen', 'gpp'):
                c = gen_case_general(ctx, rng, kind, hist_len)
            elif kind == 'ps7':
                c = gen_case_ps7(ctx, rng, hist_len)
            elif kind == 'oh':
                c = gen_case_oh(ctx, rng, hist_len)
            else:
                c = gen_case_ant(ctx, rng)
        except core.Infra:
            raise
        except Exception as e:
            library_exception(ctx, kind, e, dict(_CURRENT[-1]) if _CURRENT else {'kind': kind, 'ctor': None, 'ops': []})
            continue
        if c['ops']:
            cases.append(c)
    big = []
    for kind, N in (('fs', 257), ('oh', 300), ('ps7', 258)):
        vals = [gen_dist(rng, -1.0, 3.0) for _ in range(N)]
        hist = [fs_setter(rng) for _ in range(N)] if kind == 'fs' else [oh_setter(rng) for _ in range(N)] if kind == 'oh' \
            else [['fc', nice(rng, logu(rng, 2.0, 5.0))] for _ in range(N)]
        q = ['dba', 2, vals] if kind == 'ps7' else ['dba', vals]
        big.append({'kind': kind, 'ctor': None, 'ops': hist + [['small', 1], ['shadow', 0], q, ['flags']]})
        ctx.branch('corr:R14:N>=257')
    x = _r15r16()
    n_x = 120 if n_cases < 10000 else 4000
    close = x.corr_close_cases(ctx, rng.fork('R15'), n_x)
    reuse = x.corr_buffer_cases(ctx, rng.fork('R16'), n_x)
    big = big + close + reuse
    enum = enumerated_cases(depth)
    ctx.branch('enumerated-histories', len(enum))
    ctx.extra['enumerated_setter_histories'] = {'depth': depth, 'count': len(enum)}
    cases = corpus_cases() + big + enum + cases
    exact = nums = 0
    for i in range(0, len(cases), 2000):
        chunk = cases[i:i + 2000]
        out = drv.ask([case_line(c) for c in chunk])
        for c, line in zip(chunk, out):
            impl = run_impl(c)
            ok, a, b, e, n = compare(c, impl, line)
            exact += e
            nums += n
            policy_branches(ctx, c, impl)
            nontrivial = sum(1 for op in c['ops'] if op[0] not in ('small',)) >= 2
            ctx.corr('history:' + c['kind'], c, a, b, nontrivial=nontrivial, key=case_line(c))
            ctx.branch('kind:' + c['kind'])
            if len(ctx.samples) < 3 and i == 0 and c['kind'] in ('fs', 'oh', 'ps7') and len(c['ops']) >= 12:
                ctx.sample({'case': c, 'impl': impl, 'model': [decode(t) for t in line.split(' ')]})
    ctx.extra['numeric_outputs_compared'] = nums
    ctx.extra['numeric_outputs_bit_identical'] = exact


def enumerated_cases(depth):
    """every setter history up to `depth` over a small alphabet, each followed by the same queries"""
    import itertools
    out = []
    oh_ops = [['fc', 150.0], ['fc', 299.0], ['fc', 1500.0], ['fc', 149.0], ['hbs', 30.0], ['hbs', 200.0],
              ['hbs', 250.0], ['hms', 5.0], ['hms', 0.5], ['area', 'open'], ['area', 'large city'],
              ['area', 'medium city'], ['area', 'bad'], ['small', 1], ['shadow', 1], ['plot', [1e-30, 5.0]]]
    oh_q = [['flags'], ['plot', [2.0]], ['flags'], ['shadow', 0], ['db', 5.0], ['db', 1e-9], ['dba', [0.5, 30.0]], ['lin', 2.0]]
    fs_ops = [['n', 2.0], ['n', 3.5], ['fc', 900.0], ['fc', 2400.0], ['small', 0], ['small', 1], ['shadow', 1],
              ['shadow', 0], ['plot', [1e-30, 1.0]], ['nop', 'deepcopy']]
    fs_q = [['flags'], ['plot', [1.0, 2.0]], ['flags'], ['shadow', 0], ['db', 1.2], ['db', 1e-5], ['lin', 3.0], ['wdb', 100.0], ['dba', [1e-5, 0.02, 40.0]], ['wl', 1e-9]]
    ps_ops = [['fc', 900.0], ['fc', 6000.0], ['small', 0], ['small', 1], ['shadow', 1], ['plot', [1e-30, 10.0]]]
    ps_q = [['flags'], ['plotx', [3.0]], ['flags'], ['shadow', 0], ['db', 0, 10.0], ['db', 3, 10.0], ['db', 1, 1e-4], ['dba', 2, [1e-4, 5.0]], ['wdb', 0, 70.0],
            ['wdb', 2, 70.0], ['lin', 1, 30.0]]
    for kind, ops, q, dmax in (('oh', oh_ops, oh_q, depth), ('fs', fs_ops, fs_q, depth + 1),
                               ('ps7', ps_ops, ps_q, depth + 1)):
        for k in range(0, dmax + 1):
            for h in itertools.product(ops, repeat=k):
                out.append({'kind': kind, 'ctor': None, 'ops': [list(x) for x in h] + q})
    return out


def corpus_cases():
    """fixed boundary histories (always run first): the suite's own points, policy both ways,
    every area type, both large-city frequency branches, guards at their bounds"""
    c = [
        {'kind': 'fs', 'ctor': None, 'ops': [['db', 1.2], ['lin', 1.2], ['n', 2.7], ['db', 1.2], ['fc', 1100.0],
                                              ['db', 1.2], ['wdb', 93.1102472958], ['wl', 4.88624535312e-10],
                                              ['db', 1.1e-5], ['small', 1], ['db', 1.1e-5], ['lin', 1.1e-5],
                                              ['dba', [1.1e-5, 1.1e-4, 1.1e-3, 2.0]], ['small', 0],
                                              ['dba', [1.1e-5, 1.1e-4, 1.1e-3, 2.0]], ['n', 2.0], ['fc', 900.0],
                                              ['db', 1.0], ['wdba', [93.110247295, 91.526622374]]]},
        {'kind': 'gpp', 'ctor': None, 'ops': [['db', 1.0], ['wdb', 130.0], ['db', 1e-4], ['small', 1], ['lin', 1e-4],
                                               ['dba', [1e-4, 2e-4, 8e-4, 1e-3, 5e-3]],
                                               ['wla', [1e-13, 2e-14]], ['db', 0.0], ['db', -1.0]]},
        {'kind': 'gen', 'ctor': [0.0, 5.0], 'ops': [['wdb', 10.0], ['db', 3.0]]},
        {'kind': 'ps7', 'ctor': None, 'ops': [['db', 1, 10.0], ['fc', 6000.0], ['db', 1, 10.0], ['db', 3, 10.0],
                                               ['dba', 3, [10.0, 50.0, 100.0, 1000.0]], ['db', 0, 10.0],
                                               ['fc', 1100.0], ['db', 0, 10.0], ['db', -5, 10.0],
                                               ['dbw', [1, 2, 0, 2, 0], [30.0, 30.0, 30.0, 200.0, 10.0]],
                                               ['db', 0, 1e-4], ['small', 1], ['db', 0, 1e-4], ['lin', 0, 1e-4],
                                               ['dba', 0, [1e-4, 10.0]], ['wdb', 0, 60.0], ['wdb', 2, 90.0],
                                               ['wdb', -1, 90.0], ['wdba', 3, [70.0, 120.5]], ['wl', 1, 1e-9],
                                               ['wl', 0, 1e-7]]},
        {'kind': 'oh', 'ctor': None, 'ops': [['area', 'open'], ['db', 20.0], ['dba', [1.0, 2.0, 20.0]],
                                              ['area', 'suburban'], ['db', 20.0], ['area', 'medium city'],
                                              ['db', 20.0], ['area', 'large city'], ['db', 20.0], ['fc', 300.0],
                                              ['db', 20.0], ['fc', 300.5], ['db', 20.0], ['fc', 150.0], ['fc', 1500.0],
                                              ['fc', 149.999], ['fc', 1500.001], ['hbs', 30.0], ['hbs', 200.0],
                                              ['hbs', 25.0], ['hbs', 205.3], ['hms', 1.0], ['hms', 10.0], ['hms', 0.8],
                                              ['hms', 11.4], ['area', 'some_invalid_string'], ['db', 5.0],
                                              ['wdb', 120.0], ['db', 1e-9], ['small', 1], ['db', 1e-9],
                                              ['dba', [1e-9, 5.0]], ['lin', 1e-9]]},
        {'kind': 'ant', 'ctor': [3], 'ops': [['g', 0.0], ['g', 70.0], ['g', -70.0], ['g', 180.0], ['g', -180.0],
                                              ['ga', [0.0, 35.0, 90.36, 90.37, 100.0]]]},
        {'kind': 'ant', 'ctor': [6], 'ops': [['g', 0.0], ['g', 35.0], ['g', -35.0], ['g', 180.0],
                                              ['ga', [48.4, 48.5, -48.5, 100.0]]]},
        {'kind': 'ant', 'ctor': [9], 'ops': [['g', 0.0]]},
    ]
    # flags that differ from each other and from the defaults, a plot call, then the policy must still be in force
    for kind, d_ok, q in (('fs', 1.0, ['db', 1e-9]), ('gpp', 1.0, ['db', 1e-9]), ('gen', 1.0, ['db', 1e-30]),
                          ('ps7', 10.0, ['db', 0, 1e-9]), ('oh', 5.0, ['db', 1e-9])):
        ops = [['small', 1], ['shadow', 0], ['flags'], ['plot', [d_ok, 2 * d_ok]], ['flags'], q,
               ['plot', [1e-30, d_ok]], ['flags'], ['small', 0], ['shadow', 1], ['plot', [d_ok]], ['flags'],
               ['plot', [1e-30]], ['flags'], ['plotx', [d_ok]], ['flags'], ['nop', 'deepcopy'], ['flags'],
               ['nop', 'latex'], ['nop', 'pickle'], ['flags'], ['shadow', 0], q, ['small', 1], q]
        c.append({'kind': kind, 'ctor': [2.0, 40.0] if kind == 'gen' else None, 'ops': ops})
    return c


# ------------------------------------------------------------------ oracles (on the REAL code)
def _dists(case):
    return [float(x) for x in case['d']]


def o_monotone(case):
    """loss in dB non-decreasing in distance (scalar and array paths), object after its history"""
    o, _ = build(case)
    ds = sorted(_dists(case))
    nw = case.get('nw')
    try:
        o.handle_small_distances_bool = True
        arr = np.asarray(call_db(o, np.array(ds, dtype=float), nw), dtype=float)
        sc = [float(call_db(o, d, nw)) for d in ds]
    except Exception as e:
        return 'exception:%s:%s' % (case['kind'], type(e).__name__), repr(e)[:200]
    for name, v in (('array', arr.tolist()), ('scalar', sc)):
        for i in range(len(ds) - 1):
            if not (v[i] <= v[i + 1] + 1e-9):
                return 'not-monotone:' + case['kind'], '%s path: PL(%r)=%r > PL(%r)=%r' % (
                    name, ds[i], v[i], ds[i + 1], v[i + 1])
        if any(x < 0 for x in v):
            return 'negative-loss:' + case['kind'], '%s path returned %r' % (name, min(v))
    for a, b in zip(arr.tolist(), sc):
        if not num_close(a, b, False):
            return 'scalar-array-differ:' + case['kind'], '%r vs %r' % (a, b)
    return None


def o_linear(case):
    """linear value = 10^(-dB/10), in (0, 1]"""
    o, _ = build(case)
    nw = case.get('nw')
    o.handle_small_distances_bool = True
    for d in _dists(case):
        try:
            db = float(call_db(o, d, nw))
            lin = float(call_lin(o, d, nw))
        except Exception as e:
            return 'exception:%s:%s' % (case['kind'], type(e).__name__), repr(e)[:200]
        exp = 10.0 ** (-db / 10.0)
        if not (abs(lin - exp) <= 1e-12 * exp):
            return 'linear-mismatch:' + case['kind'], 'd=%r: linear %r, 10^(-dB/10) = %r' % (d, lin, exp)
        if not (0.0 < lin <= 1.0) and db < 3000.0:
            return 'linear-out-of-range:' + case['kind'], 'd=%r: linear %r' % (d, lin)
    arr = np.asarray(call_lin(o, np.array(_dists(case)), nw), dtype=float)
    adb = np.asarray(call_db(o, np.array(_dists(case)), nw), dtype=float)
    if not np.allclose(arr, 10.0 ** (-adb / 10.0), rtol=1e-12, atol=0.0):
        return 'linear-mismatch:' + case['kind'], 'array path'
    return None


def o_inverse(case):
    """which_distance(_dB) is the two-sided inverse of calc_path_loss(_dB) wherever offered"""
    o, _ = build(case)
    kind = case['kind']
    nw = case.get('nw')
    o.handle_small_distances_bool = False
    kw = {} if nw is None else {'num_walls': nw}
    try:
        o.which_distance_dB(100.0)
    except NotImplementedError:
        return None           # the query is not offered by this model
    except Exception:
        pass
    for d in _dists(case):
        try:
            db = call_db(o, d, nw)
        except RuntimeError:
            continue          # distance too small for the model: nothing to invert
        try:
            back = o.which_distance_dB(db, **kw)
        except NotImplementedError:
            return None       # not offered by this model
        except TypeError as e:
            return 'no-inverse:' + kind, 'which_distance_dB: %r' % e
        if back is None:
            return 'no-inverse:' + kind, 'which_distance_dB(%r) returned None' % (db,)
        if not num_close(float(back), d, True):
            return 'inverse-mismatch:' + kind, 'which_distance_dB(calc_path_loss_dB(%r)) = %r' % (d, back)
        lin = call_lin(o, d, nw)
        if float(lin) > 1e-300:
            back = o.which_distance(lin, **kw) if kw else o.which_distance(lin)
            if back is None or not abs(float(back) - d) <= 1e-7 * d:
                return 'inverse-mismatch:' + kind, 'which_distance(calc_path_loss(%r)) = %r' % (d, back)
    for p in case.get('pl', []):
        dd = o.which_distance_dB(p, **kw)
        if dd is None:
            return 'no-inverse:' + kind, 'which_distance_dB(%r) returned None' % (p,)
        if not (0.0 < float(dd) < 1e300):
            continue
        back = float(call_db(o, float(dd), nw))
        if abs(back - p) > 1e-9 * max(1.0, abs(p)):
            return 'inverse-mismatch:' + kind, 'calc_path_loss_dB(which_distance_dB(%r)) = %r' % (p, back)
    if case.get('pl'):
        arr = o.which_distance_dB(np.array(case['pl'], dtype=float), **kw)
        sc = [float(o.which_distance_dB(p, **kw)) for p in case['pl']]
        if arr is None or not np.allclose(np.asarray(arr, dtype=float), sc, rtol=1e-12):
            return 'inverse-mismatch:' + kind, 'array path differs from scalar path'
    return None


def o_policy(case):
    """distances whose deterministic loss is negative raise (flag off) or give exactly 0 dB (flag on);
    all other entries are untouched"""
    o, _ = build(case)
    kind = case['kind']
    nw = case.get('nw')
    ds = _dists(case)
    det = [float(det_db(o, d, nw)) for d in ds]
    for flag in (False, True):
        o.handle_small_distances_bool = flag
        for d, v in zip(ds, det):
            if abs(v) < 1e-6:
                continue
            try:
                r = call_db(o, d, nw)
                err = None
            except RuntimeError:
                r, err = None, 'RuntimeError'
            except Exception as e:
                return 'policy:%s:exception' % kind, repr(e)[:200]
            if v < 0 and not flag and err is None:
                return 'policy:%s:no-raise' % kind, 'd=%r deterministic %r returned %r' % (d, v, r)
            if v < 0 and flag and not (err is None and float(r) == 0.0):
                return 'policy:%s:no-clamp' % kind, 'd=%r deterministic %r gave %r / %s' % (d, v, r, err)
            if v > 0 and (err is not None or float(r) != v):
                return 'policy:%s:altered' % kind, 'd=%r deterministic %r gave %r / %s' % (d, v, r, err)
        if any(abs(v) < 1e-6 for v in det):
            continue
        try:
            r = call_db(o, np.array(ds, dtype=float), nw)
            err = None
        except RuntimeError:
            r, err = None, 'RuntimeError'
        anyneg = any(v < 0 for v in det)
        if anyneg and not flag:
            if err is None:
                return 'policy:%s:no-raise' % kind, 'array %r returned %r' % (ds, r)
        else:
            if err is not None:
                return 'policy:%s:spurious-raise' % kind, 'array %r' % (ds,)
            got = [float(x) for x in np.asarray(r).ravel()]
            for d, v, g in zip(ds, det, got):
                if v < 0 and g != 0.0:
                    return 'policy:%s:no-clamp' % kind, 'array %r entry d=%r deterministic %r gave %r' % (ds, d, v, g)
                if v > 0 and not num_close(g, v, False):
                    return 'policy:%s:altered' % kind, 'array %r entry d=%r deterministic %r gave %r' % (ds, d, v, g)
    return None


def o_friis(case):
    """free space, exponent 2: within 0.01 dB of 20 log10(4 pi d f / c)"""
    pl, _ = _impl()
    fc = float(case['fc'])
    o = pl.PathLossFreeSpace(n=case.get('n0', 2.0), fc=case.get('fc0', fc))
    for name, v in case.get('hist', []):
        apply_setter(o, name, v)
    o.n = 2.0
    o.fc = fc
    o.handle_small_distances_bool = False
    for d in _dists(case):
        friis = 20.0 * math.log10(4.0 * math.pi * (d * 1e3) * (fc * 1e6) / C_LIGHT)
        if friis < 0.02:
            continue
        got = float(o.calc_path_loss_dB(d))
        if abs(got - friis) > 0.01:
            return 'friis>0.01dB', 'd=%r km fc=%r MHz: model %r, Friis %r' % (d, fc, got, friis)
    return None


def o_history(case):
    """an object after any setter history answers like a freshly built object with the same parameters"""
    pl, _ = _impl()
    o, _ = build(case)
    kind = case['kind']
    if kind == 'fs':
        f = pl.PathLossFreeSpace(n=o.n, fc=o.fc)
    elif kind == 'ps7':
        f = pl.PathLossMetisPS7(fc=o.fc)
    elif kind == 'oh':
        if not (150.0 <= o.fc <= 1500.0 and 30.0 <= o.hbs <= 200.0 and 1.0 <= o.hms <= 10.0
                and o.area_type in AREAS):
            return 'guard-bypassed:oh', 'state fc=%r hbs=%r hms=%r area=%r' % (o.fc, o.hbs, o.hms, o.area_type)
        f = pl.PathLossOkomuraHata()
        f.fc, f.hbs, f.hms, f.area_type = o.fc, o.hbs, o.hms, o.area_type
    else:
        return None
    o.handle_small_distances_bool = f.handle_small_distances_bool = True
    nw = case.get('nw')
    ds = np.array(_dists(case), dtype=float)
    a, b = np.asarray(call_db(o, ds, nw)), np.asarray(call_db(f, ds, nw))
    if not np.array_equal(a, b):
        return 'stale:' + kind, 'after %r: %r, fresh object: %r' % (case.get('hist'), a.tolist(), b.tolist())
    if kind == 'fs':
        for p in case.get('pl', []):
            if o.which_distance_dB(p) != f.which_distance_dB(p):
                return 'stale:' + kind, 'which_distance_dB(%r) differs from a fresh object' % p
    return None


def o_antenna(case):
    """peak at boresight, symmetric, floored at the maximum attenuation"""
    _, ag = _impl()
    k = case['sectors']
    a = ag.AntGainBS3GPP25996(k)
    g0 = float(a.get_antenna_gain(0.0))
    floor = g0 * 10.0 ** (-a.Am / 10.0)
    dbi = {3: 14.0, 6: 17.0}[k]
    if abs(g0 - 10.0 ** (dbi / 10.0)) > 1e-12 * g0:
        return 'boresight-gain', 'gain(0) = %r' % g0
    angles = [float(x) for x in case['angles']]
    arr = np.asarray(a.get_antenna_gain(np.array(angles)), dtype=float)
    for th, ga in zip(angles, arr.tolist()):
        g = float(a.get_antenna_gain(th))
        if not num_close(g, ga, True):
            return 'scalar-array-differ', 'angle %r: %r vs %r' % (th, g, ga)
        if g > g0 * (1 + 1e-15):
            return 'not-peak-at-boresight', 'gain(%r)=%r > gain(0)=%r' % (th, g, g0)
        if float(a.get_antenna_gain(-th)) != g:
            return 'asymmetric', 'gain(%r) != gain(%r)' % (th, -th)
        if g < floor * (1 - 1e-12):
            return 'below-floor', 'gain(%r)=%r < %r' % (th, g, floor)
    srt = sorted(abs(x) for x in angles)
    gs = [float(a.get_antenna_gain(x)) for x in srt]
    if any(gs[i] < gs[i + 1] * (1 - 1e-12) for i in range(len(gs) - 1)):
        return 'not-decreasing-in-|angle|', 'angles %r gains %r' % (srt, gs)
    if abs(float(a.get_antenna_gain(180.0)) - floor) > 1e-12 * floor:
        return 'floor-not-reached', 'gain(180)=%r floor %r' % (float(a.get_antenna_gain(180.0)), floor)
    return None


# ------------------------------------------------------------------ robustness classes R1-R7 (oracles on the REAL code)
def fmt_class(fmt):
    """failure-class prefix computed from the input format"""
    if not fmt:
        return 'R2:C:1d'
    if fmt.get('stype'):
        return 'R1:scalar:' + fmt['stype']
    dt, lay = fmt.get('dtype', 'float64'), fmt.get('layout', 'C')
    if lay == 'mixed':
        return 'R10:mixed-list'
    if lay in ('list', 'tuple'):
        return 'R1:' + lay + (':int' if dt in INT_TYPES else '')
    if dt != 'float64':
        return 'R1:array:' + dt
    if lay == '0d':
        return 'R2:0d'
    shape = fmt.get('shape') or []
    sc = 'size0' if 0 in shape else 'Nx1' if (len(shape) == 2 and shape[1] == 1) else \
        '1xN' if (len(shape) == 2 and shape[0] == 1) else '%dd' % len(shape)
    return 'R2:%s:%s' % (lay, sc)


def _kw(nw):
    return {} if nw is None else {'num_walls': nw}


def query_call(o, query, arg, nw):
    with warnings.catch_warnings():
        warnings.simplefilter('ignore')
        if query == 'db':
            return call_db(o, arg, nw)
        if query == 'lin':
            return call_lin(o, arg, nw)
        if query == 'wdb':
            return o.which_distance_dB(arg, **_kw(nw))
        if query == 'wl':
            return o.which_distance(arg, **_kw(nw)) if nw is not None else o.which_distance(arg)
        if query == 'g':
            return o.get_antenna_gain(arg)
    raise ValueError(query)


def scalar_ref(o, query, v, nw):
    try:
        return float(query_call(o, query, float(v), nw))
    except (RuntimeError, ValueError, ZeroDivisionError, OverflowError) as e:
        return errname(e)


def snapshot(arg):
    if isinstance(arg, np.ndarray):
        return ('nd', arg.dtype.str, arg.shape, np.array(arg, copy=True))
    if isinstance(arg, (list, tuple)):
        return ('seq', type(arg).__name__, list(arg))
    return ('scalar', type(arg).__name__, repr(arg))


def same_snapshot(a, b):
    if a[0] != b[0]:
        return False
    if a[0] == 'nd':
        return a[1] == b[1] and a[2] == b[2] and np.array_equal(a[3], b[3])
    return a[1:] == b[1:]


def o_twin(case):
    """R1/R2/R3: the same logical values as another element type / shape / memory layout give, position by
    position, what the float64 scalar queries give; the input is not modified; outputs are fresh"""
    kind, query, fmt = case['kind'], case['query'], case.get('fmt')
    o, _ = build(case)
    nw = case.get('nw')
    if kind != 'ant':
        o.handle_small_distances_bool = bool(case.get('small', 1))
    pre = fmt_class(fmt) + ':' + kind
    vals = logical_values(case['values'], fmt)
    if case.get('nws') is not None:
        walls = logical_walls(case['nws'], fmt, len(vals))
        refs = [scalar_ref(o, query, v, w) for v, w in zip(vals, walls)]
        nw = make_walls(case['nws'], fmt)
    else:
        refs = [scalar_ref(o, query, v, nw) for v in vals]
    if fmt and fmt.get('stype'):
        arg = make_scalar(case['values'][0], fmt)
        shape = None
    else:
        arg = make_array(case['values'], fmt)
        shape = logical_shape(case['values'], fmt)
    snap = snapshot(arg)
    try:
        r = query_call(o, query, arg, nw)
        err = None
    except Exception as e:
        r, err = None, errname(e)
    if not same_snapshot(snap, snapshot(arg)):
        return 'R3:%s:input-modified' % kind, '%s argument changed by the call (%s)' % (query, pre)
    errs = [x for x in refs if isinstance(x, str)]
    if errs:
        if len(vals) and err is None:
            return pre + ':raise-missing', 'scalar query raises %s, %s of %r returned %r' % (errs[0], query, arg, r)
        if err is not None and err not in errs:
            return pre + ':exception', 'scalar queries raise %s, array query raised %s' % (errs[0], err)
        return None
    if err is not None:
        return pre + ':exception', '%s(%r) raised %s; scalar float64 queries give %r' % (query, arg, err, refs[:4])
    if r is None:
        return pre + ':none', '%s returned None' % query
    ra = np.asarray(r)
    if shape is not None and tuple(ra.shape) != tuple(shape):
        return pre + ':shape', 'result shape %r for input shape %r' % (ra.shape, shape)
    if ra.dtype.kind != 'f':
        return pre + ':dtype', 'result dtype %s' % ra.dtype
    rel = query in ('lin', 'wdb', 'wl', 'g')
    tol = fmt_tolerance(fmt)[1 if rel else 0]
    flat = [float(x) for x in ra.ravel()]
    for i, (g, e) in enumerate(zip(flat, refs)):
        if not num_close(g, e, rel, tol) and not out_of_narrow_range(e, fmt):
            return pre + ':value', ('entry %d (logical value %r): %s gives %r, the float64 scalar query %r'
                                    % (i, vals[i], query, g, e))
    if isinstance(arg, np.ndarray) and isinstance(r, np.ndarray) and arg.size and np.shares_memory(r, arg):
        return 'R3:%s:output-aliases-input' % kind, '%s result shares memory with its argument' % query
    if isinstance(r, np.ndarray) and r.size:
        keep = r.copy()
        if kind != 'ant':
            o.handle_small_distances_bool = True
        later = np.full(ra.shape, 1e-30 if query in ('db', 'lin') else 3.0)
        try:
            r2 = query_call(o, query, later, nw)
            query_call(o, query, make_array(case['values'], fmt), nw)
        except Exception:
            r2 = None
        if not np.array_equal(keep, r, equal_nan=True):
            return 'R3:%s:earlier-output-changed' % kind, 'result of an earlier %s call changed after later calls' % query
        if isinstance(r2, np.ndarray) and np.shares_memory(r2, r):
            return 'R3:%s:outputs-share-buffer' % kind, 'two %s results share memory' % query
    return None


def observe(o, probe, nw):
    """every observable of a path-loss object: attributes + answers to fixed queries"""
    attrs = tuple(sorted((k, repr(v)) for k, v in vars(o).items()))
    if getattr(o, 'use_shadow_bool', False):
        return attrs, ()
    out = []
    for d in probe:
        out.append(scalar_ref(o, 'db', d, nw))
    try:
        with warnings.catch_warnings():
            warnings.simplefilter('ignore')
            a = call_db(o, np.array(probe, dtype=float), nw)
        out.append(tuple(float(x) for x in np.asarray(a).ravel()))
    except Exception as e:
        out.append(errname(e))
    for p in (50.0, 120.0):
        try:
            out.append(float(o.which_distance_dB(p, **_kw(nw))))
        except Exception as e:
            out.append(errname(e))
    return attrs, tuple(out)


def do_rejected(o, rej, nw):
    """perform the call that is expected to raise; returns the exception name or None"""
    typ, payload = rej
    try:
        with warnings.catch_warnings():
            warnings.simplefilter('ignore')
            if typ == 'setter':
                r = apply_setter(o, payload[0], payload[1])
                return None if r == 'ok' else r
            if typ == 'policy-raise':
                call_db(o, payload if not isinstance(payload, list) else np.array(payload, dtype=float), nw)
            elif typ == 'policy-raise-lin':
                call_lin(o, np.array(payload, dtype=float), nw)
            elif typ == 'neg-walls':
                call_db(o, 10.0, payload)
            elif typ == 'neg-walls-which':
                o.which_distance_dB(70.0, num_walls=payload)
            elif typ in ('d-zero', 'd-negative', 'bad-type'):
                call_db(o, payload, nw)
            elif typ == 'which-not-offered':
                o.which_distance_dB(payload)
            elif typ == 'plot-raise':
                o.plot_deterministic_path_loss_in_dB(np.array(payload, dtype=float), ax=_Ax())
            else:
                raise ValueError(typ)
        return None
    except Exception as e:
        return errname(e)


def o_rejected(case):
    """R4: a call that raises leaves the object exactly as it was, and the rest of the history behaves as
    if the rejected call had never been made"""
    kind = case['kind']
    nw = case.get('nw')
    rej = case['reject']
    o, _ = build(case)
    t, _ = build(case)
    if rej[0] == 'plot-raise':
        o.use_shadow_bool = t.use_shadow_bool = True
    probe = case['probe']
    before = observe(o, probe, nw)
    err = do_rejected(o, rej, nw)
    if err is None:
        return None                      # the call was accepted: nothing to check here
    after = observe(o, probe, nw)
    cls = 'R4:%s:%s' % (kind, rej[0] if rej[0] != 'setter' else 'setter.' + rej[1][0])
    if before != after:
        diff = [(a, b) for a, b in zip(before[0], after[0]) if a != b]
        return cls + ':state-changed', 'after a call raising %s: %r' % (err, diff[:3] or 'query answers differ')
    if rej[0] == 'plot-raise':
        o.use_shadow_bool = t.use_shadow_bool = False
    for name, v in case.get('after', []):
        ra, rb = apply_setter(o, name, v), apply_setter(t, name, v)
        if ra != rb:
            return cls + ':history-diverges', 'setter %s=%r: %s vs %s on the object that never saw the call' % (name, v, ra, rb)
    if observe(o, probe, nw) != observe(t, probe, nw):
        return cls + ':history-diverges', 'after %r the object differs from one that never saw the rejected call' % (case.get('after'),)
    return None


def o_boundary(case):
    """R5: boundary / degenerate values"""
    pl, ag = _impl()
    kind = case['kind']
    nw = case.get('nw')
    if kind == 'ant':
        a = ag.AntGainBS3GPP25996(case['sectors'])
        g0 = float(a.get_antenna_gain(0))
        floor = g0 * 10.0 ** (-a.Am / 10.0)
        for m in (0, 90, 180, 360, 720, -90, -180, -360, -720):
            for v in (m, float(m), np.int16(m), np.array([m]), np.array([[float(m)]])):
                g = np.asarray(a.get_antenna_gain(v), dtype=float).ravel()[0]
                gm = np.asarray(a.get_antenna_gain(-v), dtype=float).ravel()[0]
                if g != gm:
                    return 'R5:ant:asymmetric-at-multiple', 'angle %r' % (v,)
                if not (floor * (1 - 1e-12) <= g <= g0 * (1 + 1e-12)):
                    return 'R5:ant:out-of-range-at-multiple', 'gain(%r) = %r' % (v, g)
                if abs(m) >= 180 and abs(g - floor) > 1e-12 * floor:
                    return 'R5:ant:floor-at-multiple', 'gain(%r) = %r, floor %r' % (v, g, floor)
        if float(a.get_antenna_gain(0)) != float(a.get_antenna_gain(0.0)) or float(a.get_antenna_gain(-0.0)) != g0:
            return 'R5:ant:zero', 'gain(0), gain(0.0), gain(-0.0) differ'
        return None
    o, _ = build(case)
    o.handle_small_distances_bool = True
    one = [float(query_call(o, 'db', v, nw)) for v in (1, 1.0, np.int8(1), np.uint16(1), np.float32(1))]
    if max(one) - min(one) > 1e-12 * max(1.0, abs(one[0])):
        return 'R5:%s:d=1' % kind, 'loss at distance 1 depends on the element type: %r' % one
    for shp in ((1,), (1, 1), (1, 1, 1)):
        r = np.asarray(query_call(o, 'db', np.full(shp, 1.0), nw))
        if r.shape != shp or not num_close(float(r.ravel()[0]), one[0], False, 1e-12):
            return 'R5:%s:single-element' % kind, 'shape %r gives %r (scalar %r)' % (shp, r, one[0])
    for shp in ((0,), (0, 3), (2, 0)):
        for q in ('db', 'lin'):
            r = np.asarray(query_call(o, q, np.zeros(shp), nw))
            if r.shape != shp:
                return 'R5:%s:size0' % kind, '%s of an empty %r array has shape %r' % (q, shp, r.shape)
    try:
        d0 = float(o.which_distance_dB(0.0, **_kw(nw)))
    except NotImplementedError:
        d0 = None
    except ZeroDivisionError:
        d0 = None
    if d0 is not None and 0.0 < d0 < 1e300:
        p = float(query_call(o, 'db', d0, nw))
        if not (0.0 <= p <= 1e-9):
            return 'R5:%s:zero-loss-distance' % kind, 'loss at which_distance_dB(0) = %r is %r' % (d0, p)
        if float(query_call(o, 'db', d0 / 2.0, nw)) != 0.0:
            return 'R5:%s:below-zero-loss-distance' % kind, 'loss at %r not clamped to 0' % (d0 / 2.0)
        lin0 = float(query_call(o, 'lin', d0 / 2.0, nw))
        if lin0 != 1.0:
            return 'R5:%s:linear-of-zero-dB' % kind, 'linear value of a clamped loss is %r' % lin0
        back = float(query_call(o, 'wl', 1, nw))
        if abs(back - d0) > 1e-9 * d0:
            return 'R5:%s:which_distance(1)' % kind, 'which_distance(1) = %r, which_distance_dB(0) = %r' % (back, d0)
        o.handle_small_distances_bool = False
        try:
            query_call(o, 'db', d0 / 2.0, nw)
            return 'R5:%s:below-zero-loss-distance' % kind, 'no RuntimeError at %r with the flag off' % (d0 / 2.0)
        except RuntimeError:
            pass
        o.handle_small_distances_bool = True
    if kind == 'ps7':
        w = [float(query_call(o, 'db', 1e3, k)) for k in (1, 2, 3, 4)]
        steps = [w[i + 1] - w[i] for i in range(3)]
        if max(steps) - min(steps) > 1e-9 or steps[0] <= 0:
            return 'R5:ps7:wall-step', 'losses for 1..4 walls %r' % w
    if kind == 'oh':
        for name, vals in (('fc', (150, 150.0, 300, 1500, 1500.0)), ('hbs', (30, 30.0, 200, 200.0)),
                           ('hms', (1, 1.0, 10, 10.0))):
            for v in vals:
                if apply_setter(o, name, v) != 'ok':
                    return 'R5:oh:bound-rejected', '%s = %r rejected' % (name, v)
                r = np.asarray(query_call(o, 'db', np.array([1.0, 2.0, 20.0]), None), dtype=float)
                if not (np.all(np.isfinite(r)) and r[0] <= r[1] <= r[2]):
                    return 'R5:oh:at-bound', '%s = %r gives %r' % (name, v, r.tolist())
    if kind == 'gen' and case.get('degenerate'):
        g = pl.PathLossGeneral(0.0, case['degenerate'])
        g.handle_small_distances_bool = True
        r = np.asarray(g.calc_path_loss_dB(np.array([1e-3, 1.0, 1e3])), dtype=float)
        if not np.all(r == max(case['degenerate'], 0.0)):
            return 'R5:gen:n=0', 'exponent 0, C=%r gives %r' % (case['degenerate'], r.tolist())
        try:
            v = g.which_distance_dB(10.0)
            return 'R5:gen:n=0', 'which_distance_dB with exponent 0 returned %r' % (v,)
        except ZeroDivisionError:
            pass
    return None


def o_scale(case):
    """R6: the same question at another scale (distances x 10^k): the loss is affine in log10(d) with the
    slope seen between d and 10 d, the inverse scales by 10^k, arrays mixing scales agree with scalars;
    every comparison is relative"""
    kind = case['kind']
    nw = case.get('nw')
    o, _ = build(case)
    o.handle_small_distances_bool = True
    k = int(case['k'])
    s = 10.0 ** k
    for d in _dists(case):
        p0, p1, ps = (float(query_call(o, 'db', x, nw)) for x in (d, 10.0 * d, s * d))
        if min(p0, p1, ps) <= 0.0:
            continue
        exp = p0 + k * (p1 - p0)
        if abs(ps - exp) > 1e-9 * max(1.0, abs(ps), abs(k) * abs(p1 - p0)):
            return 'R6:%s:not-affine-in-log-distance' % kind, ('d=%r k=%d: loss %r, expected %r from the slope '
                                                               'between d and 10d' % (d, k, ps, exp))
        if (k > 0 and ps < p0) or (k < 0 and ps > p0):
            return 'R6:%s:not-monotone-across-scales' % kind, 'd=%r k=%d: %r vs %r' % (d, k, ps, p0)
        lin = float(query_call(o, 'lin', s * d, nw))
        if abs(lin - 10.0 ** (-ps / 10.0)) > 1e-12 * lin:
            return 'R6:%s:linear' % kind, 'd=%r: linear %r for %r dB' % (s * d, lin, ps)
        try:
            back = float(o.which_distance_dB(ps, **_kw(nw)))
        except (NotImplementedError, OverflowError):
            back = None
        if back is not None and abs(back - s * d) > 1e-9 * s * d:
            return 'R6:%s:inverse' % kind, 'which_distance_dB(loss(%r)) = %r' % (s * d, back)
        arr = np.asarray(query_call(o, 'db', np.array([s * d, d, 10.0 * d]), nw), dtype=float)
        for g, e in zip(arr.tolist(), (ps, p0, p1)):
            if abs(g - e) > 1e-9 * max(1.0, abs(e)):
                return 'R6:%s:mixed-scale-array' % kind, 'array [%r, %r, %r] gives %r, scalars %r' % (
                    s * d, d, 10 * d, arr.tolist(), (ps, p0, p1))
    return None


def o_shared(case):
    """R7: queries never change the object (two users may share it), repeated / re-ordered setter calls end in
    the state of a fresh object with the current configuration"""
    kind = case['kind']
    nw = case.get('nw')
    o, _ = build(case)
    probe = _dists(case)
    user_b = observe(o, probe, nw)
    attrs = user_b[0]
    arr = np.array(probe + [1e-30], dtype=float)
    for flag in (True, False):
        o.handle_small_distances_bool = flag
        for q in ('db', 'lin', 'wdb', 'wl'):
            for arg in (probe[0], arr, arr.reshape(-1, 1), [float(x) for x in probe]):
                if q in ('wdb', 'wl') and not isinstance(arg, (float, np.ndarray)):
                    continue
                try:
                    r1 = query_call(o, q, arg, nw)
                    r2 = query_call(o, q, arg, nw)
                except Exception:
                    continue
                if r1 is not None and not np.array_equal(np.asarray(r1), np.asarray(r2), equal_nan=True):
                    return 'R7:%s:not-repeatable' % kind, 'two identical %s calls differ' % q
    o.handle_small_distances_bool = dict(attrs).get('handle_small_distances_bool') == 'True'
    if observe(o, probe, nw) != user_b:
        return 'R7:%s:query-changes-object' % kind, 'attributes / answers seen by a second user changed after queries'
    # repeat the last setter of every parameter: idempotent
    last = {}
    for name, v in case.get('hist', []):
        last[name] = v
    for name, v in last.items():
        apply_setter(o, name, v)
        apply_setter(o, name, v)
    if observe(o, probe, nw) != user_b:
        return 'R7:%s:setter-not-idempotent' % kind, 'repeating the last setter calls %r changed the object' % (last,)
    return o_history(case)


def config_of(o):
    """every configuration attribute of the object (instance dict, by repr)"""
    return dict((k, repr(v)) for k, v in vars(o).items())


NONMUT_CALLS = ['plot-stub', 'plot-extra-args', 'plot-impl', 'plot-agg', 'plot-standalone', 'plot-too-small',
                'plot-axes-raise', 'plot-list', 'plot-2d', 'plot-empty', 'db', 'dba', 'lin', 'lina', 'wdb', 'wl',
                'det'] + ['nop-' + n for n in NOPS]


def do_nonmut(o, call, kind, d, nw):
    """perform one public non-setter call; returns the object to go on with (copies replace it)"""
    arr = np.array(d, dtype=float)
    if call == 'plot-stub':
        do_plot(o, arr, 0)
    elif call == 'plot-extra-args':
        do_plot(o, arr, 1)
    elif call == 'plot-impl':
        do_plot(o, arr, 2)
    elif call == 'plot-agg':
        do_plot(o, arr, 3, force_mpl=True)
    elif call == 'plot-standalone':
        do_plot(o, arr, 4, force_mpl=True)
    elif call == 'plot-too-small':
        do_plot(o, np.array([1e-30] + list(d), dtype=float), 0)
    elif call == 'plot-axes-raise':
        do_plot(o, arr, 0, raises=True)
    elif call == 'plot-list':
        do_plot(o, [float(x) for x in d], 0)
    elif call == 'plot-2d':
        do_plot(o, np.array([list(d), list(d)], dtype=float), 0)
    elif call == 'plot-empty':
        do_plot(o, np.zeros((0,)), 0)
    elif call in ('db', 'lin'):
        query_call(o, call, float(d[0]), nw)
        query_call(o, call, 1e-30, nw)
    elif call in ('dba', 'lina'):
        query_call(o, call[:-1], np.array(list(d) + [1e-30], dtype=float), nw)
    elif call == 'wdb':
        query_call(o, 'wdb', 77.0, nw)
        query_call(o, 'wdb', np.array([60.0, 90.0]), nw)
    elif call == 'wl':
        query_call(o, 'wl', 1e-8, nw)
    elif call == 'det':
        do_nop(o, 'det', kind)
    elif call.startswith('nop-'):
        return do_nop(o, call[4:], kind)
    else:
        raise ValueError(call)
    return o


ALLOWED_RAISES = (RuntimeError, NotImplementedError)     # too-small distance with the flag off / query not offered


def o_nonmutating(case):
    """R7: a public call that is not a setter leaves EVERY configuration attribute unchanged, whatever the two
    policy flags are; afterwards the object answers like one that never saw the calls"""
    kind = case['kind']
    nw = case.get('nw')
    o, _ = build(case)
    t, _ = build(case)
    fl = case['flags']
    for x in (o, t):
        x.handle_small_distances_bool = bool(fl['small'])
        x.use_shadow_bool = bool(fl['shadow'])
        x.sigma_shadow = fl['sigma']
    np.random.seed(case.get('npseed', 0))
    before = config_of(o)
    d = _dists(case)
    for call in case['calls']:
        try:
            o2 = do_nonmut(o, call, kind, d, nw)
        except ALLOWED_RAISES:
            o2 = o
        except ValueError as e:
            if call != 'plot-axes-raise':
                return 'R7:%s:%s:exception' % (kind, call), repr(e)[:200]
            o2 = o
        now = config_of(o)
        if now != before:
            diff = dict((k, (before.get(k), now.get(k))) for k in set(before) | set(now) if before.get(k) != now.get(k))
            return 'R7:%s:%s:config-changed' % (kind, call), 'flags small=%s shadow=%s: %r' % (fl['small'], fl['shadow'], diff)
        if o2 is not o:
            if config_of(o2) != before:
                return 'R7:%s:%s:copy-differs' % (kind, call), '%r vs %r' % (config_of(o2), before)
            o2.handle_small_distances_bool = not o2.handle_small_distances_bool      # the copy is independent
            if kind == 'fs':
                o2.n = 4.25
            if config_of(o) != before:
                return 'R7:%s:%s:copy-shares-state' % (kind, call), 'changing the copy changed the original'
            o2.handle_small_distances_bool = bool(fl['small'])
            if kind == 'fs':
                o2.n = o.n
            o = o2
    o.use_shadow_bool = t.use_shadow_bool = False
    if observe(o, d, nw) != observe(t, d, nw):
        return 'R7:%s:%s:diverges' % (kind, '+'.join(sorted(set(c.split('-')[0] for c in case['calls'])))), \
            'after %r the answers differ from an object that never saw the calls' % (case['calls'],)
    return None


def o_flagtypes(case):
    """R1 for the two policy flags: a truthy / falsy flag of another type (1, numpy bool from a comparison)
    means the same as the Python bool"""
    kind = case['kind']
    nw = case.get('nw')
    outs = {}
    for name, val in (('True', True), ('1', 1), ('np.True_', np.bool_(True)), ('cmp', np.array([2.0])[0] > 1.0),
                      ('False', False), ('0', 0), ('np.False_', np.bool_(False))):
        o, _ = build(case)
        o.handle_small_distances_bool = val
        r = [scalar_ref(o, 'db', 1e-30, nw)]
        try:
            r.append(tuple(float(x) for x in np.asarray(query_call(o, 'db', np.array([1e-30, _dists(case)[0]]), nw))))
        except Exception as e:
            r.append(errname(e))
        outs[name] = r
    for name in ('1', 'np.True_', 'cmp'):
        if outs[name] != outs['True']:
            return 'R1:flag:%s:%s' % (kind, name), 'handle_small_distances_bool = %s gives %r, True gives %r' % (
                name, outs[name], outs['True'])
    for name in ('0', 'np.False_'):
        if outs[name] != outs['False']:
            return 'R1:flag:%s:%s' % (kind, name), 'handle_small_distances_bool = %s gives %r, False gives %r' % (
                name, outs[name], outs['False'])
    # use_shadow_bool: a truthy flag of another type must switch shadowing on as True does
    d = _dists(case)[0]
    o, _ = build(case)
    o.handle_small_distances_bool = True
    base = float(query_call(o, 'db', d, nw))
    for name, val in (('True', True), ('1', 1), ('np.True_', np.bool_(True))):
        o.use_shadow_bool = val
        np.random.seed(12345)
        got = [float(query_call(o, 'db', d, nw)) for _ in range(4)]
        if base > 40.0 and all(g == base for g in got):
            return 'R1:flag:%s:shadow=%s' % (kind, name), 'use_shadow_bool = %s: four queries all gave the deterministic %r' % (name, base)
    return None


class _AxRec:
    """axes stub that records what it is asked to plot"""

    def __init__(self):
        self.calls = []

    def plot(self, *a, **k):
        self.calls.append((tuple(np.asarray(x, dtype=float).ravel().tolist() for x in a), tuple(sorted(k))))


def _same(a, b, tol=0.0):
    a, b = np.asarray(a, dtype=float), np.asarray(b, dtype=float)
    if a.shape != b.shape:
        return False
    if tol == 0.0:
        return bool(np.array_equal(a, b, equal_nan=True))
    return bool(np.all(np.abs(a - b) <= tol * np.maximum(1.0, np.maximum(np.abs(a), np.abs(b)))))


def o_argforms(case):
    """R8: positional / keyword / default / explicit-default forms of every documented parameter agree; scalar =
    0-d = length-1 array; constructor path = setter path = later replacement; documented-equivalent entry points
    (linear vs dB, which_distance vs which_distance_dB, helper vs public method) agree and forward every argument"""
    pl, ag = _impl()
    kind = case['kind']
    if kind == 'ant':
        for k in (3, 6):
            a, b = ag.AntGainBS3GPP25996(k), ag.AntGainBS3GPP25996(number_of_sectors=k)
            ang = np.array(case['angles'], dtype=float)
            if not _same(a.get_antenna_gain(ang), b.get_antenna_gain(angle=ang)):
                return 'R8:ant:keyword', 'positional and keyword construction / query differ'
            for x in case['angles']:
                r = (a.get_antenna_gain(x), a.get_antenna_gain(angle=x), a.get_antenna_gain(np.array(x)),
                     np.asarray(a.get_antenna_gain(np.array([x]))).ravel()[0])
                if not all(_same(r[0], y, 1e-12) for y in r[1:]):
                    return 'R8:ant:scalar-0d-len1', 'angle %r: %r' % (x, r)
        if not _same(ag.AntGainBS3GPP25996().get_antenna_gain(ang), ag.AntGainBS3GPP25996(3).get_antenna_gain(ang)):
            return 'R8:ant:default', 'AntGainBS3GPP25996() differs from AntGainBS3GPP25996(3)'
        om = [ag.AntGainOmni(), ag.AntGainOmni(None), ag.AntGainOmni(ant_gain=None), ag.AntGainOmni(0), ag.AntGainOmni(ant_gain=0.0)]
        if not all(_same(x.get_antenna_gain(ang), np.ones(ang.shape)) and float(x.get_antenna_gain(angle=7.0)) == 1.0 for x in om):
            return 'R8:ant:omni-default', 'omni antenna with default / None / 0 dBi gain is not 1'
        g = ag.AntGainOmni(case['angles'][0] / 10.0)
        if abs(float(g.get_antenna_gain(0.0)) - 10.0 ** (case['angles'][0] / 100.0)) > 1e-12 * float(g.get_antenna_gain(0.0)):
            return 'R8:ant:omni-gain', 'AntGainOmni(%r) gain %r' % (case['angles'][0] / 10.0, g.get_antenna_gain(0.0))
        return None
    o, _ = build(case)
    o.handle_small_distances_bool = True
    nw = case.get('nw')
    kw = _kw(nw)
    ds = _dists(case)
    arr = np.array(ds, dtype=float)
    with warnings.catch_warnings():
        warnings.simplefilter('ignore')
        # ---- positional / keyword / default
        for d in ds + [arr]:
            ref = o.calc_path_loss_dB(d, **kw)
            forms = {'keyword-d': o.calc_path_loss_dB(d=d, **kw)}
            if kind == 'ps7':
                forms['det-positional'] = np.maximum(o._calc_deterministic_path_loss_dB(d, nw), 0.0)
                forms['det-keyword'] = np.maximum(o._calc_deterministic_path_loss_dB(d=d, num_walls=nw), 0.0)
                forms['same-floor-helper'] = np.maximum(o._calc_PS7_path_loss_dB_same_floor(d, nw), 0.0)
                if nw == 0:
                    forms['default-walls'] = o.calc_path_loss_dB(d)
                    forms['default-walls-lin'] = -10.0 * np.log10(o.calc_path_loss(d))
            else:
                forms['det'] = np.maximum(o._calc_deterministic_path_loss_dB(d), 0.0)
            for name, v in forms.items():
                if not _same(ref, v, 1e-12):
                    return 'R8:%s:%s' % (kind, name), 'd=%r: %r vs calc_path_loss_dB %r' % (d, v, ref)
            # ---- equivalent entry points: linear scale forwards every argument
            lin = o.calc_path_loss(d, **kw)
            if not _same(lin, 10.0 ** (-np.asarray(ref, dtype=float) / 10.0), 1e-12) or \
                    not _same(lin, o.calc_path_loss(d=d, **kw)):
                return 'R8:%s:linear-vs-dB' % kind, 'd=%r (walls %r): calc_path_loss %r, calc_path_loss_dB %r' % (d, nw, lin, ref)
        # ---- scalar = 0-d = length-1
        d = ds[0]
        r = (o.calc_path_loss_dB(d, **kw), o.calc_path_loss_dB(np.array(d), **kw),
             np.asarray(o.calc_path_loss_dB(np.array([d]), **kw)).ravel()[0],
             np.asarray(o.calc_path_loss_dB([d], **kw)).ravel()[0])
        if not all(_same(r[0], y, 1e-12) for y in r[1:]):
            return 'R8:%s:scalar-0d-len1' % kind, 'd=%r: %r' % (d, r)
        # ---- which_distance family
        if kind != 'oh':
            for p in case.get('pl', []):
                ref = o.which_distance_dB(p, **kw)
                forms = {'keyword-PL': o.which_distance_dB(PL=p, **kw),
                         'via-linear': o.which_distance(10.0 ** (-p / 10.0), **kw),
                         'via-linear-keyword': o.which_distance(pl=10.0 ** (-p / 10.0), **kw),
                         '0d': o.which_distance_dB(np.array(p), **kw),
                         'len1': np.asarray(o.which_distance_dB(np.array([p]), **kw)).ravel()[0]}
                if kind == 'ps7':
                    forms['positional-walls'] = o.which_distance_dB(p, nw)
                    if nw == 0:
                        forms['default-walls'] = o.which_distance_dB(p)
                        forms['default-walls-linear'] = o.which_distance(10.0 ** (-p / 10.0))
                for name, v in forms.items():
                    if not _same(ref, v, 1e-9):
                        return 'R8:%s:which:%s' % (kind, name), 'PL=%r walls %r: %r vs %r' % (p, nw, v, ref)
        # ---- plot helper: argument forms hand the axes the same curve
        recs = []
        for form in range(5):
            ax = _AxRec()
            if form == 0:
                o.plot_deterministic_path_loss_in_dB(arr, ax)
            elif form == 1:
                o.plot_deterministic_path_loss_in_dB(d=arr, ax=ax, extra_args=None)
            elif form == 2:
                o.plot_deterministic_path_loss_in_dB(arr, ax, {})
            elif form == 3:
                o.plot_deterministic_path_loss_in_dB(arr, ax=ax, extra_args={'label': 'x'})
            else:
                o._plot_deterministic_path_loss_in_dB_impl(arr, ax, None)
            recs.append(ax.calls)
        base = recs[0]
        if len(base) != 1 or not _same(base[0][0][0], arr) or \
                not _same(base[0][0][1], o.calc_path_loss_dB(arr) if kind != 'ps7' else o.calc_path_loss_dB(arr, num_walls=0), 1e-12):
            return 'R8:%s:plot-curve' % kind, 'the axes received %r' % (base,)
        for i, rcd in enumerate(recs[1:], 1):
            if len(rcd) != 1 or rcd[0][0] != base[0][0]:
                return 'R8:%s:plot-form-%d' % (kind, i), 'argument form %d plots %r, form 0 %r' % (i, rcd, base)
        if recs[3][0][1] != ('label',):
            return 'R8:%s:plot-extra-args' % kind, 'extra_args not forwarded: %r' % (recs[3],)
    # ---- constructor path = setter path = later replacement
    if kind == 'fs':
        n, fc = o.n, o.fc
        twins = {'positional': pl.PathLossFreeSpace(n, fc), 'keyword': pl.PathLossFreeSpace(fc=fc, n=n),
                 'setters': pl.PathLossFreeSpace(), 'replaced': pl.PathLossFreeSpace(5.5, 17.0)}
        for k in ('setters', 'replaced'):
            twins[k].fc = fc
            twins[k].n = n
        g = pl.PathLossGeneral(n, o._C)
        g2 = pl.PathLossGeneral(C=o._C, n=n)
        twins['general'], twins['general-keyword'] = g, g2
        if not (vars(pl.PathLossFreeSpace()) == vars(pl.PathLossFreeSpace(2.0, 900.0)) == vars(pl.PathLossFreeSpace(n=2.0, fc=900.0))):
            return 'R8:fs:explicit-default', 'PathLossFreeSpace() differs from PathLossFreeSpace(2.0, 900.0)'
    elif kind == 'ps7':
        twins = {'positional': pl.PathLossMetisPS7(o.fc), 'keyword': pl.PathLossMetisPS7(fc=o.fc),
                 'setters': pl.PathLossMetisPS7(), 'replaced': pl.PathLossMetisPS7(123.0)}
        for k in ('setters', 'replaced'):
            twins[k].fc = o.fc
        if vars(pl.PathLossMetisPS7()) != vars(pl.PathLossMetisPS7(900.0)):
            return 'R8:ps7:explicit-default', 'PathLossMetisPS7() differs from PathLossMetisPS7(900.0)'
    elif kind == 'gpp':
        twins = {'general': pl.PathLossGeneral(3.76, 128.1), 'general-keyword': pl.PathLossGeneral(C=128.1, n=3.76)}
    elif kind == 'gen':
        twins = {'keyword': pl.PathLossGeneral(C=case['ctor'][1], n=case['ctor'][0])}
    else:
        twins = {}
    for name, t in twins.items():
        t.handle_small_distances_bool = True
        a, b = call_db(o, arr, nw), call_db(t, arr, nw)
        if not _same(a, b):
            return 'R8:%s:ctor-vs-%s' % (kind, name), 'object %r, twin built by %s %r' % (np.asarray(a).tolist(), name, np.asarray(b).tolist())
        if kind != 'oh' and not _same(o.which_distance_dB(77.0, **kw), t.which_distance_dB(77.0, **kw)):
            return 'R8:%s:ctor-vs-%s' % (kind, name), 'which_distance_dB differs'
    return None


def o_counts(case):
    """R9: the wall count (and the sector count) as python int, numpy integers of every width, intp, bool, 0-d
    array, including counts above 256: the answer is that of the python int"""
    pl, ag = _impl()
    if case['kind'] == 'ant':
        for k in (3, 6):
            ref = ag.AntGainBS3GPP25996(k)
            for ct in ('int8', 'uint8', 'int16', 'int64', 'uint64', 'intp', '0d'):
                try:
                    a = ag.AntGainBS3GPP25996(make_count(k, {'wstype': ct}))
                except Exception as e:
                    return 'R9:ant:%s' % ct, 'AntGainBS3GPP25996(%s(%d)) raised %r' % (ct, k, e)
                if (a.theta_3db, a.Am, a.ant_gain) != (ref.theta_3db, ref.Am, ref.ant_gain):
                    return 'R9:ant:%s' % ct, 'sector count %s(%d) gives other parameters' % (ct, k)
        for bad in (True, np.int8(4), np.array(5), 300):
            try:
                ag.AntGainBS3GPP25996(bad)
                return 'R9:ant:accepted-%r' % (bad,), 'sector count %r accepted' % (bad,)
            except ValueError:
                pass
        return None
    o, _ = build(case)
    o.handle_small_distances_bool = True
    w = int(case['walls'])
    d = _dists(case)
    arr = np.array(d, dtype=float)
    bucket = '<27' if w < 27 else '27..255' if w < 256 else '>=256'
    with warnings.catch_warnings():
        warnings.simplefilter('ignore')
        ref = (float(o.calc_path_loss_dB(d[0], num_walls=w)), np.asarray(o.calc_path_loss_dB(arr, num_walls=w)),
               float(o.calc_path_loss(d[0], num_walls=w)), float(o.which_distance_dB(88.0, num_walls=w)),
               float(o.which_distance(1e-9, num_walls=w)))
        step = float(o._calc_deterministic_path_loss_dB(d[0], max(w, 1) + 1)) - float(o._calc_deterministic_path_loss_dB(d[0], max(w, 1)))
        if abs(step - (float(o._calc_deterministic_path_loss_dB(d[0], 2)) - float(o._calc_deterministic_path_loss_dB(d[0], 1)))) > 1e-9:
            return 'R9:ps7:int:%s' % bucket, 'the loss step per wall at %d walls is %r' % (w, step)
        for ct in case['types']:
            if not count_fits(w, ct):
                continue
            c = make_count(w, {'wstype': ct})
            cls = 'R9:ps7:%s:%s' % (ct, bucket)
            try:
                got = (float(o.calc_path_loss_dB(d[0], num_walls=c)), np.asarray(o.calc_path_loss_dB(arr, num_walls=c)),
                       float(o.calc_path_loss(d[0], num_walls=c)), float(o.which_distance_dB(88.0, num_walls=c)),
                       float(o.which_distance(1e-9, num_walls=c)))
            except Exception as e:
                return cls, '%d walls as %s: %r' % (w, ct, e)
            for name, a, b in zip(('calc_path_loss_dB', 'calc_path_loss_dB(array)', 'calc_path_loss', 'which_distance_dB',
                                   'which_distance'), got, ref):
                if not _same(a, b, 1e-12):
                    return cls, '%s with %d walls as %s: %r, as int %r' % (name, w, ct, np.asarray(a).tolist(), np.asarray(b).tolist())
            if ct not in ('bool', '0d', 'int') and w > 0:
                wa = np.array([w, 0, w], dtype=ct)
                ga = np.asarray(o.calc_path_loss_dB(np.array([d[0], d[0], d[-1]]), num_walls=wa), dtype=float)
                ea = [float(o.calc_path_loss_dB(d[0], num_walls=w)), float(o.calc_path_loss_dB(d[0], num_walls=0)),
                      float(o.calc_path_loss_dB(d[-1], num_walls=w))]
                if not _same(ga, ea, 1e-12):
                    return cls + ':array', 'wall-count array %r of dtype %s: %r, expected %r' % (wa.tolist(), ct, ga.tolist(), ea)
    return None


def o_derived(case):
    """R13: an object derived from another (copy / deepcopy / pickle round trip) and then changed further stays
    independent of its parent, and the parent of the child; a round trip of the child gives back the child"""
    import copy
    import pickle
    kind = case['kind']
    nw = case.get('nw')
    d = _dists(case)
    parent, _ = build(case)
    how = case['how']
    child = {'copy': copy.copy, 'deepcopy': copy.deepcopy, 'pickle': lambda x: pickle.loads(pickle.dumps(x))}[how](parent)
    if config_of(child) != config_of(parent) or observe(child, d, nw) != observe(parent, d, nw):
        return 'R13:%s:%s:child-differs' % (kind, how), 'the derived object differs from its parent'
    p_before = observe(parent, d, nw)
    for name, v in case['child_hist']:
        apply_setter(child, name, v)
    if observe(parent, d, nw) != p_before:
        return 'R13:%s:%s:parent-follows-child' % (kind, how), 'setters %r on the child changed the parent' % (case['child_hist'],)
    expect_child, _ = build({'kind': kind, 'ctor': case.get('ctor'), 'hist': list(case.get('hist', [])) + list(case['child_hist'])})
    if observe(child, d, nw) != observe(expect_child, d, nw):
        return 'R13:%s:%s:child-history' % (kind, how), 'the child does not behave like an object with the joint history'
    c_before = observe(child, d, nw)
    for name, v in case['parent_hist']:
        apply_setter(parent, name, v)
    if observe(child, d, nw) != c_before:
        return 'R13:%s:%s:child-follows-parent' % (kind, how), 'setters %r on the parent changed the child' % (case['parent_hist'],)
    again = pickle.loads(pickle.dumps(child))
    again2 = copy.deepcopy(child)
    for x in (again, again2):
        if observe(x, d, nw) != c_before:
            return 'R13:%s:%s:round-trip' % (kind, how), 'a round trip of the child does not give back the child'
    return None


def o_bigcount(case):
    """R14: counts of 257, 258, 300, 65537 entries / setter calls"""
    pl, ag = _impl()
    kind = case['kind']
    N = int(case['N'])
    rs = np.random.RandomState(case['npseed'])
    if kind == 'ant':
        a = ag.AntGainBS3GPP25996(case['sectors'])
        ang = rs.uniform(-180.0, 180.0, N)
        g = np.asarray(a.get_antenna_gain(ang), dtype=float)
        if g.shape != (N,):
            return 'R14:ant:N=%d' % N, 'shape %r' % (g.shape,)
        for i in [0, N - 1] + rs.randint(0, N, 40).tolist():
            if not num_close(float(g[i]), float(a.get_antenna_gain(float(ang[i]))), True, 1e-12):
                return 'R14:ant:N=%d' % N, 'entry %d of %d' % (i, N)
        return None
    nw = case.get('nw')
    case2 = dict(case)
    if case.get('long_history'):
        case2['hist'] = list(case.get('hist', []))
    o, _ = build(case2)
    o.handle_small_distances_bool = True
    lo, hi = (-1.0, 5.0) if kind == 'ps7' else (-3.0, 3.0)
    dist = np.sort(10.0 ** rs.uniform(lo - 4.0, hi, N))
    with warnings.catch_warnings():
        warnings.simplefilter('ignore')
        r = np.asarray(call_db(o, dist, nw), dtype=float)
        if r.shape != (N,):
            return 'R14:%s:N=%d' % (kind, N), 'shape %r' % (r.shape,)
        if np.any(np.diff(r) < -1e-9) or np.any(r < 0):
            return 'R14:%s:N=%d' % (kind, N), 'not monotone / negative over %d sorted distances' % N
        idx = [0, 1, N - 2, N - 1] + rs.randint(0, N, 60).tolist()
        for i in idx:
            if not num_close(float(r[i]), float(call_db(o, float(dist[i]), nw)), False, 1e-9):
                return 'R14:%s:N=%d' % (kind, N), 'entry %d of %d: %r vs scalar %r' % (i, N, r[i], call_db(o, float(dist[i]), nw))
        lin = np.asarray(call_lin(o, dist, nw), dtype=float)
        if not _same(lin, 10.0 ** (-r / 10.0), 1e-12):
            return 'R14:%s:N=%d' % (kind, N), 'linear values differ from 10^(-dB/10)'
        if kind != 'oh':
            back = np.asarray(o.which_distance_dB(r, **_kw(nw)), dtype=float)
            pos = r > 1e-6
            if not np.all(np.abs(back[pos] - dist[pos]) <= 1e-9 * dist[pos]):
                return 'R14:%s:N=%d' % (kind, N), 'which_distance_dB over %d losses is not the inverse' % N
        if kind == 'ps7':
            walls = rs.randint(0, 7, N)
            rw = np.asarray(o.calc_path_loss_dB(dist, num_walls=walls), dtype=float)
            for i in idx:
                e = float(o.calc_path_loss_dB(float(dist[i]), num_walls=int(walls[i])))
                if not num_close(float(rw[i]), e, False, 1e-9):
                    return 'R14:ps7:walls:N=%d' % N, 'entry %d: %r vs %r' % (i, rw[i], e)
    return o_history(case2) if case.get('long_history') else None


def o_history_exception(case):
    """replay of an exception the library raised while a history was being prepared: run the recorded ops, then
    the preparation steps (deterministic loss of a distance grid, scalar / array, every wall count)"""
    kind = case['kind']
    o, _ = build({'kind': kind, 'ctor': case.get('ctor'), 'hist': case.get('hist', [])})
    try:
        for op in case.get('ops', []):
            op, fmt = split_fmt(op)
            if op[0] in ('small', 'area', 'n', 'fc', 'hbs', 'hms'):
                apply_setter(o, op[0], make_scalar(op[1], fmt) if op[0] not in ('small', 'area') else op[1])
            elif op[0] == 'shadow':
                o.use_shadow_bool = bool(op[1])
        if kind == 'ant':
            o.get_antenna_gain(np.array([0.0, 30.0]))
            return None
        for nw in ((0, 1, 3) if kind == 'ps7' else (None,)):
            for dd in (1e-9, 1e-3, 1.0, 30.0, 1e3):
                det_db(o, dd, nw)
            det_db(o, np.array([1e-9, 1.0, 1e3]), nw)
    except Exception as e:
        return 'exception:%s:%s' % (kind, type(e).__name__), repr(e)[:300]
    return None


ORACLES = {
    'calc_path_loss_dB.monotone': o_monotone,
    'calc_path_loss.linear': o_linear,
    'which_distance_dB.inverse': o_inverse,
    'calc_path_loss_dB.small-distance': o_policy,
    'PathLossFreeSpace.friis': o_friis,
    'setters.history': o_history,
    'get_antenna_gain': o_antenna,
    'robust.twin': o_twin,
    'robust.rejected': o_rejected,
    'robust.boundary': o_boundary,
    'robust.scale': o_scale,
    'robust.shared': o_shared,
    'robust.nonmutating': o_nonmutating,
    'robust.flagtypes': o_flagtypes,
    'robust.argforms': o_argforms,
    'robust.counts': o_counts,
    'robust.derived': o_derived,
    'robust.bigcount': o_bigcount,
    'history.exception': o_history_exception,
}


def _r15r16():
    """R15 / R16 live in harness/props/c13_r15r16.py"""
    from harness.props import c13_r15r16
    for k_, v_ in c13_r15r16.ORACLES.items():
        ORACLES.setdefault(k_, v_)
    return c13_r15r16


def run_oracle(ctx, call, case, nontrivial=True):
    ctx.count((call, repr(case)), nontrivial)
    try:
        r = ORACLES[call](case)
    except Exception as e:
        r = ('exception:%s:%s' % (case.get('kind', ''), type(e).__name__), repr(e)[:300])
    if r is not None:
        ctx.fail(call, r[0], case, r[1])
        ctx.branch('oracle-fail:' + call)
    else:
        ctx.branch('oracle-ok:' + call)
    return r


def replay(ctx, rep):
    _r15r16()
    return ORACLES[rep['call']](rep['case']) is not None


def oracle_case(rng, kind, hist_len):
    """object description + setter history + query points for the oracles"""
    case = {'kind': kind, 'ctor': None, 'hist': []}
    if kind == 'gen':
        case['ctor'] = [nice(rng, rng.uniform(0.3, 6.0)), nice(rng, rng.uniform(-20.0, 150.0))]
    elif kind == 'fs':
        case['ctor'] = None if rng.chance(0.3) else [nice(rng, rng.uniform(0.3, 6.0)), nice(rng, logu(rng, 0.0, 5.0))]
        case['hist'] = [fs_setter(rng) for _ in range(rng.randint(0, hist_len))]
    elif kind == 'ps7':
        case['ctor'] = None if rng.chance(0.3) else [nice(rng, logu(rng, 2.0, 5.0))]
        case['hist'] = [['fc', nice(rng, logu(rng, 2.0, 5.0))] for _ in range(rng.randint(0, hist_len))]
        case['nw'] = 0 if rng.chance(0.35) else rng.randint(1, 8)
    elif kind == 'oh':
        case['hist'] = [oh_setter(rng) for _ in range(rng.randint(0, hist_len))]
    lo, hi = (-1.0, 5.0) if kind == 'ps7' else (-3.0, 3.0)
    case['d'] = [gen_dist(rng, lo, hi) for _ in range(rng.randint(2, 8))]
    if rng.chance(0.5):
        case['d'] += [gen_dist(rng, -9.0, -4.0) for _ in range(rng.randint(1, 2))]
    case['pl'] = [nice(rng, rng.uniform(1.0, 220.0)) for _ in range(rng.randint(1, 4))]
    return case


# ------------------------------------------------------------------ generators for the R-classes
SHAPES = {1: [[1], [1, 1]], 2: [[2], [2, 1], [1, 2]], 4: [[4], [2, 2], [4, 1], [1, 4]],
          6: [[6], [2, 3], [3, 2], [6, 1], [1, 6]], 8: [[8], [2, 4], [4, 2], [2, 2, 2], [8, 1], [1, 8]],
          12: [[12], [3, 4], [4, 3], [2, 2, 3], [2, 3, 2], [12, 1], [1, 12], [2, 6]]}


def conv_value(v, dt, vk):
    """the value of kind `vk` ('dist' | 'db' | 'lin' | 'angle') made exactly representable in dtype `dt`"""
    if dt == 'mixed':
        return max(0.5, round(abs(v) * 2.0) / 2.0) * (-1.0 if (v < 0 and vk == 'angle') else 1.0)
    if dt in INT_TYPES or dt == 'int':
        info = np.iinfo('int64' if dt == 'int' else dt)
        lo = 1 if vk in ('dist', 'lin') else (0 if vk == 'db' else max(info.min, -180))
        hi = min(info.max, 30000 if vk == 'dist' else 250 if vk == 'db' else 1 if vk == 'lin' else 180)
        return float(min(max(int(round(v)), max(lo, info.min)), hi))
    if dt in NARROW_FLOATS:
        if dt == 'float16' and vk in ('dist', 'lin'):
            v = min(max(v, 1e-3), 6e4)
        return float(np.dtype(dt).type(v))
    return float(v)


def rand_array_fmt(rng, vk, allow_seq=True, allow_empty=True):
    """(n_values, fmt) — element type, shape and layout of an array argument"""
    r = rng.uniform()
    if vk == 'lin':
        dts = ['float64'] * 6 + ['float32']
    elif vk == 'db':
        dts = ['float64'] * 4 + ['int16', 'int32', 'int64', 'uint8', 'uint16', 'float32']
    elif vk == 'angle':
        dts = ['float64'] * 4 + ['int8', 'int16', 'int32', 'int64', 'uint8', 'float32', 'float16']
    else:
        dts = ['float64'] * 4 + ['int16', 'int32', 'int64', 'uint8', 'uint16', 'float32', 'float32']
    dt = rng.choice(dts)
    if allow_empty and r < 0.04:
        shape = rng.choice([[0], [0, 3], [2, 0]])
        return 0, {'dtype': dt, 'shape': shape, 'layout': 'C'}
    if r < 0.10:
        return 1, {'dtype': dt, 'layout': '0d'}
    if allow_seq and r < 0.16 and dt in ('float64', 'int64'):
        return rng.choice([1, 2, 4, 6]), {'dtype': dt, 'layout': rng.choice(['list', 'tuple'])}
    if allow_seq and r < 0.22 and vk in ('dist', 'angle'):
        return rng.choice([2, 4, 6, 7]), {'dtype': 'float64', 'layout': 'mixed', 'first': rng.choice(['int', 'any'])}
    n = rng.choice([1, 2, 4, 6, 8, 12])
    shape = rng.choice(SHAPES[n])
    lay = rng.choice(['C', 'C', 'F', 'T', 'rev', 'stride2', 'bcast'])
    if lay == 'bcast':
        m = rng.choice([1, 2, 3, 4])
        k = rng.choice([2, 3])
        return m, {'dtype': dt, 'shape': [k, m], 'layout': 'bcast'}
    return n, {'dtype': dt, 'shape': shape, 'layout': lay}


def rand_scalar_fmt(rng, vk):
    if vk == 'lin':
        st = rng.choice(['float32', 'int', 'uint8', 'int16'])
    elif vk == 'db':
        st = rng.choice(['int', 'int8', 'uint8', 'int16', 'uint16', 'int32', 'int64', 'float32'])
    elif vk == 'angle':
        st = rng.choice(['int', 'int8', 'int16', 'int32', 'int64', 'uint8', 'float32', 'float16'])
    else:
        st = rng.choice(['int', 'int8', 'uint8', 'int16', 'uint16', 'int32', 'int64', 'float32', 'float16'])
    return {'stype': st}


def fmt_margin(fmt):
    dt = (fmt or {}).get('dtype', (fmt or {}).get('stype', 'float64'))
    return 2.0 if dt == 'float16' else 1e-2 if dt == 'float32' else 1e-6


def safe_values(o, vals, nw, fmt):
    """no logical value within the type-dependent margin of the policy threshold"""
    m = fmt_margin(fmt)
    for i, d in enumerate(vals):
        w = nw[i] if isinstance(nw, list) else nw
        if not abs(float(det_db(o, d, w))) > m:
            return False
    return True


def typed_dists(rng, o, nw, lo, hi, small_p=0.3, allow_seq=True):
    """(values, fmt) for a distance-array query, or None when a value is too close to the threshold"""
    n, fmt = rand_array_fmt(rng, 'dist', allow_seq)
    dt = fmt['dtype']
    vals = []
    for _ in range(n):
        v = gen_dist(rng, -9.0, -4.0) if (rng.chance(small_p) and dt not in INT_TYPES) else gen_dist(rng, lo, hi)
        if dt in INT_TYPES or fmt.get('layout') == 'mixed':
            v = 10.0 ** rng.uniform(0.0, 2.3)
        vals.append(conv_value(v, 'mixed' if fmt.get('layout') == 'mixed' else dt, 'dist'))
    if not safe_values(o, logical_values(vals, fmt), nw, fmt):
        return None
    return vals, fmt


def robust_oracles(ctx, n_cases, hist_len):
    """R1-R7 on the real code; every class has its own required branch"""
    rng = ctx.rng.fork('robust')
    kinds = ['fs', 'gen', 'gpp', 'ps7', 'oh', 'fs', 'ps7', 'oh']
    for i in range(n_cases):
        kind = kinds[i % len(kinds)]
        base = oracle_case(rng, kind, min(hist_len, 8))
        try:
            build(base)
            det_db(build(base)[0], 1.0, base.get('nw'))
        except Exception as e:
            library_exception(ctx, kind, e, {'kind': kind, 'ctor': base.get('ctor'), 'hist': base.get('hist', [])})
            continue
        if kind == 'gen' and rng.chance(0.6):
            base['ctor'][1] = nice(rng, rng.uniform(-60.0, -5.0))     # integer distances can be "too small"
        o, _ = build(base)
        nw = base.get('nw')
        lo, hi = (-1.0, 5.0) if kind == 'ps7' else (-3.0, 3.0)
        # ---- R1 / R2 / R3: typed and shaped twins of the same logical values, both policies
        for rep in range(3):
            q = rng.choice(['db', 'db', 'db', 'lin', 'wdb', 'wl'])
            if kind == 'oh' and q in ('wdb', 'wl'):
                q = 'db'
            vk = {'db': 'dist', 'lin': 'dist', 'wdb': 'db', 'wl': 'lin'}[q]
            case = {k: base[k] for k in ('kind', 'ctor', 'hist') if k in base}
            if nw is not None:
                case['nw'] = nw
            case['query'] = q
            case['small'] = rng.below(2)
            if rng.chance(0.25):
                fmt = rand_scalar_fmt(rng, vk)
                v = gen_dist(rng, lo, hi) if vk == 'dist' else rng.uniform(1.0, 220.0) if vk == 'db' else 1.0
                if vk == 'dist' and fmt['stype'] in INT_TYPES + ('int',):
                    v = 10.0 ** rng.uniform(0.0, 2.0)
                vals = [conv_value(v, fmt['stype'], vk)]
                if vk == 'dist' and not safe_values(o, vals, nw, {'dtype': fmt['stype']}):
                    continue
            elif vk == 'dist':
                tv = typed_dists(rng, o, nw, lo, hi, allow_seq=True)
                if tv is None:
                    continue
                vals, fmt = tv
            else:
                n, fmt = rand_array_fmt(rng, vk, allow_seq=False)
                if vk == 'lin' and rng.chance(0.15):
                    fmt['dtype'] = rng.choice(['uint8', 'int16', 'int64'])     # the linear value 1 (0 dB)
                gen = (lambda: rng.uniform(1.0, 220.0)) if vk == 'db' else (lambda: logu(rng, -18.0, 0.0))
                vals = [conv_value(gen(), fmt['dtype'], vk) for _ in range(n)]
            case['values'], case['fmt'] = vals, fmt
            fmt_branches(ctx, fmt, 'oracle:')
            ctx.branch('oracle:R3:checked')
            ctx.branch('oracle:policy-%s' % ('clamp' if case['small'] else 'raise'))
            run_oracle(ctx, 'robust.twin', case)
        if kind == 'ps7' and rng.chance(0.7):
            k, m = rng.choice([2, 3]), rng.choice([2, 3, 4])
            wcol = rng.chance(0.5)
            nws = [0 if rng.chance(0.4) else rng.randint(1, 6) for _ in range(k if wcol else k * m)]
            ds = [gen_dist(rng, -9.0, -3.0) if rng.chance(0.3) else gen_dist(rng, -1.0, 5.0) for _ in range(k * m)]
            fmt = {'dtype': 'float64', 'shape': [k, m], 'layout': rng.choice(['C', 'F', 'T']), 'wcol': wcol,
                   'wdtype': rng.choice(['int64', 'int32', 'uint8', 'int8'])}
            if safe_values(o, ds, logical_walls(nws, fmt, k * m), fmt):
                ctx.branch('oracle:R2:ps7-array-walls-2d')
                run_oracle(ctx, 'robust.twin', {'kind': 'ps7', 'ctor': base['ctor'], 'hist': base['hist'], 'query': 'db',
                                                'small': rng.below(2), 'values': ds, 'nws': nws, 'fmt': fmt})
        # ---- R4: rejected calls
        probe = [gen_dist(rng, lo, hi) for _ in range(3)]
        after = [fs_setter(rng) for _ in range(2)] if kind == 'fs' else [oh_setter(rng) for _ in range(3)] \
            if kind == 'oh' else [['fc', nice(rng, logu(rng, 2.0, 5.0))]] if kind == 'ps7' else [['small', 1]]
        rejects = [['policy-raise', 1e-30], ['policy-raise', [probe[0], 1e-30]], ['policy-raise-lin', [1e-30, probe[1]]],
                   ['d-zero', 0.0], ['d-negative', -1.0], ['bad-type', 'abc'], ['plot-raise', [1e-30, probe[0]]]]
        if kind == 'oh':
            rejects += [['setter', ['fc', 149.0]], ['setter', ['hbs', 201.0]], ['setter', ['hms', 0.5]],
                        ['setter', ['area', 'rural']], ['which-not-offered', 100.0]]
        if kind == 'ps7':
            rejects += [['neg-walls', -1], ['neg-walls-which', -2]]
        rej = rejects[(i // len(kinds)) % len(rejects)]
        hist = [h for h in base['hist']] + ([['small', 0]] if rej[0].startswith('policy') or rej[0] == 'plot-raise' else [])
        ctx.branch('oracle:R4:' + rej[0])
        run_oracle(ctx, 'robust.rejected', {'kind': kind, 'ctor': base['ctor'], 'hist': hist, 'nw': nw, 'reject': rej,
                                            'probe': probe, 'after': after})
        # ---- R5 boundary values, R6 scale, R7 long-lived / shared objects
        bc = {'kind': kind, 'ctor': base['ctor'], 'hist': base['hist'], 'nw': nw}
        if kind == 'gen':
            bc['degenerate'] = nice(rng, rng.uniform(-30.0, 120.0))
        ctx.branch('oracle:R5:boundary')
        run_oracle(ctx, 'robust.boundary', bc)
        ctx.branch('oracle:R6:scale')
        run_oracle(ctx, 'robust.scale', {'kind': kind, 'ctor': base['ctor'], 'hist': base['hist'], 'nw': nw,
                                         'd': [gen_dist(rng, lo, hi) for _ in range(3)],
                                         'k': rng.choice([-12, -9, -6, -3, -1, 1, 3, 6, 9, 12])})
        long_hist = list(base['hist'])
        for _ in range(rng.randint(0, hist_len)):
            long_hist.append(fs_setter(rng) if kind == 'fs' else oh_setter(rng) if kind == 'oh'
                             else ['fc', nice(rng, logu(rng, 2.0, 5.0))] if kind == 'ps7' else ['small', rng.below(2)])
        if long_hist and rng.chance(0.5):
            long_hist += [long_hist[-1]] * rng.randint(1, 3)
        ctx.branch('oracle:R7:shared')
        run_oracle(ctx, 'robust.shared', {'kind': kind, 'ctor': base['ctor'], 'hist': long_hist, 'nw': nw,
                                          'd': [gen_dist(rng, lo, hi) for _ in range(3)], 'pl': base['pl']})
        # ---- R7: public calls that are not setters, flags differing from each other and from the defaults
        for rep in range(2):
            small, shadow = rng.choice([(1, 0), (1, 0), (0, 1), (0, 1), (1, 1), (0, 0)])
            calls = [rng.choice(NONMUT_CALLS) for _ in range(rng.randint(1, 4))]
            if kind == 'oh':
                calls = [c for c in calls if c not in ('wdb', 'wl')] or ['plot-stub']
            if rep == 0:
                calls[0] = NONMUT_CALLS[(i // len(kinds)) % len(NONMUT_CALLS)]      # every entry point in turn
                if kind == 'oh' and calls[0] in ('wdb', 'wl'):
                    calls[0] = 'plot-stub'
            for c in calls:
                ctx.branch('oracle:R7:nonmut:' + (c if c.startswith('plot') else 'nop' if c.startswith('nop') else 'query'))
            ctx.branch('oracle:R7:nonmut:flags=s%dh%d' % (small, shadow))
            run_oracle(ctx, 'robust.nonmutating',
                       {'kind': kind, 'ctor': base['ctor'], 'hist': base['hist'], 'nw': nw, 'calls': calls,
                        'flags': {'small': small, 'shadow': shadow, 'sigma': nice(rng, rng.uniform(0.5, 12.0))},
                        'd': [gen_dist(rng, lo, hi) for _ in range(3)], 'npseed': rng.below(1 << 30)})
        # ---- R8 argument forms / equivalent entry points; R9 counts; R13 derived objects
        ctx.branch('oracle:R8:argforms')
        run_oracle(ctx, 'robust.argforms', {'kind': kind, 'ctor': base['ctor'], 'hist': base['hist'], 'nw': nw,
                                            'd': [gen_dist(rng, lo, hi) for _ in range(3)],
                                            'pl': [nice(rng, rng.uniform(1.0, 200.0)) for _ in range(2)]})
        if kind == 'ps7':
            w = rng.choice([0, 1, 2, 5, 26, 27, 53, 100, 127, 128, 255, 256, 257, 300, 1000])
            ctx.branch('oracle:R9:walls' + ('>=256' if w >= 256 else '<256'))
            run_oracle(ctx, 'robust.counts', {'kind': 'ps7', 'ctor': base['ctor'], 'hist': base['hist'], 'walls': w,
                                              'types': COUNT_TYPES, 'd': [gen_dist(rng, 0.0, 4.0) for _ in range(2)]})
        how = rng.choice(['copy', 'deepcopy', 'pickle'])
        mk = (lambda: fs_setter(rng)) if kind == 'fs' else (lambda: oh_setter(rng)) if kind == 'oh' else \
            (lambda: ['fc', nice(rng, logu(rng, 2.0, 5.0))] if rng.chance(0.7) else ['small', rng.below(2)]) if kind == 'ps7' \
            else (lambda: ['small', rng.below(2)])
        ctx.branch('oracle:R13:' + how)
        run_oracle(ctx, 'robust.derived', {'kind': kind, 'ctor': base['ctor'], 'hist': base['hist'], 'nw': nw, 'how': how,
                                           'child_hist': [mk() for _ in range(rng.randint(1, 4))],
                                           'parent_hist': [mk() for _ in range(rng.randint(1, 4))],
                                           'd': [gen_dist(rng, lo, hi) for _ in range(3)]})
        if i < 5 * len(kinds):
            ctx.branch('oracle:R1:flag-types')
            run_oracle(ctx, 'robust.flagtypes', {'kind': kind, 'ctor': base['ctor'], 'hist': base['hist'], 'nw': nw,
                                                 'd': [gen_dist(rng, 0.0 if kind != 'ps7' else 1.0, hi)]})
    # ---- R14: counts of 257 / 258 / 300 / 65537 (one of each size class per quick run, more in thorough)
    sizes = [257, 258, 300, 65537] if n_cases < 2000 else [257, 258, 300, 65537] * 4 + [256, 1024, 4097]
    for j, N in enumerate(sizes):
        kind = ['fs', 'ps7', 'oh', 'gpp', 'gen'][j % 5]
        base = oracle_case(rng, kind, 4)
        c = {'kind': kind, 'ctor': base['ctor'], 'hist': base['hist'], 'nw': base.get('nw'), 'N': N,
             'npseed': rng.below(1 << 30), 'd': base['d'], 'pl': base['pl']}
        if N <= 300 and kind in ('fs', 'oh', 'ps7'):
            mk = (lambda: fs_setter(rng)) if kind == 'fs' else (lambda: oh_setter(rng)) if kind == 'oh' else \
                (lambda: ['fc', nice(rng, logu(rng, 2.0, 5.0))])
            c['hist'] = [mk() for _ in range(N)]          # a history of N setter calls
            c['long_history'] = True
            ctx.branch('oracle:R14:history-of-N-setters')
        ctx.branch('oracle:R14:N=%d' % N if N in (257, 258, 300, 65537) else 'oracle:R14:other')
        run_oracle(ctx, 'robust.bigcount', c)
    run_oracle(ctx, 'robust.bigcount', {'kind': 'ant', 'sectors': 3, 'N': 65537, 'npseed': rng.below(1 << 30)})
    run_oracle(ctx, 'robust.bigcount', {'kind': 'ant', 'sectors': 6, 'N': 257, 'npseed': rng.below(1 << 30)})
    for rep in range(3):
        ctx.branch('oracle:R8:argforms-ant')
        run_oracle(ctx, 'robust.argforms', {'kind': 'ant', 'angles': [nice(rng, rng.uniform(-180.0, 180.0)) for _ in range(4)]})
    ctx.branch('oracle:R9:sectors')
    run_oracle(ctx, 'robust.counts', {'kind': 'ant'})
    # ---- antenna: typed / shaped angle arrays (int16 matters: 12*angle**2 overflows there), boundaries
    for i in range(max(12, n_cases // 4)):
        if rng.chance(0.25):
            fmt = rand_scalar_fmt(rng, 'angle')
            vals = [conv_value(rng.uniform(-180.0, 180.0), fmt['stype'], 'angle')]
            if fmt['stype'] == 'uint8':
                vals = [abs(vals[0])]
        else:
            n, fmt = rand_array_fmt(rng, 'angle', allow_seq=False)
            vals = [conv_value(rng.uniform(-180.0, 180.0), fmt['dtype'], 'angle') for _ in range(n)]
            if fmt['dtype'] == 'uint8':
                vals = [abs(v) for v in vals]
            if fmt['dtype'] == 'int8':
                vals = [max(-127.0, min(127.0, v)) for v in vals]
        if fmt.get('stype') == 'int8':
            vals = [max(-127.0, min(127.0, vals[0]))]
        fmt_branches(ctx, fmt, 'oracle:ant:')
        run_oracle(ctx, 'robust.twin', {'kind': 'ant', 'ctor': [(3, 6)[i % 2]], 'query': 'g', 'values': vals, 'fmt': fmt})
    for k in (3, 6):
        run_oracle(ctx, 'robust.boundary', {'kind': 'ant', 'sectors': k})
        run_oracle(ctx, 'robust.twin', {'kind': 'ant', 'ctor': [k], 'query': 'g',
                                        'values': [0.0, 53.0, 100.0, 117.0, -117.0, 180.0, -180.0, 30.0],
                                        'fmt': {'dtype': 'int16', 'shape': [2, 4], 'layout': 'C'}})
        ctx.branch('oracle:ant:R1:int16-wide-angles')


ROBUST_REQUIRED = (
    ['oracle:' + b for b in ('R1:int-scalar', 'R1:npint-scalar', 'R1:narrow-float-scalar', 'R1:int-array',
                             'R1:uint8-array', 'R1:narrow-float-array', 'R1:list-or-tuple', 'R2:0d', 'R2:size0',
                             'R2:Nx1', 'R2:1xN', 'R2:2d', 'R2:3d', 'R2:fortran', 'R2:transposed', 'R2:reversed',
                             'R2:strided', 'R2:broadcast', 'R2:ps7-array-walls-2d', 'R3:checked', 'policy-clamp',
                             'policy-raise', 'R4:policy-raise', 'R4:policy-raise-lin', 'R4:d-zero', 'R4:d-negative',
                             'R4:bad-type', 'R4:plot-raise', 'R4:setter', 'R4:which-not-offered', 'R4:neg-walls',
                             'R4:neg-walls-which', 'R5:boundary', 'R6:scale', 'R7:shared', 'ant:R1:int-array',
                             'ant:R1:int16-wide-angles', 'ant:R1:narrow-float-array', 'ant:R2:2d',
                             'R8:argforms', 'R8:argforms-ant', 'R9:walls>=256', 'R9:walls<256', 'R9:sectors',
                             'R10:mixed-list', 'R13:copy', 'R13:deepcopy', 'R13:pickle', 'R14:N=257', 'R14:N=258',
                             'R14:N=300', 'R14:N=65537', 'R14:history-of-N-setters',
                             'R1:flag-types', 'R7:nonmut:flags=s1h0', 'R7:nonmut:flags=s0h1', 'R7:nonmut:flags=s1h1',
                             'R7:nonmut:flags=s0h0', 'R7:nonmut:query', 'R7:nonmut:nop')]
    + ['oracle:R7:nonmut:' + c for c in NONMUT_CALLS if c.startswith('plot')]
    + ['corr:' + b for b in ('R9:count-type', 'R9:count>=256', 'R10:mixed-list', 'R14:N>=257')]
    + ['corr:' + b for b in ('R7:flags=s1h0', 'R7:flags=s0h1', 'R7:flags=s1h1', 'R7:flags=s0h0', 'R7:plot',
                             'R7:plot-too-small', 'R7:plot-axes-raise', 'R7:nop:copy', 'R7:nop:call')]
    + ['corr:' + b for b in ('R1:int-scalar', 'R1:npint-scalar', 'R1:int-array', 'R1:uint8-array',
                             'R1:narrow-float-array', 'R1:list-or-tuple', 'R2:0d', 'R2:size0', 'R2:Nx1', 'R2:1xN',
                             'R2:2d', 'R2:3d', 'R2:fortran', 'R2:transposed', 'R2:reversed', 'R2:strided',
                             'R2:broadcast')])


def corpus_oracles(ctx):
    """corpus/c13/*.json: minimised past failures and boundary inputs, always run first"""
    import glob
    import json
    import os
    for fn in sorted(glob.glob(os.path.join(core.VERIF, 'corpus', 'c13', '*.json'))):
        with open(fn) as f:
            rec = json.load(f)
        run_oracle(ctx, rec['call'], rec['case'])
        ctx.branch('corpus')


def oracles(ctx, n_cases, hist_len):
    rng = ctx.rng.fork('oracles')
    kinds = ['fs', 'fs', 'gen', 'gpp', 'ps7', 'ps7', 'oh', 'oh']
    for i in range(n_cases):
        kind = kinds[i % len(kinds)]
        case = oracle_case(rng, kind, hist_len)
        run_oracle(ctx, 'calc_path_loss_dB.monotone', case)
        run_oracle(ctx, 'calc_path_loss.linear', case)
        run_oracle(ctx, 'calc_path_loss_dB.small-distance', case)
        run_oracle(ctx, 'which_distance_dB.inverse', case)
        if kind in ('fs', 'ps7', 'oh'):
            run_oracle(ctx, 'setters.history', case, nontrivial=len(case['hist']) >= 2)
        if kind == 'fs':
            run_oracle(ctx, 'PathLossFreeSpace.friis',
                       {'fc': nice(rng, logu(rng, 0.0, 5.0)), 'hist': case['hist'], 'd': case['d']})
    for i in range(max(4, n_cases // 20)):
        angles = [0.0, 180.0, -180.0] + [nice(rng, rng.uniform(-180.0, 180.0)) for _ in range(rng.randint(3, 30))]
        run_oracle(ctx, 'get_antenna_gain', {'sectors': (3, 6)[i % 2], 'angles': angles})
    # the suite's own parameter points
    run_oracle(ctx, 'PathLossFreeSpace.friis', {'fc': 900.0, 'd': [1e-3, 1.0, 1.2, 1000.0]})
    run_oracle(ctx, 'which_distance_dB.inverse', {'kind': 'ps7', 'ctor': None, 'hist': [], 'nw': 0,
                                                  'd': [10.0, 100.0], 'pl': [60.0]})
    run_oracle(ctx, 'which_distance_dB.inverse', {'kind': 'ps7', 'ctor': None, 'hist': [], 'nw': 2,
                                                  'd': [10.0, 100.0], 'pl': [90.0]})


def check(ctx):
    ctx.rule = ('cases = (model kind, constructor args, interleaved history of setter calls and scalar/array '
                'queries); distances log-uniform over 1e-3..1e3 km (PS7: 0.1..1e5 m) plus 1e-9..1e-4 for the '
                'small-distance policy, parameters in their valid ranges plus out-of-range values for guarded '
                'setters, all area types, wall counts 0..6 (and negative), angles in [-180,180]; values within 1e-6 dB '
                'of the policy threshold are excluded (margin: 1e-2 dB for float32, 2 dB for float16 inputs); about '
                '45% of the array queries and 20% of the scalar queries / setter values carry a random element '
                'type (Python int, numpy int8..int64/uint8/uint16, float32/float16), shape (0-d, size-0, (N,1), '
                '(1,N), 2-D, 3-D) and memory layout (C, Fortran, transposed, reversed, strided, broadcast, list, '
                'tuple) of the same logical values; R1-R7 oracles per model kind (typed/shaped twins vs float64 scalar '
                'queries under both policies, input snapshots, rejected calls, boundary values, scales 1e-12..1e12, '
                'shared / long-lived objects); R15: setter values, distances, losses, linear losses, angles and their '
                'neighbours at relative 1e-6, 3e-9, 1.3e-12 and one ulp, magnitudes down to 1e-15, exact losses of '
                '+-1e-9..+-5e-324 dB, both sides of the zero-loss distance / guard bounds / 300 MHz; R16: one argument '
                'array / list / dict refilled in place over 2-4 calls, same object in two roles; non-trivial = distinct '
                'history with >= 2 non-flag operations / distinct oracle case')
    quick = ctx.tier == 'quick'
    n_corr, n_or, hist, depth = (3300, 1200, 12, 2) if quick else (150000, 60000, 40, 3)
    n_rob = 400 if quick else 6000
    _r15r16()
    core.prove(ctx, MODULE, generated=['C13Constants'], drivers=[DRIVER], scratch=ctx.scratch)
    ctx.required_branches = ['policy:raise-scalar', 'policy:raise-array', 'policy:clamp-scalar',
                             'policy:clamp-array', 'oh:which_distance-not-offered', 'ps7:los', 'ps7:nlos',
                             'ps7:array-walls', 'ps7:negative-walls', 'ps7:which_distance', 'setter:fs.n', 'setter:fs.fc',
                             'setter:oh.fc:rejected', 'setter:oh.hbs:rejected', 'setter:oh.hms:rejected',
                             'setter:oh.area:rejected', 'setter:oh.fc:accepted', 'oh:area=open',
                             'oh:area=suburban', 'oh:area=medium city', 'oh:area=large city',
                             'oh:large-city:fc>300', 'oh:large-city:fc<=300', 'ant:gain']
    try:
        correspondence(ctx, n_corr, hist, depth)
    except core.Infra as e:
        if not ctx.broken:
            raise
        ctx.notes.append('correspondence skipped: %s' % e)
        ctx.required_branches = []
    corpus_oracles(ctx)
    oracles(ctx, n_or, hist)
    robust_oracles(ctx, n_rob, hist)
    x = _r15r16()
    x.run(ctx, 250 if quick else 8000, 250 if quick else 8000, hist)
    if ctx.required_branches:
        ctx.required_branches = ctx.required_branches + ROBUST_REQUIRED + x.REQUIRED + x.CORR_REQUIRED


def search(ctx):
    """deeper failing-input search, used when a proof / correspondence / tie broke"""
    saved = ctx.rng
    ctx.rng = ctx.rng.fork('search')
    oracles(ctx, 3000, 20)
    ctx.rng = saved
