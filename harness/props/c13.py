"""C13 — path-loss and antenna-gain models (DESIGN.md §5 C13).

Tie to source: Generated/C13Constants.lean (every formula, literal, setter guard
and decision ladder of pathloss.py / antennagain.py / the dB conversions) is
re-emitted by harness/gen/c13.py on every run; the object / setter machines,
negative-loss policy and scalar-array dispatch are the hand model
Model/C13.lean, tied by the seeded correspondence below (model at Float).
Oracles are first-principles checks on the real code: they never evaluate the
path-loss formulas themselves (order relations, round trips, 10^(-dB/10),
history independence against a freshly constructed object, the Friis formula).
"""
import math
import warnings

import numpy as np

from harness import core

MODULE = 'PyPhysim.Properties.C13'
DRIVER = 'drv_c13'
CLAIM = {
    'technique': 'Lean 4 theorems over the reals about formulas regenerated from the source (log/exp algebra, '
                 'setter-machine induction, interval enclosure of log10(c/4pi)) + Float correspondence of the '
                 'compiled model against the code',
    'text': 'Every numeric formula, literal, setter guard and area-type ladder of pathloss.py, antennagain.py and '
            'dB2Linear/linear2dB is re-translated into Lean on every run. Over the reals (log10 = Real.logb 10, '
            '10**x = Real.rpow) the kernel checks, for General/3GPP/free-space/METIS-PS7 (LOS, NLOS, any wall count)/'
            'Okumura-Hata (all area types), every positive distance (scalar and array) and every setter history: loss '
            'non-decreasing in distance; linear value = 10^(-dB/10) in (0,1]; which_distance(_dB) two-sided inverse of '
            'calc_path_loss(_dB) wherever offered; negative loss raises or clamps to exactly 0 dB per flag; every '
            'free-space setter recomputes C (history independence); Okumura-Hata guards keep the parameters in range and '
            'the slope positive; free space with n = 2 within 0.01 dB of Friis (proved, not sampled); sector antenna '
            'gain peaks at boresight, is symmetric, decreasing in |angle| and floored at ant_gain*10^(-Am/10).',
    'note': 'Trusted beyond the common base: harness/gen/c13.py (float-expression fragment: Python float + - * / **2 '
            '10**x log10 np.minimum <-> the same operations on reals; if-ladders on strings/comparisons; setter-guard '
            'and setter-recompute patterns), and the seeded Float correspondence (98% of numeric outputs bit-identical, '
            'rest within 1e-9) for the hand-written object machines, negative-loss policy and scalar/array dispatch. '
            'Outside the theorems: binary64 rounding, numpy broadcasting, shadowing (random; switched off), non-positive '
            'or NaN distances in arrays. Monotonicity of the General family carries the guard n >= 0 and the inverse '
            'n != 0 (the setters accept any float; the negative-exponent counter-theorem is proved). One defect fixed '
            '(PathLossMetisPS7.which_distance_dB was `pass`).',
}

PYERRS = ['ValueError', 'TypeError', 'IndexError', 'AssertionError', 'ZeroDivisionError', 'AttributeError',
          'KeyError', 'RuntimeError']
AREAS = ['open', 'suburban', 'medium city', 'large city']
C_LIGHT = 299792458.0


def _impl():
    from pyphysim.channels import pathloss, antennagain
    return pathloss, antennagain


def errname(e):
    for c in type(e).__mro__:
        if c.__name__ in PYERRS:
            return 'error:' + c.__name__
    return 'error:' + type(e).__name__


# ------------------------------------------------------------------ building objects
def build(case):
    """construct the object of a case and apply its setter history (`hist`);
    returns (object, list of setter outcomes)"""
    pl, ag = _impl()
    kind = case['kind']
    if kind == 'gen':
        o = pl.PathLossGeneral(*case['ctor'])
    elif kind == 'gpp':
        o = pl.PathLoss3GPP1()
    elif kind == 'fs':
        o = pl.PathLossFreeSpace(*case['ctor']) if case.get('ctor') else pl.PathLossFreeSpace()
    elif kind == 'ps7':
        o = pl.PathLossMetisPS7(*case['ctor']) if case.get('ctor') else pl.PathLossMetisPS7()
    elif kind == 'oh':
        o = pl.PathLossOkomuraHata()
    elif kind == 'ant':
        o = ag.AntGainBS3GPP25996(*case['ctor'])
    else:
        raise ValueError(kind)
    outs = []
    for name, v in case.get('hist', []):
        outs.append(apply_setter(o, name, v))
    return o, outs


def apply_setter(o, name, v):
    try:
        if name == 'small':
            o.handle_small_distances_bool = bool(v)
        elif name == 'area':
            o.area_type = v
        else:
            setattr(o, name, v)
        return 'ok'
    except Exception as e:
        return errname(e)


def call_db(o, d, nw=None):
    with warnings.catch_warnings():
        warnings.simplefilter('ignore')
        if nw is None:
            return o.calc_path_loss_dB(d)
        return o.calc_path_loss_dB(d, num_walls=nw)


def call_lin(o, d, nw=None):
    with warnings.catch_warnings():
        warnings.simplefilter('ignore')
        if nw is None:
            return o.calc_path_loss(d)
        return o.calc_path_loss(d, num_walls=nw)


def det_db(o, d, nw=None):
    """deterministic loss before the policy (used only to locate the policy branch / margins)"""
    with warnings.catch_warnings():
        warnings.simplefilter('ignore')
        if nw is None:
            return o._calc_deterministic_path_loss_dB(d)
        return o._calc_deterministic_path_loss_dB(d, num_walls=nw)


# ------------------------------------------------------------------ correspondence
def tok_f(x):
    return core.f2s(float(x))


def tok_fl(xs):
    return ','.join(core.f2s(float(x)) for x in xs)


def case_line(case):
    kind = case['kind']
    head = {'gen': lambda: 'gen %s %s' % (tok_f(case['ctor'][0]), tok_f(case['ctor'][1])),
            'gpp': lambda: 'gpp',
            'fs': lambda: ('fs %s %s' % (tok_f(case['ctor'][0]), tok_f(case['ctor'][1]))) if case.get('ctor')
            else 'fsdefault',
            'ps7': lambda: ('ps7 %s' % tok_f(case['ctor'][0])) if case.get('ctor') else 'ps7default',
            'oh': lambda: 'oh',
            'ant': lambda: 'ant %d' % case['ctor'][0]}[kind]()
    toks = []
    for op in case['ops']:
        name = op[0]
        if name == 'small':
            toks.append('small:%d' % int(op[1]))
        elif name == 'area':
            toks.append('area:' + op[1].replace(' ', '~'))
        elif name in ('n', 'fc', 'hbs', 'hms'):
            toks.append('%s:%s' % (name, tok_f(op[1])))
        elif kind == 'ps7' and name in ('db', 'lin', 'wdb', 'wl'):
            toks.append('%s:%d:%s' % (name, op[1], tok_f(op[2])))
        elif kind == 'ps7' and name in ('dba', 'wdba'):
            toks.append('%s:%d:%s' % (name, op[1], tok_fl(op[2])))
        elif kind == 'ps7' and name == 'dbw':
            toks.append('dbw:%s:%s' % (','.join(str(w) for w in op[1]), tok_fl(op[2])))
        elif name in ('db', 'lin', 'wdb', 'wl', 'g'):
            toks.append('%s:%s' % (name, tok_f(op[1])))
        elif name in ('dba', 'lina', 'wdba', 'wla', 'ga'):
            toks.append('%s:%s' % (name, tok_fl(op[1])))
        else:
            raise ValueError(op)
    return head + ' ' + ' '.join(toks)


def run_impl(case):
    """execute the ops of a case on the real code; one result per op:
    'ok' | 'error:<Name>' | float | [floats] | 'None'"""
    try:
        o, _ = build({'kind': case['kind'], 'ctor': case.get('ctor')})
    except Exception as e:
        return [errname(e)]
    kind = case['kind']
    res = []
    warnings.simplefilter('ignore')
    for op in case['ops']:
        name = op[0]
        try:
            if name in ('small', 'area', 'n', 'fc', 'hbs', 'hms'):
                r = apply_setter(o, name, op[1])
            elif kind == 'ps7' and name == 'db':
                r = call_db(o, op[2], op[1])
            elif kind == 'ps7' and name == 'lin':
                r = call_lin(o, op[2], op[1])
            elif kind == 'ps7' and name == 'dba':
                r = call_db(o, np.array(op[2], dtype=float), op[1])
            elif kind == 'ps7' and name == 'dbw':
                r = call_db(o, np.array(op[2], dtype=float), np.array(op[1], dtype=int))
            elif kind == 'ps7' and name == 'wdb':
                r = o.which_distance_dB(op[2], num_walls=op[1]) if op[1] != 0 or len(res) % 2 \
                    else o.which_distance_dB(op[2])
            elif kind == 'ps7' and name == 'wdba':
                r = o.which_distance_dB(np.array(op[2], dtype=float), num_walls=op[1])
            elif kind == 'ps7' and name == 'wl':
                r = o.which_distance(op[2], num_walls=op[1]) if op[1] != 0 or len(res) % 2 \
                    else o.which_distance(op[2])
            elif name == 'db':
                r = call_db(o, op[1])
            elif name == 'dba':
                # lists are accepted by the PathLossGeneral family (the suite passes lists)
                arg = list(op[1]) if (kind in ('gen', 'gpp', 'fs') and len(op[1]) % 2 == 0) \
                    else np.array(op[1], dtype=float)
                r = call_db(o, arg)
            elif name == 'lin':
                r = call_lin(o, op[1])
            elif name == 'lina':
                r = call_lin(o, np.array(op[1], dtype=float))
            elif name == 'wdb':
                r = o.which_distance_dB(op[1])
            elif name == 'wdba':
                r = o.which_distance_dB(np.array(op[1], dtype=float))
            elif name == 'wl':
                r = o.which_distance(op[1])
            elif name == 'wla':
                r = o.which_distance(np.array(op[1], dtype=float))
            elif name == 'g':
                r = o.get_antenna_gain(op[1])
            elif name == 'ga':
                r = o.get_antenna_gain(np.array(op[1], dtype=float))
            else:
                raise ValueError(op)
        except Exception as e:
            r = errname(e)
        if r is None:
            r = 'None'
        elif isinstance(r, np.ndarray):
            r = [float(x) for x in r.ravel()]
        elif not isinstance(r, str):
            r = float(r)
        res.append(r)
    return res


LINEAR_OPS = {'lin', 'lina', 'g', 'ga', 'wdb', 'wdba', 'wl', 'wla'}   # positive quantities: relative tolerance


def num_close(a, b, relative):
    if a == b:
        return True
    if math.isnan(a) or math.isnan(b) or math.isinf(a) or math.isinf(b):
        return False
    if relative:
        return abs(a - b) <= 1e-9 * max(abs(a), abs(b))
    return abs(a - b) <= 1e-9 * max(1.0, abs(a), abs(b))


def compare(case, impl, model_line):
    """returns (agree, impl_repr, model_repr, n_exact, n_num)"""
    if len(impl) == 1 and len(case['ops']) != 1 and isinstance(impl[0], str) and impl[0].startswith('error'):
        return impl[0] == model_line, impl[0], model_line, 0, 0
    toks = model_line.split(' ') if model_line else []
    if len(toks) != len(impl):
        return False, repr(impl), model_line, 0, 0
    exact = nums = 0
    for op, a, t in zip(case['ops'], impl, toks):
        rel = op[0] in LINEAR_OPS
        if isinstance(a, str):
            ok = (a == t)
        elif isinstance(a, float):
            ok = t.startswith('f') and ',' not in t and num_close(a, core.s2f(t), rel)
            nums += 1
            exact += int(ok and core.f2s(a) == t)
        else:
            parts = t.split(',') if t else []
            ok = (len(parts) == len(a) and all(p.startswith('f') for p in parts)
                  and all(num_close(x, core.s2f(p), rel) for x, p in zip(a, parts)))
            nums += len(a)
            exact += sum(1 for x, p in zip(a, parts) if ok and core.f2s(x) == p)
        if not ok:
            return False, '%s -> %r' % (op, a), '%s -> %s' % (op[0], decode(t)), exact, nums
    return True, 'agree', 'agree', exact, nums


def decode(t):
    try:
        return ','.join(repr(core.s2f(p)) if p.startswith('f') else p for p in t.split(','))
    except Exception:
        return t


# ------------------------------------------------------------------ generators
def logu(rng, lo, hi):
    """log-uniform in [10^lo, 10^hi]"""
    return 10.0 ** rng.uniform(lo, hi)


def nice(rng, x):
    """sometimes round to few digits so that literals like 1.2, 900.0 occur"""
    if rng.chance(0.3):
        return float('%.3g' % x)
    return x


def gen_dist(rng, lo=-3.0, hi=3.0):
    return nice(rng, logu(rng, lo, hi))


def gen_dists(rng, lo=-3.0, hi=3.0):
    return [gen_dist(rng, lo, hi) for _ in range(rng.randint(1, 6))]


def safe_scalar(o, d, nw=None):
    """distance whose deterministic loss is not within 1e-6 dB of the policy threshold 0"""
    v = det_db(o, d, nw)
    return abs(float(v)) > 1e-6


def fs_setter(rng):
    r = rng.below(3)
    if r == 0:
        return ['n', nice(rng, rng.uniform(0.3, 6.0))]
    if r == 1:
        return ['fc', nice(rng, logu(rng, 0.0, 5.0))]
    return ['small', rng.below(2)]


def oh_setter(rng):
    r = rng.below(6)
    bad = rng.chance(0.2)
    if r == 0:
        v = rng.choice([150.0, 1500.0, 300.0, 300.5, 299.0]) if rng.chance(0.25) else (
            rng.uniform(150.0, 300.0) if rng.chance(0.3) else rng.uniform(150.0, 1500.0))
        if bad:
            v = rng.choice([149.999, 1500.001, 10.0, 3000.0, rng.uniform(1.0, 149.0), rng.uniform(1501.0, 9000.0)])
        return ['fc', v]
    if r == 1:
        v = rng.choice([30.0, 200.0]) if rng.chance(0.2) else rng.uniform(30.0, 200.0)
        if bad:
            v = rng.choice([29.999, 200.001, 1.0, 1e8, rng.uniform(0.1, 29.0), rng.uniform(201.0, 900.0)])
        return ['hbs', v]
    if r == 2:
        v = rng.choice([1.0, 10.0]) if rng.chance(0.2) else rng.uniform(1.0, 10.0)
        if bad:
            v = rng.choice([0.999, 10.001, rng.uniform(0.01, 0.99), rng.uniform(10.1, 90.0)])
        return ['hms', v]
    if r in (3, 4):
        return ['area', rng.choice(['rural', 'Open', 'largecity', 'large_city', 'sub urban']) if bad else rng.choice(AREAS)]
    return ['small', rng.below(2)]


def gen_case_general(ctx, rng, kind, hist_len):
    """gen / gpp / fs: setters interleaved with queries"""
    pl, _ = _impl()
    if kind == 'gen':
        ctor = [nice(rng, rng.uniform(0.3, 6.0)), nice(rng, rng.uniform(-20.0, 150.0))]
    elif kind == 'fs':
        ctor = None if rng.chance(0.3) else [nice(rng, rng.uniform(0.3, 6.0)), nice(rng, logu(rng, 0.0, 5.0))]
    else:
        ctor = None
    case = {'kind': kind, 'ctor': ctor, 'ops': []}
    o, _ = build(case)
    n_ops = rng.randint(2, hist_len)
    for _ in range(n_ops):
        r = rng.below(10)
        if r < 4:
            op = fs_setter(rng) if kind == 'fs' else ['small', rng.below(2)]
            apply_setter(o, op[0], op[1])
            ctx.branch('setter:%s.%s' % (kind, op[0]))
        elif r < 6:
            small = rng.chance(0.25)
            d = gen_dist(rng, -9.0, -4.0) if small else gen_dist(rng)
            if not safe_scalar(o, d):
                continue
            op = [rng.choice(['db', 'lin']), d]
        elif r < 8:
            ds = gen_dists(rng)
            if rng.chance(0.3):
                ds[rng.below(len(ds))] = gen_dist(rng, -9.0, -4.0)
            if not all(safe_scalar(o, d) for d in ds):
                continue
            op = [rng.choice(['dba', 'lina']), ds]
        elif r == 8:
            if rng.chance(0.5):
                op = [rng.choice(['wdb', 'wdba']), None]
                vals = [nice(rng, rng.uniform(0.0, 200.0)) for _ in range(rng.randint(1, 4))]
                op[1] = vals[0] if op[0] == 'wdb' else vals
            else:
                op = [rng.choice(['wl', 'wla']), None]
                vals = [nice(rng, logu(rng, -18.0, 0.0)) for _ in range(rng.randint(1, 4))]
                op[1] = vals[0] if op[0] == 'wl' else vals
        else:
            op = ['small', rng.below(2)]
            apply_setter(o, op[0], op[1])
        case['ops'].append(op)
    return case


def gen_case_ps7(ctx, rng, hist_len):
    ctor = None if rng.chance(0.3) else [nice(rng, logu(rng, 2.0, 5.0))]
    case = {'kind': 'ps7', 'ctor': ctor, 'ops': []}
    o, _ = build(case)
    for _ in range(rng.randint(2, hist_len)):
        r = rng.below(10)
        if r < 3:
            op = ['fc', nice(rng, logu(rng, 2.0, 5.0))] if rng.chance(0.6) else ['small', rng.below(2)]
            apply_setter(o, op[0], op[1])
            ctx.branch('setter:ps7.' + op[0])
        elif r < 6:
            nw = -rng.randint(1, 3) if rng.chance(0.08) else (0 if rng.chance(0.4) else rng.randint(1, 6))
            d = gen_dist(rng, -9.0, -3.0) if rng.chance(0.2) else gen_dist(rng, -1.0, 5.0)
            if nw >= 0 and not safe_scalar(o, d, nw):
                continue
            op = [rng.choice(['db', 'lin']), nw, d]
            ctx.branch('ps7:' + ('negative-walls' if nw < 0 else 'los' if nw == 0 else 'nlos'))
        elif r == 6 and rng.chance(0.6):
            nw = -rng.randint(1, 3) if rng.chance(0.08) else (0 if rng.chance(0.4) else rng.randint(1, 6))
            k = rng.below(3)
            if k == 0:
                op = ['wdb', nw, nice(rng, rng.uniform(0.0, 250.0))]
            elif k == 1:
                op = ['wdba', nw, [nice(rng, rng.uniform(0.0, 250.0)) for _ in range(rng.randint(1, 4))]]
            else:
                op = ['wl', nw, nice(rng, logu(rng, -20.0, 0.0))]
            ctx.branch('ps7:which_distance')
        elif r < 8:
            nw = 0 if rng.chance(0.4) else rng.randint(1, 6)
            ds = gen_dists(rng, -1.0, 5.0)
            if rng.chance(0.25):
                ds[rng.below(len(ds))] = gen_dist(rng, -9.0, -3.0)
            if not all(safe_scalar(o, d, nw) for d in ds):
                continue
            op = ['dba', nw, ds]
        else:
            ds = gen_dists(rng, -1.0, 5.0)
            nws = [0 if rng.chance(0.4) else rng.randint(1, 6) for _ in ds]
            if not all(safe_scalar(o, d, w) for d, w in zip(ds, nws)):
                continue
            op = ['dbw', nws, ds]
            ctx.branch('ps7:array-walls')
        case['ops'].append(op)
    return case


def gen_case_oh(ctx, rng, hist_len):
    case = {'kind': 'oh', 'ctor': None, 'ops': []}
    o, _ = build(case)
    first = True
    for _ in range(rng.randint(2, hist_len)):
        r = rng.below(10)
        if first and rng.chance(0.7):
            first = False
            op = ['area', rng.choice(AREAS)]
            out = apply_setter(o, op[0], op[1])
            ctx.branch('setter:oh.area:accepted')
        elif r < 5:
            op = oh_setter(rng)
            out = apply_setter(o, op[0], op[1])
            ctx.branch('setter:oh.%s:%s' % (op[0], 'accepted' if out == 'ok' else 'rejected'))
        elif r < 7:
            d = gen_dist(rng, -9.0, -5.0) if rng.chance(0.2) else gen_dist(rng)
            if not safe_scalar(o, d):
                continue
            op = [rng.choice(['db', 'lin']), d]
            ctx.branch('oh:area=' + o.area_type)
            if o.area_type == 'large city':
                ctx.branch('oh:large-city:' + ('fc>300' if o.fc > 300 else 'fc<=300'))
        elif r < 9:
            ds = gen_dists(rng)
            if rng.chance(0.25):
                ds[rng.below(len(ds))] = gen_dist(rng, -9.0, -5.0)
            if not all(safe_scalar(o, d) for d in ds):
                continue
            op = ['dba', ds]
        else:
            op = ['wdb', nice(rng, rng.uniform(50.0, 200.0))]
        case['ops'].append(op)
    return case


def gen_case_ant(ctx, rng):
    k = rng.choice([3, 6, 3, 6, 3, 6, 1, 4, 9, 0])
    case = {'kind': 'ant', 'ctor': [k], 'ops': []}
    for _ in range(rng.randint(1, 6)):
        if rng.chance(0.6):
            a = rng.choice([0.0, 180.0, -180.0, 70.0, 35.0]) if rng.chance(0.2) else nice(rng, rng.uniform(-180.0, 180.0))
            case['ops'].append(['g', a])
        else:
            case['ops'].append(['ga', [nice(rng, rng.uniform(-180.0, 180.0)) for _ in range(rng.randint(1, 5))]])
    return case


def policy_branches(ctx, case, impl):
    for op, r in zip(case['ops'], impl):
        if op[0] in ('db', 'lin') and r == 'error:RuntimeError':
            ctx.branch('policy:raise-scalar')
        elif op[0] in ('dba', 'lina', 'dbw') and r == 'error:RuntimeError':
            ctx.branch('policy:raise-array')
        elif op[0] == 'db' and isinstance(r, float) and r == 0.0:
            ctx.branch('policy:clamp-scalar')
        elif op[0] in ('dba', 'dbw') and isinstance(r, list) and any(x == 0.0 for x in r):
            ctx.branch('policy:clamp-array')
        elif op[0] == 'wdb' and r == 'error:RuntimeError':
            ctx.branch('oh:which_distance-not-offered')
        elif op[0] in ('g', 'ga'):
            ctx.branch('ant:gain')


def correspondence(ctx, n_cases, hist_len, depth):
    drv = core.Driver(DRIVER)
    rng = ctx.rng.fork('corr')
    cases = []
    kinds = ['fs', 'fs', 'fs', 'gen', 'gpp', 'ps7', 'ps7', 'oh', 'oh', 'oh', 'ant']
    for i in range(n_cases):
        kind = kinds[i % len(kinds)]
        if kind in ('fs', 'gen', 'gpp'):
            c = gen_case_general(ctx, rng, kind, hist_len)
        elif kind == 'ps7':
            c = gen_case_ps7(ctx, rng, hist_len)
        elif kind == 'oh':
            c = gen_case_oh(ctx, rng, hist_len)
        else:
            c = gen_case_ant(ctx, rng)
        if c['ops']:
            cases.append(c)
    enum = enumerated_cases(depth)
    ctx.branch('enumerated-histories', len(enum))
    ctx.extra['enumerated_setter_histories'] = {'depth': depth, 'count': len(enum)}
    cases = corpus_cases() + enum + cases
    exact = nums = 0
    for i in range(0, len(cases), 2000):
        chunk = cases[i:i + 2000]
        out = drv.ask([case_line(c) for c in chunk])
        for c, line in zip(chunk, out):
            impl = run_impl(c)
            ok, a, b, e, n = compare(c, impl, line)
            exact += e
            nums += n
            policy_branches(ctx, c, impl)
            nontrivial = sum(1 for op in c['ops'] if op[0] not in ('small',)) >= 2
            ctx.corr('history:' + c['kind'], c, a, b, nontrivial=nontrivial, key=case_line(c))
            ctx.branch('kind:' + c['kind'])
            if len(ctx.samples) < 3 and i == 0 and c['kind'] in ('fs', 'oh', 'ps7') and len(c['ops']) >= 12:
                ctx.sample({'case': c, 'impl': impl, 'model': [decode(t) for t in line.split(' ')]})
    ctx.extra['numeric_outputs_compared'] = nums
    ctx.extra['numeric_outputs_bit_identical'] = exact


def enumerated_cases(depth):
    """every setter history up to `depth` over a small alphabet, each followed by the same queries"""
    import itertools
    out = []
    oh_ops = [['fc', 150.0], ['fc', 299.0], ['fc', 1500.0], ['fc', 149.0], ['hbs', 30.0], ['hbs', 200.0],
              ['hbs', 250.0], ['hms', 5.0], ['hms', 0.5], ['area', 'open'], ['area', 'large city'],
              ['area', 'medium city'], ['area', 'bad'], ['small', 1]]
    oh_q = [['db', 5.0], ['db', 1e-9], ['dba', [0.5, 30.0]], ['lin', 2.0]]
    fs_ops = [['n', 2.0], ['n', 3.5], ['n', 0.7], ['fc', 900.0], ['fc', 2400.0], ['fc', 5.0], ['small', 0],
              ['small', 1]]
    fs_q = [['db', 1.2], ['db', 1e-5], ['lin', 3.0], ['wdb', 100.0], ['dba', [1e-5, 0.02, 40.0]], ['wl', 1e-9]]
    ps_ops = [['fc', 900.0], ['fc', 6000.0], ['fc', 150.0], ['small', 0], ['small', 1]]
    ps_q = [['db', 0, 10.0], ['db', 3, 10.0], ['db', 1, 1e-4], ['dba', 2, [1e-4, 5.0]], ['wdb', 0, 70.0],
            ['wdb', 2, 70.0], ['lin', 1, 30.0]]
    for kind, ops, q, dmax in (('oh', oh_ops, oh_q, depth), ('fs', fs_ops, fs_q, depth + 1),
                               ('ps7', ps_ops, ps_q, depth + 1)):
        for k in range(0, dmax + 1):
            for h in itertools.product(ops, repeat=k):
                out.append({'kind': kind, 'ctor': None, 'ops': [list(x) for x in h] + q})
    return out


def corpus_cases():
    """fixed boundary histories (always run first): the suite's own points, policy both ways,
    every area type, both large-city frequency branches, guards at their bounds"""
    c = [
        {'kind': 'fs', 'ctor': None, 'ops': [['db', 1.2], ['lin', 1.2], ['n', 2.7], ['db', 1.2], ['fc', 1100.0],
                                              ['db', 1.2], ['wdb', 93.1102472958], ['wl', 4.88624535312e-10],
                                              ['db', 1.1e-5], ['small', 1], ['db', 1.1e-5], ['lin', 1.1e-5],
                                              ['dba', [1.1e-5, 1.1e-4, 1.1e-3, 2.0]], ['small', 0],
                                              ['dba', [1.1e-5, 1.1e-4, 1.1e-3, 2.0]], ['n', 2.0], ['fc', 900.0],
                                              ['db', 1.0], ['wdba', [93.110247295, 91.526622374]]]},
        {'kind': 'gpp', 'ctor': None, 'ops': [['db', 1.0], ['wdb', 130.0], ['db', 1e-4], ['small', 1], ['lin', 1e-4],
                                               ['dba', [1e-4, 2e-4, 8e-4, 1e-3, 5e-3]],
                                               ['wla', [1e-13, 2e-14]], ['db', 0.0], ['db', -1.0]]},
        {'kind': 'gen', 'ctor': [0.0, 5.0], 'ops': [['wdb', 10.0], ['db', 3.0]]},
        {'kind': 'ps7', 'ctor': None, 'ops': [['db', 1, 10.0], ['fc', 6000.0], ['db', 1, 10.0], ['db', 3, 10.0],
                                               ['dba', 3, [10.0, 50.0, 100.0, 1000.0]], ['db', 0, 10.0],
                                               ['fc', 1100.0], ['db', 0, 10.0], ['db', -5, 10.0],
                                               ['dbw', [1, 2, 0, 2, 0], [30.0, 30.0, 30.0, 200.0, 10.0]],
                                               ['db', 0, 1e-4], ['small', 1], ['db', 0, 1e-4], ['lin', 0, 1e-4],
                                               ['dba', 0, [1e-4, 10.0]], ['wdb', 0, 60.0], ['wdb', 2, 90.0],
                                               ['wdb', -1, 90.0], ['wdba', 3, [70.0, 120.5]], ['wl', 1, 1e-9],
                                               ['wl', 0, 1e-7]]},
        {'kind': 'oh', 'ctor': None, 'ops': [['area', 'open'], ['db', 20.0], ['dba', [1.0, 2.0, 20.0]],
                                              ['area', 'suburban'], ['db', 20.0], ['area', 'medium city'],
                                              ['db', 20.0], ['area', 'large city'], ['db', 20.0], ['fc', 300.0],
                                              ['db', 20.0], ['fc', 300.5], ['db', 20.0], ['fc', 150.0], ['fc', 1500.0],
                                              ['fc', 149.999], ['fc', 1500.001], ['hbs', 30.0], ['hbs', 200.0],
                                              ['hbs', 25.0], ['hbs', 205.3], ['hms', 1.0], ['hms', 10.0], ['hms', 0.8],
                                              ['hms', 11.4], ['area', 'some_invalid_string'], ['db', 5.0],
                                              ['wdb', 120.0], ['db', 1e-9], ['small', 1], ['db', 1e-9],
                                              ['dba', [1e-9, 5.0]], ['lin', 1e-9]]},
        {'kind': 'ant', 'ctor': [3], 'ops': [['g', 0.0], ['g', 70.0], ['g', -70.0], ['g', 180.0], ['g', -180.0],
                                              ['ga', [0.0, 35.0, 90.36, 90.37, 100.0]]]},
        {'kind': 'ant', 'ctor': [6], 'ops': [['g', 0.0], ['g', 35.0], ['g', -35.0], ['g', 180.0],
                                              ['ga', [48.4, 48.5, -48.5, 100.0]]]},
        {'kind': 'ant', 'ctor': [9], 'ops': [['g', 0.0]]},
    ]
    return c


# ------------------------------------------------------------------ oracles (on the REAL code)
def _dists(case):
    return [float(x) for x in case['d']]


def o_monotone(case):
    """loss in dB non-decreasing in distance (scalar and array paths), object after its history"""
    o, _ = build(case)
    ds = sorted(_dists(case))
    nw = case.get('nw')
    try:
        o.handle_small_distances_bool = True
        arr = np.asarray(call_db(o, np.array(ds, dtype=float), nw), dtype=float)
        sc = [float(call_db(o, d, nw)) for d in ds]
    except Exception as e:
        return 'exception:%s:%s' % (case['kind'], type(e).__name__), repr(e)[:200]
    for name, v in (('array', arr.tolist()), ('scalar', sc)):
        for i in range(len(ds) - 1):
            if not (v[i] <= v[i + 1] + 1e-9):
                return 'not-monotone:' + case['kind'], '%s path: PL(%r)=%r > PL(%r)=%r' % (
                    name, ds[i], v[i], ds[i + 1], v[i + 1])
        if any(x < 0 for x in v):
            return 'negative-loss:' + case['kind'], '%s path returned %r' % (name, min(v))
    for a, b in zip(arr.tolist(), sc):
        if not num_close(a, b, False):
            return 'scalar-array-differ:' + case['kind'], '%r vs %r' % (a, b)
    return None


def o_linear(case):
    """linear value = 10^(-dB/10), in (0, 1]"""
    o, _ = build(case)
    nw = case.get('nw')
    o.handle_small_distances_bool = True
    for d in _dists(case):
        try:
            db = float(call_db(o, d, nw))
            lin = float(call_lin(o, d, nw))
        except Exception as e:
            return 'exception:%s:%s' % (case['kind'], type(e).__name__), repr(e)[:200]
        exp = 10.0 ** (-db / 10.0)
        if not (abs(lin - exp) <= 1e-12 * exp):
            return 'linear-mismatch:' + case['kind'], 'd=%r: linear %r, 10^(-dB/10) = %r' % (d, lin, exp)
        if not (0.0 < lin <= 1.0) and db < 3000.0:
            return 'linear-out-of-range:' + case['kind'], 'd=%r: linear %r' % (d, lin)
    arr = np.asarray(call_lin(o, np.array(_dists(case)), nw), dtype=float)
    adb = np.asarray(call_db(o, np.array(_dists(case)), nw), dtype=float)
    if not np.allclose(arr, 10.0 ** (-adb / 10.0), rtol=1e-12, atol=0.0):
        return 'linear-mismatch:' + case['kind'], 'array path'
    return None


def o_inverse(case):
    """which_distance(_dB) is the two-sided inverse of calc_path_loss(_dB) wherever offered"""
    o, _ = build(case)
    kind = case['kind']
    nw = case.get('nw')
    o.handle_small_distances_bool = False
    kw = {} if nw is None else {'num_walls': nw}
    try:
        o.which_distance_dB(100.0)
    except NotImplementedError:
        return None           # the query is not offered by this model
    except Exception:
        pass
    for d in _dists(case):
        try:
            db = call_db(o, d, nw)
        except RuntimeError:
            continue          # distance too small for the model: nothing to invert
        try:
            back = o.which_distance_dB(db, **kw)
        except NotImplementedError:
            return None       # not offered by this model
        except TypeError as e:
            return 'no-inverse:' + kind, 'which_distance_dB: %r' % e
        if back is None:
            return 'no-inverse:' + kind, 'which_distance_dB(%r) returned None' % (db,)
        if not num_close(float(back), d, True):
            return 'inverse-mismatch:' + kind, 'which_distance_dB(calc_path_loss_dB(%r)) = %r' % (d, back)
        lin = call_lin(o, d, nw)
        if float(lin) > 1e-300:
            back = o.which_distance(lin, **kw) if kw else o.which_distance(lin)
            if back is None or not abs(float(back) - d) <= 1e-7 * d:
                return 'inverse-mismatch:' + kind, 'which_distance(calc_path_loss(%r)) = %r' % (d, back)
    for p in case.get('pl', []):
        dd = o.which_distance_dB(p, **kw)
        if dd is None:
            return 'no-inverse:' + kind, 'which_distance_dB(%r) returned None' % (p,)
        if not (0.0 < float(dd) < 1e300):
            continue
        back = float(call_db(o, float(dd), nw))
        if abs(back - p) > 1e-9 * max(1.0, abs(p)):
            return 'inverse-mismatch:' + kind, 'calc_path_loss_dB(which_distance_dB(%r)) = %r' % (p, back)
    if case.get('pl'):
        arr = o.which_distance_dB(np.array(case['pl'], dtype=float), **kw)
        sc = [float(o.which_distance_dB(p, **kw)) for p in case['pl']]
        if arr is None or not np.allclose(np.asarray(arr, dtype=float), sc, rtol=1e-12):
            return 'inverse-mismatch:' + kind, 'array path differs from scalar path'
    return None


def o_policy(case):
    """distances whose deterministic loss is negative raise (flag off) or give exactly 0 dB (flag on);
    all other entries are untouched"""
    o, _ = build(case)
    kind = case['kind']
    nw = case.get('nw')
    ds = _dists(case)
    det = [float(det_db(o, d, nw)) for d in ds]
    for flag in (False, True):
        o.handle_small_distances_bool = flag
        for d, v in zip(ds, det):
            if abs(v) < 1e-6:
                continue
            try:
                r = call_db(o, d, nw)
                err = None
            except RuntimeError:
                r, err = None, 'RuntimeError'
            except Exception as e:
                return 'policy:%s:exception' % kind, repr(e)[:200]
            if v < 0 and not flag and err is None:
                return 'policy:%s:no-raise' % kind, 'd=%r deterministic %r returned %r' % (d, v, r)
            if v < 0 and flag and not (err is None and float(r) == 0.0):
                return 'policy:%s:no-clamp' % kind, 'd=%r deterministic %r gave %r / %s' % (d, v, r, err)
            if v > 0 and (err is not None or float(r) != v):
                return 'policy:%s:altered' % kind, 'd=%r deterministic %r gave %r / %s' % (d, v, r, err)
        if any(abs(v) < 1e-6 for v in det):
            continue
        try:
            r = call_db(o, np.array(ds, dtype=float), nw)
            err = None
        except RuntimeError:
            r, err = None, 'RuntimeError'
        anyneg = any(v < 0 for v in det)
        if anyneg and not flag:
            if err is None:
                return 'policy:%s:no-raise' % kind, 'array %r returned %r' % (ds, r)
        else:
            if err is not None:
                return 'policy:%s:spurious-raise' % kind, 'array %r' % (ds,)
            got = [float(x) for x in np.asarray(r).ravel()]
            for d, v, g in zip(ds, det, got):
                if v < 0 and g != 0.0:
                    return 'policy:%s:no-clamp' % kind, 'array %r entry d=%r deterministic %r gave %r' % (ds, d, v, g)
                if v > 0 and not num_close(g, v, False):
                    return 'policy:%s:altered' % kind, 'array %r entry d=%r deterministic %r gave %r' % (ds, d, v, g)
    return None


def o_friis(case):
    """free space, exponent 2: within 0.01 dB of 20 log10(4 pi d f / c)"""
    pl, _ = _impl()
    fc = float(case['fc'])
    o = pl.PathLossFreeSpace(n=case.get('n0', 2.0), fc=case.get('fc0', fc))
    for name, v in case.get('hist', []):
        apply_setter(o, name, v)
    o.n = 2.0
    o.fc = fc
    o.handle_small_distances_bool = False
    for d in _dists(case):
        friis = 20.0 * math.log10(4.0 * math.pi * (d * 1e3) * (fc * 1e6) / C_LIGHT)
        if friis < 0.02:
            continue
        got = float(o.calc_path_loss_dB(d))
        if abs(got - friis) > 0.01:
            return 'friis>0.01dB', 'd=%r km fc=%r MHz: model %r, Friis %r' % (d, fc, got, friis)
    return None


def o_history(case):
    """an object after any setter history answers like a freshly built object with the same parameters"""
    pl, _ = _impl()
    o, _ = build(case)
    kind = case['kind']
    if kind == 'fs':
        f = pl.PathLossFreeSpace(n=o.n, fc=o.fc)
    elif kind == 'ps7':
        f = pl.PathLossMetisPS7(fc=o.fc)
    elif kind == 'oh':
        if not (150.0 <= o.fc <= 1500.0 and 30.0 <= o.hbs <= 200.0 and 1.0 <= o.hms <= 10.0
                and o.area_type in AREAS):
            return 'guard-bypassed:oh', 'state fc=%r hbs=%r hms=%r area=%r' % (o.fc, o.hbs, o.hms, o.area_type)
        f = pl.PathLossOkomuraHata()
        f.fc, f.hbs, f.hms, f.area_type = o.fc, o.hbs, o.hms, o.area_type
    else:
        return None
    o.handle_small_distances_bool = f.handle_small_distances_bool = True
    nw = case.get('nw')
    ds = np.array(_dists(case), dtype=float)
    a, b = np.asarray(call_db(o, ds, nw)), np.asarray(call_db(f, ds, nw))
    if not np.array_equal(a, b):
        return 'stale:' + kind, 'after %r: %r, fresh object: %r' % (case.get('hist'), a.tolist(), b.tolist())
    if kind == 'fs':
        for p in case.get('pl', []):
            if o.which_distance_dB(p) != f.which_distance_dB(p):
                return 'stale:' + kind, 'which_distance_dB(%r) differs from a fresh object' % p
    return None


def o_antenna(case):
    """peak at boresight, symmetric, floored at the maximum attenuation"""
    _, ag = _impl()
    k = case['sectors']
    a = ag.AntGainBS3GPP25996(k)
    g0 = float(a.get_antenna_gain(0.0))
    floor = g0 * 10.0 ** (-a.Am / 10.0)
    dbi = {3: 14.0, 6: 17.0}[k]
    if abs(g0 - 10.0 ** (dbi / 10.0)) > 1e-12 * g0:
        return 'boresight-gain', 'gain(0) = %r' % g0
    angles = [float(x) for x in case['angles']]
    arr = np.asarray(a.get_antenna_gain(np.array(angles)), dtype=float)
    for th, ga in zip(angles, arr.tolist()):
        g = float(a.get_antenna_gain(th))
        if not num_close(g, ga, True):
            return 'scalar-array-differ', 'angle %r: %r vs %r' % (th, g, ga)
        if g > g0 * (1 + 1e-15):
            return 'not-peak-at-boresight', 'gain(%r)=%r > gain(0)=%r' % (th, g, g0)
        if float(a.get_antenna_gain(-th)) != g:
            return 'asymmetric', 'gain(%r) != gain(%r)' % (th, -th)
        if g < floor * (1 - 1e-12):
            return 'below-floor', 'gain(%r)=%r < %r' % (th, g, floor)
    srt = sorted(abs(x) for x in angles)
    gs = [float(a.get_antenna_gain(x)) for x in srt]
    if any(gs[i] < gs[i + 1] * (1 - 1e-12) for i in range(len(gs) - 1)):
        return 'not-decreasing-in-|angle|', 'angles %r gains %r' % (srt, gs)
    if abs(float(a.get_antenna_gain(180.0)) - floor) > 1e-12 * floor:
        return 'floor-not-reached', 'gain(180)=%r floor %r' % (float(a.get_antenna_gain(180.0)), floor)
    return None


ORACLES = {
    'calc_path_loss_dB.monotone': o_monotone,
    'calc_path_loss.linear': o_linear,
    'which_distance_dB.inverse': o_inverse,
    'calc_path_loss_dB.small-distance': o_policy,
    'PathLossFreeSpace.friis': o_friis,
    'setters.history': o_history,
    'get_antenna_gain': o_antenna,
}


def run_oracle(ctx, call, case, nontrivial=True):
    ctx.count((call, repr(case)), nontrivial)
    try:
        r = ORACLES[call](case)
    except Exception as e:
        r = ('exception:%s:%s' % (case.get('kind', ''), type(e).__name__), repr(e)[:300])
    if r is not None:
        ctx.fail(call, r[0], case, r[1])
        ctx.branch('oracle-fail:' + call)
    else:
        ctx.branch('oracle-ok:' + call)
    return r


def replay(ctx, rep):
    return ORACLES[rep['call']](rep['case']) is not None


def oracle_case(rng, kind, hist_len):
    """object description + setter history + query points for the oracles"""
    case = {'kind': kind, 'ctor': None, 'hist': []}
    if kind == 'gen':
        case['ctor'] = [nice(rng, rng.uniform(0.3, 6.0)), nice(rng, rng.uniform(-20.0, 150.0))]
    elif kind == 'fs':
        case['ctor'] = None if rng.chance(0.3) else [nice(rng, rng.uniform(0.3, 6.0)), nice(rng, logu(rng, 0.0, 5.0))]
        case['hist'] = [fs_setter(rng) for _ in range(rng.randint(0, hist_len))]
    elif kind == 'ps7':
        case['ctor'] = None if rng.chance(0.3) else [nice(rng, logu(rng, 2.0, 5.0))]
        case['hist'] = [['fc', nice(rng, logu(rng, 2.0, 5.0))] for _ in range(rng.randint(0, hist_len))]
        case['nw'] = 0 if rng.chance(0.35) else rng.randint(1, 8)
    elif kind == 'oh':
        case['hist'] = [oh_setter(rng) for _ in range(rng.randint(0, hist_len))]
    lo, hi = (-1.0, 5.0) if kind == 'ps7' else (-3.0, 3.0)
    case['d'] = [gen_dist(rng, lo, hi) for _ in range(rng.randint(2, 8))]
    if rng.chance(0.5):
        case['d'] += [gen_dist(rng, -9.0, -4.0) for _ in range(rng.randint(1, 2))]
    case['pl'] = [nice(rng, rng.uniform(1.0, 220.0)) for _ in range(rng.randint(1, 4))]
    return case


def corpus_oracles(ctx):
    """corpus/c13/*.json: minimised past failures and boundary inputs, always run first"""
    import glob
    import json
    import os
    for fn in sorted(glob.glob(os.path.join(core.VERIF, 'corpus', 'c13', '*.json'))):
        with open(fn) as f:
            rec = json.load(f)
        run_oracle(ctx, rec['call'], rec['case'])
        ctx.branch('corpus')


def oracles(ctx, n_cases, hist_len):
    rng = ctx.rng.fork('oracles')
    kinds = ['fs', 'fs', 'gen', 'gpp', 'ps7', 'ps7', 'oh', 'oh']
    for i in range(n_cases):
        kind = kinds[i % len(kinds)]
        case = oracle_case(rng, kind, hist_len)
        run_oracle(ctx, 'calc_path_loss_dB.monotone', case)
        run_oracle(ctx, 'calc_path_loss.linear', case)
        run_oracle(ctx, 'calc_path_loss_dB.small-distance', case)
        run_oracle(ctx, 'which_distance_dB.inverse', case)
        if kind in ('fs', 'ps7', 'oh'):
            run_oracle(ctx, 'setters.history', case, nontrivial=len(case['hist']) >= 2)
        if kind == 'fs':
            run_oracle(ctx, 'PathLossFreeSpace.friis',
                       {'fc': nice(rng, logu(rng, 0.0, 5.0)), 'hist': case['hist'], 'd': case['d']})
    for i in range(max(4, n_cases // 20)):
        angles = [0.0, 180.0, -180.0] + [nice(rng, rng.uniform(-180.0, 180.0)) for _ in range(rng.randint(3, 30))]
        run_oracle(ctx, 'get_antenna_gain', {'sectors': (3, 6)[i % 2], 'angles': angles})
    # the suite's own parameter points
    run_oracle(ctx, 'PathLossFreeSpace.friis', {'fc': 900.0, 'd': [1e-3, 1.0, 1.2, 1000.0]})
    run_oracle(ctx, 'which_distance_dB.inverse', {'kind': 'ps7', 'ctor': None, 'hist': [], 'nw': 0,
                                                  'd': [10.0, 100.0], 'pl': [60.0]})
    run_oracle(ctx, 'which_distance_dB.inverse', {'kind': 'ps7', 'ctor': None, 'hist': [], 'nw': 2,
                                                  'd': [10.0, 100.0], 'pl': [90.0]})


def check(ctx):
    ctx.rule = ('cases = (model kind, constructor args, interleaved history of setter calls and scalar/array '
                'queries); distances log-uniform over 1e-3..1e3 km (PS7: 0.1..1e5 m) plus 1e-9..1e-4 for the '
                'small-distance policy, parameters in their valid ranges plus out-of-range values for guarded '
                'setters, all area types, wall counts 0..6 (and negative), angles in [-180,180]; values within 1e-6 dB '
                'of the policy threshold are excluded (margin); non-trivial = distinct history with >= 2 '
                'non-flag operations / distinct oracle case')
    quick = ctx.tier == 'quick'
    n_corr, n_or, hist, depth = (3300, 1200, 12, 2) if quick else (200000, 70000, 40, 3)
    core.prove(ctx, MODULE, generated=['C13Constants'], drivers=[DRIVER], scratch=ctx.scratch)
    ctx.required_branches = ['policy:raise-scalar', 'policy:raise-array', 'policy:clamp-scalar',
                             'policy:clamp-array', 'oh:which_distance-not-offered', 'ps7:los', 'ps7:nlos',
                             'ps7:array-walls', 'ps7:negative-walls', 'ps7:which_distance', 'setter:fs.n', 'setter:fs.fc',
                             'setter:oh.fc:rejected', 'setter:oh.hbs:rejected', 'setter:oh.hms:rejected',
                             'setter:oh.area:rejected', 'setter:oh.fc:accepted', 'oh:area=open',
                             'oh:area=suburban', 'oh:area=medium city', 'oh:area=large city',
                             'oh:large-city:fc>300', 'oh:large-city:fc<=300', 'ant:gain']
    try:
        correspondence(ctx, n_corr, hist, depth)
    except core.Infra as e:
        if not ctx.broken:
            raise
        ctx.notes.append('correspondence skipped: %s' % e)
        ctx.required_branches = []
    corpus_oracles(ctx)
    oracles(ctx, n_or, hist)


def search(ctx):
    """deeper failing-input search, used when a proof / correspondence / tie broke"""
    saved = ctx.rng
    ctx.rng = ctx.rng.fork('search')
    oracles(ctx, 3000, 20)
    ctx.rng = saved
