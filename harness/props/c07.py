"""C07 — a simulation stopped at any point resumes without losing or double counting work
(DESIGN.md §5 C07).

Tie to source: `lean/PyPhysim/Model/C07.lean` is the C05 runner machine plus a
durable store, the save schedule of `save_partial_results_maybe` and the trace
of everything a crash can separate (calls, file-system steps of every save).  It
is tied to `runner.py` / `results.py` by FAULT ENUMERATION ON THE REAL CODE: a
scripted `SimulationRunner` is run with a results file name; `builtins.open`,
`os.replace`, the clock of `runner.py` and `_run_simulation` are instrumented so
that every event of the model's trace is an instrumented step of the code; a
`BaseException` is raised after the m-th event (and inside a write, leaving the
bytes written so far) and, separately, the directory is snapshotted at that very
moment (what a hard kill leaves).  A fresh runner with the same file name then
runs to completion on both directories.  Files after the crash, restart status,
call log, `runned_reps`, stored statistics and files after the restart are
compared with the model's prediction for that crash point.  The save-rule
constants (500 repetitions / 300 s) and the write discipline of `save_to_file`
are re-read from the source by `harness/gen/c07.py`.

The property oracles below recompute everything from the files on disk and the
raw call logs (token arithmetic); they do not use the model.
"""
import builtins
import json
import os
import shutil
import tempfile

from harness import core

MODULE = 'PyPhysim.Properties.C07'
DRIVER = 'drv_c07'
GENERATED = ['C07SaveRule']

CLAIM = {
    'technique': 'Lean 4 proof over EVERY prefix of the event trace of a run (calls + the individual file-system '
                 'steps of every partial/final save) for two write disciplines, composed with the C05 loop '
                 'specification; write discipline and save-rule constants regenerated from the source; fault '
                 'enumeration on the real code (exception and hard-kill snapshot after every instrumented event, '
                 'torn writes) compared with the model per crash point',
    'text': 'Model = the C05 runner machine + a durable store (per variation: absent | torn | valid(acc, skipped, rep, '
            'tag), plus a temp-file flag; one slot for the final results file) + the schedule of '
            'save_partial_results_maybe driven by an arbitrary stream of call durations + the trace of everything '
            'a crash can separate. Kernel-checked for every results type and merge (no law assumed), every rep_max, '
            '_keep_going, number of variations, save period/threshold, duration stream (= every save schedule), '
            'outcome stream, and EVERY crash point (any prefix of the trace, i.e. inside any repetition and between '
            'any two file-system steps of any save): (1) crash_never_worse / saved_is_prefix_merge_run: after the '
            'crash every variation before the interrupted one holds its final state, the interrupted one holds its '
            'old file or the merge of a PREFIX of its own outcomes, later files are untouched, the segments are '
            'disjoint pieces of the stream; with temp+os.replace no file is ever torn; (2) saved_is_prefix_merge: '
            'invariant over any number of interrupted runs - every file is missing or the merge and count of one '
            'sequence of successful calls, tagged with its own parameters; (3) resume_exact: a restart with the same '
            'parameters on the crash disk never raises, and when it returns each variation\'s result and count are '
            'those of ONE run over (durably saved prefix of run 1) ++ (what run 2 executed), guard false at the end, '
            'resume_completes: it returns normally when the stream holds n*max(1,rep_max) successes, '
            'calls = |seg2| per variation in order - nothing lost, nothing counted twice; resume_exact_count: with '
            'the default _keep_going exactly rep_max repetitions for every variation; restart_never_fails on every '
            'reachable disk; completed_variation_not_rerun; restart_ignores_temp_files (leftover .tmp, swept .tmp, '
            'half-written final file make no difference); (4) mismatch_refused: a file saved for other parameters '
            '=> no normal return, no call and no write for that variation, ValueError; (5) torn_breaks_restart: '
            'negative witness for in-place writing (the code before the fix); simulate_spec ties a complete run to '
            'the C05 specification. generated_save_matches_model is re-proved against the source on every run: the '
            'file-system steps of _save_to_pickle/_save_to_json must be [open tmp, write, os.replace] and the save '
            'rule `> 300 or % 500 == 0`. The model is tied to runner.py/results.py by fault enumeration: every event '
            'of the trace is an instrumented step of the code (call, open, write, os.replace); for every scenario '
            'and every crash point (plus 3 torn-write variants per write) the files after the crash, restart status, '
            'call log, runned_reps, stored statistics (unique per-call tokens) and files after the restart are '
            'compared with the model, once with exception unwinding and once on a directory snapshot taken at the '
            'crash (hard kill); independent oracles re-check the property from files and raw call logs.',
    'note': 'Trusted beyond the common base: the hand model <-> code correspondence (a behaviour not reached by the '
            'generators is not tied); harness/gen/c07.py recognising the write steps in the AST; os.replace is '
            'atomic and durable, fsync ordering / page cache below it are outside the model (the snapshot hard kill '
            'shows the directory as the OS has it at that moment, not a power loss); pickle of a complete file '
            'loads, a proper prefix of a pickle never loads. Termination is relative to the outcome stream: '
            'resume_completes proves a normal return whenever the stream holds n*max(1,rep_max) successful outcomes; '
            'a _run_simulation that skips for ever is the explicit Exhausted ending. Not modelled: '
            'delete_partial_results_bool=True (deleting partial files after the final save; that path is checked by the '
            'property oracles on the real code only, every crash point incl. between the removals), simulate(index) '
            'under crashes, simulate_in_parallel, progress bars, a change in the number of digits of the variation '
            'count between runs (other file names). The in-place model is kept for the negative witness; it matched '
            'the unfixed code on every exception crash point.',
}

PERIOD = 500
SECS = 300
BASE = 'res'
TOKBITS = 480      # the unique token 2^position is stored in chunks (pyphysim's Result converts to float)


def ntok(case):
    return (len(case['outs1']) + len(case['outs2'])) // TOKBITS + 1


def tok_of(res, j, n):
    """the token sum of the j-th stored variation, reassembled from its chunks"""
    return sum(int(res['tok%d' % k][j]._value) << (TOKBITS * k) for k in range(n))


class Crash(BaseException):
    """the injected interruption"""


class ScriptExhausted(BaseException):
    """the scripted outcome stream ran out (a real program would still be running)"""


# ------------------------------------------------------------------ keep rules (as C05)
def eval_rule(rule, s, k, r):
    t = rule.split(':')
    if t[0] == 'always':
        return True
    if t[0] == 'sumlt':
        return s < int(t[1])
    if t[0] == 'replt':
        return r < int(t[1])
    if t[0] == 'skiplt':
        return k < int(t[1])
    raise ValueError(rule)


# ------------------------------------------------------------------ parameters
def make_params(p, spec):
    """fill the SimulationParameters object `p` from spec = {'fixed': {...}, 'names': [...], 'vals': {...}}"""
    for k, v in sorted(spec['fixed'].items()):
        p.add(k, v)
    for n in spec['names']:
        p.add(n, list(spec['vals'][n]))
        p.set_unpack_parameter(n)
    return p


def nvar_of(spec):
    n = 1
    for nm in spec['names']:
        n *= len(spec['vals'][nm])
    return n


def variation_keys(spec):
    """what identifies variation i: its index and its parameter values (rep_max excluded) —
    written down here from the statement of the property, not from `__eq__`"""
    names = sorted(spec['names'])
    dims = [len(spec['vals'][n]) for n in names]
    out = []
    for i in range(nvar_of(spec)):
        j, combo = i, {}
        for name, d in reversed(list(zip(names, dims))):
            j, k = divmod(j, d)
            combo[name] = spec['vals'][name][k]
        items = dict(spec['fixed'])
        items.update(combo)
        idx = i if names else -1
        out.append((idx, tuple(sorted((k, repr(v)) for k, v in items.items())), tuple(names)))
    return out


def params_key(p):
    """the same identification computed from a SimulationParameters object (a loaded file)"""
    names = tuple(sorted(p._unpacked_parameters_set)) if p._original_sim_params is None \
        else tuple(sorted(p._original_sim_params._unpacked_parameters_set))
    return (p.unpack_index, tuple(sorted((k, repr(v)) for k, v in p.parameters.items() if k != 'rep_max')), names)


def tag_table(case):
    tab = {}
    for spec in (case['p1'], case['p2']):
        for key in variation_keys(spec):
            tab.setdefault(key, len(tab))
    return tab


def idx_str(spec, i):
    total = nvar_of(spec)
    return str(i if spec['names'] else -1).zfill(len(str(total)))


# ------------------------------------------------------------------ case -> driver line
def case_line(case, pts):
    tab = tag_table(case)
    t1 = [tab[k] for k in variation_keys(case['p1'])]
    t2 = [tab[k] for k in variation_keys(case['p2'])]

    def outs(o):
        return ','.join('s' if x == 's' else str(x) for x in o)

    def clk(c):
        return ','.join(str(x) for x in c)
    return ('resume mode=%s period=%d secs=%d keep=%s n1=%d rm1=%d tags1=%s outs1=%s clk1=%s '
            'n2=%d rm2=%d tags2=%s outs2=%s clk2=%s pts=%s') % (
        case.get('mode', 'atomic'), PERIOD, SECS, ';'.join(case['keep']),
        len(t1), case['rm1'], ','.join(map(str, t1)), outs(case['outs1']), clk(case['clk1']),
        len(t2), case['rm2'], ','.join(map(str, t2)), outs(case['outs2']), clk(case['clk2']),
        'all' if pts is None else ','.join(map(str, pts)))


def parse_reply(reply):
    """-> (header dict, {m: {field: value}})"""
    segs = [s.strip() for s in reply.split(' ; ')]
    head = dict(t.split('=', 1) for t in segs[0].split(' ') if '=' in t)
    pts = {}
    for s in segs[1:]:
        d = dict(t.split('=', 1) for t in s.split(' ') if '=' in t)
        pts[int(d['m'])] = d
    return head, pts


# ------------------------------------------------------------------ instrumentation of the real code
class FakeClock:
    def __init__(self):
        self.now = 1000.0

    def __call__(self):
        return self.now


class Hooks:
    """counts the events of the model's trace as the code performs them; raises `Crash` right after
    event number `crash_after`, or inside the write that would be event `tear[0]` after a fraction
    `tear[1]` of its bytes; snapshots the directory at that moment (hard kill)"""

    def __init__(self, root, crash_after=None, tear=None, snap=None, final=None):
        self.root = os.path.realpath(root) + os.sep
        self.final = final
        self.crash_after = crash_after
        self.tear = tear
        self.snap = snap
        self.n = 0
        self.kinds = []
        self.fired = None

    def inside(self, path):
        try:
            return os.path.realpath(os.fspath(path)).startswith(self.root)
        except TypeError:
            return False

    def is_final(self, path):
        p = os.path.basename(os.fspath(path))
        return self.final is not None and p in (self.final, self.final + '.tmp')

    def fire(self, where):
        self.fired = where
        if self.snap is not None:
            shutil.copytree(self.root, self.snap, dirs_exist_ok=True)
        raise Crash()

    def event(self, kind):
        self.n += 1
        self.kinds.append(kind)
        if self.crash_after is not None and self.n == self.crash_after:
            self.fire(kind)


class FileProxy:
    """a file opened for writing inside the results directory"""

    def __init__(self, f, hooks, kind):
        self.__dict__['_f'] = f
        self.__dict__['_hooks'] = hooks
        self.__dict__['_kind'] = kind
        self.__dict__['_written'] = False

    def write(self, data):
        h = self._hooks
        if not self._written:
            self.__dict__['_written'] = True
            if h.tear is not None and h.n + 1 == h.tear[0]:
                cut = min(len(data) - 1, max(0, int(len(data) * h.tear[1])))
                self._f.write(data[:cut])
                self._f.flush()
                h.fire('tear:' + self._kind)
            r = self._f.write(data)
            h.event(self._kind.replace('tmpOpen', 'tmpWrite').replace('trunc', 'write'))
            return r
        return self._f.write(data)

    def __enter__(self):
        return self

    def __exit__(self, *a):
        self._f.close()
        return False

    def __getattr__(self, name):
        return getattr(self._f, name)

    def __iter__(self):
        return iter(self._f)


class Instrument:
    """context manager: patches builtins.open, os.replace and the clock of runner.py"""

    def __init__(self, hooks, clock):
        self.hooks = hooks
        self.clock = clock

    def __enter__(self):
        import pyphysim.simulations.runner as rmod
        self.rmod = rmod
        self.real_open = builtins.open
        self.real_replace = os.replace
        self.real_remove = os.remove
        self.real_time = rmod.time
        hooks = self.hooks
        real_open = self.real_open
        real_replace = self.real_replace

        def my_open(file, mode='r', *a, **k):
            f = real_open(file, mode, *a, **k)
            if hooks is not None and isinstance(mode, str) and ('w' in mode or 'a' in mode or 'x' in mode) \
                    and hooks.inside(file):
                kind = ('F' if hooks.is_final(file) else '') + \
                    ('tmpOpen' if os.fspath(file).endswith('.tmp') else 'trunc')
                try:
                    hooks.event(kind)
                except Crash:
                    f.close()
                    raise
                return FileProxy(f, hooks, kind)
            return f

        def my_replace(src, dst, *a, **k):
            r = real_replace(src, dst, *a, **k)
            if hooks is not None and hooks.inside(dst):
                hooks.event(('F' if hooks.is_final(dst) else '') + 'rename')
            return r
        real_remove = self.real_remove

        def my_remove(path, *a, **k):
            r = real_remove(path, *a, **k)
            # deleting a partial-results file (delete_partial_results_bool); the clean-up of a temp
            # file during exception unwinding is not an event of the run
            if hooks is not None and hooks.fired is None and hooks.inside(path) \
                    and not os.fspath(path).endswith('.tmp'):
                hooks.event('remove')
            return r
        builtins.open = my_open
        os.replace = my_replace
        os.remove = my_remove
        rmod.time = self.clock
        return self

    def __exit__(self, *a):
        builtins.open = self.real_open
        os.replace = self.real_replace
        os.remove = self.real_remove
        self.rmod.time = self.real_time
        return False


def make_runner(case, which, root, hooks, clock, log):
    """a scripted runner for run 1 (`which` = 1) or run 2"""
    from pyphysim.simulations.results import Result, SimulationResults
    from pyphysim.simulations.runner import SimulationRunner, SkipThisOne
    outs = case['outs%d' % which]
    clk = case['clk%d' % which]
    off = 0 if which == 1 else len(case['outs1'])
    keep = case['keep']
    nt = ntok(case)

    class Scripted(SimulationRunner):
        def __init__(self):
            super().__init__(read_command_line_args=False)
            self.update_progress_function_style = None
            self.pos = 0

        def _run_simulation(self, current_parameters):
            if self.pos >= len(outs):
                raise ScriptExhausted()
            c = self.pos
            o = outs[c]
            self.pos += 1
            clock.now += clk[c] if c < len(clk) else 0
            log.append((max(current_parameters.unpack_index, 0), off + c, o))
            if hooks is not None:
                hooks.event('call')
            if o == 's':
                raise SkipThisOne('scripted skip')
            r = SimulationResults()
            r.add_new_result('sum', Result.SUMTYPE, o)
            for k in range(nt):
                r.add_new_result('tok%d' % k, Result.SUMTYPE,
                                 (1 << ((off + c) % TOKBITS)) if (off + c) // TOKBITS == k else 0)
            return r

        def _keep_going(self, current_params, current_sim_results, current_rep):
            pos = max(current_params.unpack_index, 0)
            return eval_rule(keep[pos % len(keep)], current_sim_results['sum'][-1]._value,
                             current_sim_results['num_skipped_reps'][-1]._value, current_rep)

    runner = Scripted()
    runner.rep_max = case['rm%d' % which]
    make_params(runner.params, case['p%d' % which])
    runner.set_results_filename(BASE + case.get('ext', ''))
    if case.get('delete'):
        runner.delete_partial_results_bool = True
    return runner


def _int(x):
    try:
        return str(int(x)) if int(x) == x else repr(x)
    except Exception:
        return repr(x)


def final_name(case):
    ext = case.get('ext', '')
    return BASE + (ext if ext else '.pickle')


def part_name(case, spec, i):
    return os.path.join('partial_results', '%s%s_unpack_%s.pickle' % (BASE, case.get('ext', ''), idx_str(spec, i)))


def read_disk(case, root, tab):
    """state of the files, in the driver's format, + raw facts for the oracles"""
    from pyphysim.simulations.results import SimulationResults
    nshow = max(nvar_of(case['p1']), nvar_of(case['p2']))
    # both runs must address the same files for the comparison to make sense
    parts, facts = [], {}
    for i in range(nshow):
        spec = case['p1'] if i < nvar_of(case['p1']) else case['p2']
        fn = os.path.join(root, part_name(case, spec, i))
        s = 'A'
        if os.path.exists(fn):
            try:
                sr = SimulationResults.load_from_file(fn)
                tag = tab.get(params_key(sr.params), 'x')
                f = (int(sr.current_rep), int(sr['num_skipped_reps'][-1]._value), sr['sum'][-1]._value,
                     tok_of(sr, -1, ntok(case)), tag)
                s = 'V%s.%s.%s.%s.%s' % (_int(f[0]), _int(f[1]), _int(f[2]), _int(f[3]), f[4])
                facts[i] = f
            except Exception as e:      # a file that cannot be loaded
                s = 'T'
                facts[i] = ('torn', type(e).__name__)
        if os.path.exists(fn + '.tmp'):
            s += '+t'
        parts.append(s)
    fn = os.path.join(root, final_name(case))
    s = 'A'
    if os.path.exists(fn):
        try:
            sr = SimulationResults.load_from_file(fn)
            n = len(sr['sum'])
            s = 'V%s/%s' % (','.join(_int(r) for r in sr.runned_reps), '_'.join(
                '%s.%s.%s' % (_int(sr['sum'][j]._value), _int(tok_of(sr, j, ntok(case))),
                              _int(sr['num_skipped_reps'][j]._value)) for j in range(n)))
        except Exception:
            s = 'T'
    if os.path.exists(fn + '.tmp'):
        s += '+t'
    return '|'.join(parts) + '|F:' + s, facts


ERRMAP = {'EOFError': 'LoadError', 'UnpicklingError': 'LoadError'}


def run_to_end(case, which, root, tab, hooks=None):
    """run `simulate()` of run `which` in `root`; returns observations"""
    log = []
    clock = FakeClock()
    cwd = os.getcwd()
    os.chdir(root)
    status = 'ok'
    try:
        with Instrument(hooks, clock):
            runner = make_runner(case, which, root, hooks, clock, log)
            try:
                runner.simulate()
            except Crash:
                status = 'crash'
            except ScriptExhausted:
                status = 'Exhausted'
            except Exception as e:
                status = ERRMAP.get(type(e).__name__, type(e).__name__)
    finally:
        os.chdir(cwd)
    res = runner.results
    n = len(res['sum']) if 'sum' in res.get_result_names() else 0
    nt = ntok(case)
    stats = ['%s.%s.%s' % (_int(res['sum'][j]._value), _int(tok_of(res, j, nt)),
                           _int(res['num_skipped_reps'][j]._value)) for j in range(n)]
    reps = runner.runned_reps if isinstance(runner.runned_reps, list) else [runner.runned_reps]
    return {'status': status, 'log': log, 'reps': [int(r) for r in reps], 'stats': stats,
            'toks': [tok_of(res, j, nt) for j in range(n)]}


def trace_kinds(case, scratch):
    """event kinds of a complete run 1 (no crash)"""
    root = tempfile.mkdtemp(prefix='c07_', dir=scratch)
    try:
        h = Hooks(root, final=final_name(case))
        ob = run_to_end(case, 1, root, {}, h)
        return h.kinds, ob
    finally:
        shutil.rmtree(root, ignore_errors=True)


def crash_and_restart(case, m, tear, scratch, tab, hard=True):
    """run 1 with the crash (after event m, or torn inside the write that is event tear[0]); then run 2
    in the directory as the unwinding left it (soft) and in the snapshot taken at the crash (hard).
    Returns {'soft': obs, 'hard': obs | None}; obs = {'crash': diskstr, 'facts', 'calls1', 'run2', 'disk'}"""
    root = tempfile.mkdtemp(prefix='c07_', dir=scratch)
    snap = root + '_snap' if hard else None
    out = {}
    try:
        h = Hooks(root, crash_after=m if tear is None else None, tear=tear, snap=snap, final=final_name(case))
        if m == 0 and tear is None:
            ob1 = {'log': [], 'status': 'crash'}        # killed before anything happened
            if snap:
                os.mkdir(snap)
            h.fired = 'start'
        else:
            ob1 = run_to_end(case, 1, root, tab, h)
        fired = h.fired
        for kind in ('soft', 'hard'):
            if kind == 'hard':
                if snap is None or not os.path.isdir(snap):
                    out['hard'] = None
                    continue
                shutil.rmtree(root)
                os.rename(snap, root)
            crash, facts = read_disk(case, root, tab)
            ob2 = run_to_end(case, 2, root, tab)
            disk, facts2 = read_disk(case, root, tab)
            out[kind] = {'crash': crash, 'facts': facts, 'calls1': len(ob1['log']), 'log1': ob1['log'],
                         'status1': ob1['status'], 'fired': fired, 'run2': ob2, 'disk': disk, 'facts2': facts2}
        return out
    finally:
        shutil.rmtree(root, ignore_errors=True)
        if snap:
            shutil.rmtree(snap, ignore_errors=True)


def impl_repr(ob):
    r2 = ob['run2']
    return 'calls1=%d crash=%s st=%s log=%s reps=%s res=%s disk=%s' % (
        ob['calls1'], ob['crash'], r2['status'], ','.join(str(c[0]) for c in r2['log']),
        ','.join(map(str, r2['reps'])), '_'.join(r2['stats']), ob['disk'])


def model_repr(d, soft):
    # exception unwinding removes the temp file that was being written (Disk.sweep); a hard kill does not
    crash = d['crash'].replace('+t', '') if soft else d['crash']
    disk = d['disk'].replace('+t', '') if soft else d['disk']
    return 'calls1=%s crash=%s st=%s log=%s reps=%s res=%s disk=%s' % (
        d['calls1'], crash, d['st'], d['log'], d['reps'], d['res'], disk)


# ------------------------------------------------------------------ first-principles oracles
def popcount(x):
    return bin(int(x)).count('1')


def oracle_point(case, ob):
    """The property, checked on one crash point from the files and the raw call logs alone.
    Returns [(call, class, detail)]."""
    out = []
    call = 'SimulationRunner.simulate'
    fired = ob['fired'] or 'end'
    same = case['p1'] == case['p2']
    k1 = variation_keys(case['p1'])
    k2 = variation_keys(case['p2'])
    tab = tag_table(case)
    facts = ob['facts']
    r2 = ob['run2']
    rm2 = case['rm2']
    # --- what the crashed run did, by variation: tokens and values of the successful calls, in order
    ok1 = {}
    for v, pos, o in ob['log1']:
        if o != 's':
            ok1.setdefault(v, []).append((1 << pos, o))
    # the call that was being executed when the interruption came returned nothing
    if fired == 'call' and ob['log1'] and ob['log1'][-1][2] != 's':
        v = ob['log1'][-1][0]
        ok1[v] = ok1[v][:-1]
    # --- saved_is_prefix_merge: a loadable file holds the first k successful repetitions of its variation
    for i, f in sorted(facts.items()):
        if f[0] == 'torn':
            continue
        rep, _skipped, sm, tok, tag = f
        mine = ok1.get(i, [])
        if i >= len(k1) or rep > len(mine) or tok != sum(t for t, _ in mine[:rep]) \
                or sm != sum(o for _, o in mine[:rep]) or tag != tab[k1[i]] or rep < 1:
            out.append((call, 'saved-not-prefix-merge',
                        'after the crash (%s) the file of variation %d holds rep=%r sum=%r tok=%r tag=%r; '
                        'its successful repetitions so far: %r' % (fired, i, rep, sm, tok, tag, mine)))
            return out
    # --- the restart
    if same:
        if r2['status'] not in ('ok', 'Exhausted'):
            torn = sorted(i for i, f in facts.items() if f[0] == 'torn')
            out.append((call, 'restart-fails:after-' + fired,
                        'restart with the same parameters raised %s; unreadable partial files: %r'
                        % (r2['status'], torn)))
            return out
        first_bad = None
    else:
        first_bad = None
        for i in range(len(k2)):
            f = facts.get(i)
            if f is not None and (f[0] == 'torn' or i >= len(k1) or k1[i] != k2[i]):
                first_bad = i
                break
        if first_bad is not None:
            later = [c for c in r2['log'] if c[0] >= first_bad]
            changed = [i for i in facts if i >= first_bad and ob['facts2'].get(i) != facts[i]]
            if r2['status'] in ('ok',) or later or changed or (
                    r2['status'] not in ('ValueError', 'Exhausted') and facts[first_bad][0] != 'torn'):
                out.append(('SimulationResultsSaver.load_partial_results', 'mismatch-not-refused',
                            'variation %d has partial results saved for other parameters; restart status %s, '
                            'calls to it or later ones: %d, files changed: %r'
                            % (first_bad, r2['status'], len(later), changed)))
            return out
        if r2['status'] not in ('ok', 'Exhausted'):
            out.append((call, 'restart-fails:after-' + fired, 'restart raised %s' % r2['status']))
            return out
    if r2['status'] != 'ok':
        return out
    ok2 = {}
    for v, pos, o in r2['log']:
        if o != 's':
            ok2.setdefault(v, []).append((1 << pos, o))
    for i in range(len(k2)):
        f = facts.get(i)
        dur_tok, dur_rep = (f[3], f[0]) if f is not None else (0, 0)
        new = ok2.get(i, [])
        exp_tok = dur_tok + sum(t for t, _ in new)
        if i >= len(r2['toks']) or r2['toks'][i] != exp_tok:
            out.append((call, 'lost-or-double-counted',
                        'variation %d: final token sum %r, durable %r + newly executed %r'
                        % (i, r2['toks'][i] if i < len(r2['toks']) else None, dur_tok, [t for t, _ in new])))
            return out
        if popcount(r2['toks'][i]) != r2['reps'][i] or r2['reps'][i] != dur_rep + len(new):
            out.append((call, 'rep-count-mismatch', 'variation %d: runned_reps %r, %d durable + %d new '
                        'repetitions, %d distinct tokens' % (i, r2['reps'][i], dur_rep, len(new),
                                                            popcount(r2['toks'][i]))))
            return out
        if dur_rep >= rm2 and any(c[0] == i for c in r2['log']) and all(k.split(':')[0] != 'skiplt'
                                                                         for k in case['keep']):
            out.append((call, 're-executed-completed-variation',
                        'variation %d had %d >= rep_max repetitions saved and was run again' % (i, dur_rep)))
            return out
        if case['keep'] == ['always'] and r2['reps'][i] != max(rm2, dur_rep, 1):
            out.append((call, 'wrong-number-of-repetitions', 'variation %d ended with %d repetitions, '
                        'rep_max=%d, durable=%d' % (i, r2['reps'][i], rm2, dur_rep)))
            return out
    if len(r2['reps']) != len(k2):
        out.append((call, 'wrong-number-of-repetitions', 'runned_reps has %d entries for %d variations'
                    % (len(r2['reps']), len(k2))))
    return out


def _replay_point(case, m, tear, hard):
    scratch = tempfile.mkdtemp(prefix='c07_replay_')
    try:
        r = crash_and_restart(case, m, tuple(tear) if tear else None, scratch, tag_table(case), hard=hard)
        ob = r['hard' if hard else 'soft']
        return oracle_point(case, ob) if ob is not None else []
    finally:
        shutil.rmtree(scratch, ignore_errors=True)


def _mk(callname):
    def f(rec):
        v = _replay_point(rec['case'], rec['m'], rec.get('tear'), rec.get('hard', False))
        for c, cls, d in v:
            if c == callname:
                return cls, d
        return None
    return f


ORACLES = {c: _mk(c) for c in ('SimulationRunner.simulate', 'SimulationResultsSaver.load_partial_results')}


def replay(ctx, rep):
    v = _replay_point(rep['case']['case'], rep['case']['m'], rep['case'].get('tear'), rep['case'].get('hard', False))
    return any(c == rep['call'] and cls == rep['class'] for c, cls, d in v)


# ------------------------------------------------------------------ generators
SHAPES_SMALL = [(), (1,), (2,), (1, 1), (2, 1), (1, 2), (2, 2)]


def spec_of(shape, names=('a', 'b'), base=10, fixed=7):
    names = list(names[:len(shape)])
    vals = {nm: [base * (j + 1) + k for k in range(ln)] for j, (nm, ln) in enumerate(zip(names, shape))}
    return {'fixed': {'fx0': fixed}, 'names': names, 'vals': vals}


def gen_outs(rng, n, skip_p):
    return ['s' if rng.chance(skip_p) else rng.randint(-2, 5) for _ in range(n)]


def gen_clk(rng, n, p):
    return [301 if rng.chance(p) else rng.choice([0, 0, 1, 100]) for _ in range(n)] if p > 0 else []


def gen_case(rng, shapes=SHAPES_SMALL, rmax=6):
    shape = rng.choice(shapes)
    names = ('a', 'b') if rng.chance(0.5) else ('b', 'a')
    p1 = spec_of(shape, names)
    nvar = nvar_of(p1)
    rm1 = rng.randint(1, rmax)
    k = rng.below(10)
    keep = ['always'] if k < 6 else [rng.choice(['sumlt:%d' % rng.randint(0, 9), 'replt:%d' % rng.randint(0, rm1 + 1),
                                                 'skiplt:%d' % rng.randint(0, 2), 'always'])
                                     for _ in range(rng.randint(1, 2))]
    skip_p = rng.choice([0.0, 0.0, 0.2, 0.4])
    need = (rm1 + 2) * nvar * 2 + 4
    outs1 = gen_outs(rng, need if not rng.chance(0.07) else rng.randint(0, need // 3), skip_p)
    clk1 = gen_clk(rng, len(outs1), rng.choice([0.0, 0.1, 0.3]))
    v = rng.below(100)
    p2, rm2, variant = p1, rm1, 'same'
    if v < 10:
        rm2, variant = max(1, rm1 + rng.choice([-2, -1, 1, 2, 3])), 'repmax'
    elif v < 17:
        p2, variant = dict(p1, fixed={'fx0': 8}), 'fixed-changed'
    elif v < 24 and shape:
        nm = rng.choice(p1['names'])
        vals = {n_: list(x) for n_, x in p1['vals'].items()}
        vals[nm][rng.below(len(vals[nm]))] = 99
        p2, variant = dict(p1, vals=vals), 'value-changed'
    elif v < 30 and shape and nvar * (len(p1['vals'][p1['names'][0]]) + 1) // len(p1['vals'][p1['names'][0]]) <= 9:
        nm = p1['names'][0]
        vals = {n_: list(x) for n_, x in p1['vals'].items()}
        vals[nm] = vals[nm] + [77]
        p2, variant = dict(p1, vals=vals), 'grid-extended'
    need2 = (rm2 + 2) * nvar_of(p2) * 2 + 4
    outs2 = gen_outs(rng, need2 if not rng.chance(0.04) else rng.randint(0, need2 // 3), skip_p)
    clk2 = gen_clk(rng, len(outs2), rng.choice([0.0, 0.2]))
    return dict(p1=p1, p2=p2, rm1=rm1, rm2=rm2, keep=keep, outs1=outs1, clk1=clk1, outs2=outs2, clk2=clk2,
                ext=rng.choice(['', '.pickle', '.json']), variant=variant)


def corpus_cases():
    """boundary scenarios that always run (independent of the seed)"""
    out = []
    base = dict(p1=spec_of((2,)), rm1=3, rm2=3, keep=['always'], outs1=[1, 's', 2, 1, 1, 1, 1, 1, 1, 1],
                clk1=[], outs2=[1] * 12, clk2=[], ext='', variant='same')
    base['p2'] = base['p1']
    out.append(base)
    out.append(dict(base, ext='.json'))
    out.append(dict(base, clk1=[0, 0, 301, 0, 301, 0, 0, 0, 0, 0], outs1=[1] * 10, rm1=4, rm2=4))
    out.append(dict(base, p1=spec_of(()), p2=spec_of(()), rm1=1, rm2=1))
    out.append(dict(base, p1=spec_of((2, 2)), p2=spec_of((2, 2)), rm1=2, rm2=2, outs1=['s', 1, 1, 's'] * 6,
                    outs2=[1, 's'] * 12, ext='.pickle'))
    out.append(dict(base, p2=dict(base['p1'], fixed={'fx0': 8}), variant='fixed-changed'))
    out.append(dict(base, rm2=5, variant='repmax'))
    out.append(dict(base, keep=['sumlt:3'], outs1=[2] * 10, outs2=[2] * 10))
    d = os.path.join(core.VERIF, 'corpus', 'c07')
    if os.path.isdir(d):
        for fn in sorted(os.listdir(d)):
            if fn.endswith('.json'):
                with open(os.path.join(d, fn)) as f:
                    out.append(json.load(f)['case'])
    return out


def boundary_case(rm, ext, nvar=1, skips=False):
    """rep_max around the 500-repetition save period"""
    p = spec_of((nvar,)) if nvar > 1 else spec_of(())
    n = (rm + 3) * nvar + 5
    outs = [(1 + (i % 3)) if not (skips and i % 97 == 5) else 's' for i in range(n)]
    return dict(p1=p, p2=p, rm1=rm, rm2=rm, keep=['always'], outs1=outs, clk1=[], outs2=list(outs), clk2=[],
                ext=ext, variant='same')


def exhaustive_cases():
    """every grid <= 2x2, rep_max 1..6, .pickle and .json targets, two outcome scripts"""
    out = []
    for shape in SHAPES_SMALL:
        p = spec_of(shape)
        nvar = nvar_of(p)
        for rm in range(1, 7):
            for ext in ('', '.json'):
                n = (rm + 2) * nvar + 3
                out.append(dict(p1=p, p2=p, rm1=rm, rm2=rm, keep=['always'], outs1=[1 + (i % 3) for i in range(n)],
                                clk1=[], outs2=[2] * n, clk2=[], ext=ext, variant='same'))
                o1 = ['s' if i % 4 == 1 else 1 + (i % 2) for i in range(2 * n)]
                out.append(dict(p1=p, p2=p, rm1=rm, rm2=rm, keep=['always'], outs1=o1,
                                clk1=[301 if i % 3 == 2 else 0 for i in range(2 * n)],
                                outs2=['s' if i % 5 == 0 else 3 for i in range(2 * n)], clk2=[], ext=ext,
                                variant='same'))
    return out


# ------------------------------------------------------------------ the check
def run_case(ctx, case, pts=None, tears=(0.0, 0.5, 1.0), hard=True, name='crash-restart'):
    """all (or the listed) crash points of one scenario: correspondence + oracles"""
    tab = tag_table(case)
    kinds, ob_full = trace_kinds(case, ctx.scratch)
    reply = core.Driver(DRIVER).ask([case_line(case, pts)])[0]
    if reply == 'bad-op':
        raise core.Infra('driver rejected: ' + case_line(case, pts)[:300])
    head, mpts = parse_reply(reply)
    shape = tuple(len(case['p1']['vals'][n]) for n in sorted(case['p1']['names']))
    ckey = (shape, min(case['rm1'], 7) if case['rm1'] < 400 else case['rm1'], case['variant'], case['ext'],
            case['keep'] != ['always'], any(o == 's' for o in case['outs1']))
    ctx.corr('trace-events', {'case': case}, 'N=%d kinds=%s' % (len(kinds), ','.join(kinds)),
             'N=%s kinds=%s' % (head['N'], head.get('kinds', '')), nontrivial=True, key=('trace',) + ckey)
    ctx.branch('variant:' + case['variant'])
    ctx.branch('ext:' + (case['ext'] or 'none'))
    ctx.branch('run1:' + ob_full['status'])
    points = sorted(mpts) if pts is not None else list(range(len(kinds) + 1))
    jobs = [(m, None) for m in points if m in mpts]
    if tears:
        for m in points:
            if m >= 1 and m <= len(kinds) and kinds[m - 1].endswith(('tmpWrite', 'write')) and (m - 1) in mpts:
                for frac in tears:
                    jobs.append((m - 1, (m, frac)))
    for m, tear in jobs:
        r = crash_and_restart(case, m, tear, ctx.scratch, tab, hard=hard)
        for kind in ('soft', 'hard'):
            ob = r.get(kind)
            if ob is None:
                continue
            rec = {'case': case, 'm': m, 'tear': list(tear) if tear else None, 'hard': kind == 'hard'}
            impl = impl_repr(ob)
            model = model_repr(mpts[m], kind == 'soft')
            evk = (kinds[m - 1] if 1 <= m <= len(kinds) else 'start') if tear is None else 'tear'
            ctx.corr(name, rec, impl, model, nontrivial=True,
                     key=ckey + (evk, kind, ob['run2']['status'], m if case['rm1'] < 400 else 0))
            ctx.branch('crash:' + ('tear' if tear else evk))
            ctx.branch('restart:' + ob['run2']['status'])
            ctx.branch(kind)
            if '+t' in ob['crash']:
                ctx.branch('temp-file-left-by-hard-kill')
            if any(c[0] == 'V' for c in ob['crash'].split('|')[:-1]) and ob['run2']['log']:
                ctx.branch('resumed-mid-run')
            ctx.sample({'line': case_line(case, [m])[:400], 'tear': tear, 'kind': kind, 'impl': impl[:300],
                        'model': model[:300]}, limit=5)
            viols = oracle_point(case, ob)
            seen = set()
            for call, cls, detail in viols:
                if (call, cls) not in seen:
                    seen.add((call, cls))
                    ctx.fail(call, cls, rec, detail)
                    ctx.branch('oracle-fail:' + cls)
            if not viols:
                ctx.branch('oracle-ok')


def run_case_oracles_only(ctx, case, name='delete-partial-results'):
    """a path the model does not cover (delete_partial_results_bool=True: the partial files are removed
    after the final save): every crash point, property oracles on the real code only"""
    tab = tag_table(case)
    kinds, ob_full = trace_kinds(case, ctx.scratch)
    for m in range(len(kinds) + 1):
        r = crash_and_restart(case, m, None, ctx.scratch, tab, hard=True)
        for kind in ('soft', 'hard'):
            ob = r.get(kind)
            if ob is None:
                continue
            rec = {'case': case, 'm': m, 'tear': None, 'hard': kind == 'hard'}
            evk = kinds[m - 1] if 1 <= m <= len(kinds) else 'start'
            ctx.count((name, evk, kind, ob['run2']['status'], m), True)
            ctx.branch('oracle-only:' + name)
            if evk == 'remove':
                ctx.branch('crash:remove')
            seen = set()
            for call, cls, detail in oracle_point(case, ob):
                if (call, cls) not in seen:
                    seen.add((call, cls))
                    ctx.fail(call, cls, rec, detail)
                    ctx.branch('oracle-fail:' + cls)


def boundary_points(kinds, rng, extra=3):
    """crash points around every save of a long run + a few others"""
    pts = {0, 1, len(kinds)}
    for j, k in enumerate(kinds):
        if not k.endswith('call'):
            for d in (-1, 0, 1, 2):
                if 0 <= j + d <= len(kinds):
                    pts.add(j + d)
    for _ in range(extra):
        pts.add(rng.randint(0, len(kinds)))
    return sorted(pts)


def check(ctx):
    ctx.rule = ('scenario = parameter grid (0-2 unpacked parameters of lengths 1-2) x rep_max 1-6 (and 499/500/501/'
                '1001 in the thorough tier) x _keep_going rule x outcome stream of run 1 (values / SkipThisOne, '
                'call durations firing the 300 s rule) x run 2 (same parameters, other rep_max, changed fixed '
                'value, changed grid value, extended grid) x results file .pickle/.json; for every scenario EVERY '
                'crash point of run 1 (after each event of the instrumented code: _run_simulation call, open, '
                'write, os.replace; and inside each write after 0 / half / all-but-one bytes) is taken twice: as an '
                'exception (soft) and as a snapshot of the directory at that moment (hard kill); non-trivial = '
                'distinct (grid shape, rep_max, run-2 variant, file type, stop rule, skips, event kind at the crash, '
                'soft/hard, restart status, crash index); a few scenarios are repeated with delete_partial_results_bool=True '
                '(oracles only, no model)')
    quick = ctx.tier == 'quick'
    core.prove(ctx, MODULE, generated=GENERATED, drivers=[DRIVER], scratch=ctx.scratch)
    ctx.required_branches = ['crash:call', 'crash:tmpOpen', 'crash:tmpWrite', 'crash:rename', 'crash:Frename',
                             'crash:tear', 'soft', 'hard', 'restart:ok', 'restart:ValueError', 'resumed-mid-run',
                             'temp-file-left-by-hard-kill', 'variant:same', 'variant:repmax', 'ext:.json',
                             'ext:none', 'oracle-ok', 'crash:remove']
    try:
        rng = ctx.rng.fork('cases')
        cases = corpus_cases() + [gen_case(rng) for _ in range(40 if quick else 300)]
        for c in cases:
            run_case(ctx, c)
        for c in corpus_cases()[:2 if quick else 5] + ([] if quick else [gen_case(rng) for _ in range(20)]):
            if c['p1'] == c['p2']:
                run_case_oracles_only(ctx, dict(c, delete=True))
        if not quick:
            for c in exhaustive_cases():
                run_case(ctx, c)
            ctx.extra['exhaustive_small_scope'] = (
                'every crash point (exception and hard-kill snapshot, plus torn writes) of every grid shape <= 2x2 x '
                'rep_max 1..6 x .pickle/.json x two outcome scripts (the seeded part of the run is not exhaustive)')
            brng = ctx.rng.fork('boundary')
            for rm, ext in ((499, ''), (500, '.json'), (501, ''), (1001, '.json')):
                c = boundary_case(rm, ext, skips=(rm == 501))
                kinds, _ = trace_kinds(c, ctx.scratch)
                run_case(ctx, c, pts=boundary_points(kinds, brng), tears=(0.5,),
                         name='crash-restart-save-period')
                ctx.branch('save-period-boundary')
            ctx.required_branches.append('save-period-boundary')
    except core.Infra as e:
        if not ctx.broken:
            raise
        ctx.notes.append('correspondence skipped: %s' % e)
        ctx.required_branches = []


def search(ctx):
    """deeper failing-input search on the implementation (oracles only; no model needed)"""
    rng = ctx.rng.fork('search')
    cases = corpus_cases() + [gen_case(rng) for _ in range(25)]
    for case in cases:
        tab = tag_table(case)
        kinds, _ = trace_kinds(case, ctx.scratch)
        jobs = [(m, None) for m in range(len(kinds) + 1)]
        for m in range(1, len(kinds) + 1):
            if kinds[m - 1].endswith(('tmpWrite', 'write')):
                jobs += [(m - 1, (m, f)) for f in (0.0, 0.5, 1.0)]
        for m, tear in jobs:
            r = crash_and_restart(case, m, tear, ctx.scratch, tab, hard=True)
            for kind in ('soft', 'hard'):
                ob = r.get(kind)
                if ob is None:
                    continue
                ctx.count(('search', len(ctx.distinct)), False)
                rec = {'case': case, 'm': m, 'tear': list(tear) if tear else None, 'hard': kind == 'hard'}
                seen = set()
                for call, cls, detail in oracle_point(case, ob):
                    if (call, cls) not in seen:
                        seen.add((call, cls))
                        ctx.fail(call, cls, rec, detail)
        if len(ctx.failures) > 40:
            break
